CONSTANTS
  Keys = {"k1","k2","k3","k4","k5"}
  MaxFilters = 3
  MaxExt = 1
  Emit = FALSE
  Mode = "SharedBuckets"
INIT Init
NEXT Next
INVARIANTS BehavesAsSet TypeOK
CHECK_DEADLOCK FALSE
