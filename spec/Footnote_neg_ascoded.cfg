CONSTANTS
  Labels = {"a", "b"}
  Places = {"plain", "imagealt"}
  MaxItems = 3
  Emit = FALSE
  Mode = "AsCoded"
INIT Init
NEXT Next
INVARIANTS BacklinksMatchRefs EveryItemReferenced RefsResolve
CHECK_DEADLOCK FALSE
