CONSTANTS
  Node = {"n1","n2","n3"}
  NIL = "nil"
  Key <- KeyDef
  Emit = FALSE
  Mode = "NoDetach"
INIT Init
NEXT Next
INVARIANTS Forest CountAgrees
CHECK_DEADLOCK FALSE
