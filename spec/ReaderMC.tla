------------------------------ MODULE ReaderMC ------------------------------
EXTENDS Reader
\* sub-alphabets per aspect (MaxLen bounds the product)
SigmaMove  == {"a", "\t", "\n"}
SigmaSpace == {"a", " ", "\t", "\n"}
SigmaCR    == {"a", "\r", "\n"}
SigmaClos  == {"a", "[", "]", "\n"}
SigmaAN    == {"a", "\n"}
SigmaTN    == {"\t", "\n", "a"}
Pads02     == {0, 2}
Pads012    == {0, 1, 2}
Pads013    == {0, 1, 3}
=============================================================================
