CONSTANTS
  Cap = 4
  Sizes = {1, 2, 4, 5, 9}
  MaxTotal = 12
  MaxWrites = 4
  FailKinds = {"short", "zero"}
  Emit = TRUE
  Mode = "spec"
SPECIFICATION Spec
INVARIANTS Prefix ErrorSurfaces
PROPERTY Terminates
CHECK_DEADLOCK FALSE
