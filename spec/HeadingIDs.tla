----------------------------- MODULE HeadingIDs -----------------------------
(***************************************************************************)
(* S8 -- automatic heading ids (property C15).                              *)
(* A document is a sequence of headings, each abstracted to the SLUG CLASS  *)
(* of its text.  The id table `used` lives for one document.                *)
(*   Heading(s): id = s (or "heading" when the slug is empty); if taken,    *)
(*               the first free s-1, s-2, ...                               *)
(*   NewDocument: a fresh table.                                            *)
(* Slug classes are closed under the suffix operation so that generated     *)
(* suffixes can collide with literal headings ("a", "a", "a-1").            *)
(* Mode "SharedTable" (negative control): the table survives NewDocument.   *)
(* Mode "Counter" (negative control): suffix taken from a per-slug counter  *)
(* without probing the table.                                               *)
(***************************************************************************)
EXTENDS Integers, Sequences, FiniteSets, TLC, Json
CONSTANTS Slugs, MaxHeadings, MaxDocs, Emit, Mode
VARIABLES used, out, hist, docNo, memo, cnt
vars == <<used, out, hist, docNo, memo, cnt>>

Base(s) == IF s = "" THEN "heading" ELSE s
Suf(b, i) == b \o "-" \o ToString(i)
FirstFree(b, U) == CHOOSE i \in 1..(MaxHeadings + 1) : Suf(b, i) \notin U /\ \A j \in 1..(i-1) : Suf(b, j) \in U
IdFor(s, U) ==
  LET b == Base(s) IN
  IF Mode = "Counter"
  THEN IF cnt[b] = 0 THEN b ELSE Suf(b, cnt[b])
  ELSE IF b \notin U THEN b ELSE Suf(b, FirstFree(b, U))

Init == /\ used = {} /\ out = <<>> /\ hist = <<>> /\ docNo = 1 /\ memo = {}
        /\ cnt = [b \in {Base(s) : s \in Slugs} |-> 0]

Heading(s) ==
  /\ Len(hist) < MaxHeadings
  /\ LET id == IdFor(s, used) IN
       /\ used' = used \cup {id}
       /\ out' = Append(out, id)
       /\ hist' = Append(hist, s)
       /\ cnt' = [cnt EXCEPT ![Base(s)] = @ + 1]
       /\ (Emit => PrintT(ToJson([slugs |-> hist', ids |-> out'])))
  /\ UNCHANGED <<docNo, memo>>

NewDocument ==
  /\ docNo < MaxDocs /\ hist # <<>>
  /\ docNo' = docNo + 1
  /\ memo' = memo \cup {<<hist, out>>}
  /\ used' = IF Mode = "SharedTable" THEN used ELSE {}
  /\ out' = <<>> /\ hist' = <<>>
  /\ cnt' = IF Mode = "SharedTable" THEN cnt ELSE [b \in DOMAIN cnt |-> 0]

Next == (\E s \in Slugs : Heading(s)) \/ NewDocument
Spec == Init /\ [][Next]_vars

NonEmpty == \A i \in 1..Len(out) : out[i] # ""
Distinct == \A i, j \in 1..Len(out) : i # j => out[i] # out[j]
\* the ids of a document depend only on that document
HistoryIndependent == \A m \in memo : \A k \in 1..Len(out) :
                         (Len(m[1]) >= Len(hist) /\ SubSeq(m[1], 1, Len(hist)) = hist) => m[2][k] = out[k]
=============================================================================
