------------------------------ MODULE AstTreeMC ------------------------------
EXTENDS AstTree
\* sort keys with ties: n1,n3 -> 2 ; n2,n4 -> 1 ; n5 -> 2
KeyDef == [n \in Node |-> IF n \in {"n1", "n3", "n5"} THEN 2 ELSE 1]
\* wide forests (trace validation of long sibling lists): 20 nodes, key of n_i = (7 i) mod 5
WideSeq == <<"n1", "n2", "n3", "n4", "n5", "n6", "n7", "n8", "n9", "n10", "n11", "n12", "n13", "n14", "n15", "n16", "n17", "n18", "n19", "n20">>
KeyWide == [n \in Node |-> ((CHOOSE i \in 1..20 : WideSeq[i] = n) * 7) % 5]
=============================================================================
