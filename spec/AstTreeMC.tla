------------------------------ MODULE AstTreeMC ------------------------------
EXTENDS AstTree
\* sort keys with ties: n1,n3 -> 2 ; n2,n4 -> 1 ; n5 -> 2
KeyDef == [n \in Node |-> IF n \in {"n1", "n3", "n5"} THEN 2 ELSE 1]
=============================================================================
