------------------------------ MODULE InlineGen ------------------------------
(***************************************************************************)
(* S5 as a GENERATOR with an oracle by construction (property C02).         *)
(* Writes the inline content of one paragraph atom by atom, left to right,  *)
(* together with the HTML CommonMark 0.31.2 prescribes for it.  Guards keep  *)
(* every delimiter run unambiguous by construction (section 6.2: flanking   *)
(* is decided by the characters the generator itself puts next to a run),   *)
(* keep block starts away from line beginnings (4.x), and keep back-tick     *)
(* strings apart (6.1).                                                     *)
(*   cur    the line being written          lines  finished lines           *)
(*   toks   expected HTML of the paragraph body                             *)
(*   lastc  class of the last character written:                            *)
(*          "bol" beginning of a line, "sp" space, "w" word character,      *)
(*          "p" punctuation, "op:c" an emphasis opener of character c,      *)
(*          "cl:c" a closer, "tick" a back-tick, "br" bracket/paren end     *)
(*   open   stack of open emphasis constructs <<tag, char>>                 *)
(*   used   labels referenced (the harness appends their definitions)       *)
(* Finish prints [lines, toks, used].                                       *)
(***************************************************************************)
EXTENDS Integers, Sequences, FiniteSets, TLC, Json
CONSTANTS Budget, Sim, Emit,
          Small,     \* TRUE: every table cut to its first few entries (exhaustive runs)
          Atoms      \* subset of atom kinds enabled in this run
VARIABLES cur, lines, toks, lastc, open, used, budget, fin, inlink
vars == <<cur, lines, toks, lastc, open, used, budget, fin, inlink>>

Pick(X) == IF Sim THEN {RandomElement(X)} ELSE X
On(a) == a \in Atoms
Can == ~fin /\ budget > 0
Emitted(s, ts, lc) == /\ cur' = cur \o s /\ toks' = toks \o ts /\ lastc' = lc
                      /\ budget' = budget - 1 /\ UNCHANGED <<lines, fin>>
AfterCloser == lastc \in {"cl:*", "cl:_"}   \* ("clw" = closer of an intraword *-emphasis: a word may follow)
AfterOpener == lastc \in {"op:*", "op:_"}
\* characters after which ordinary content may follow directly
Plain == lastc \in {"bol", "sp", "w", "p", "br", "clw"} \/ AfterOpener
\* after a closing delimiter run only white space, punctuation or the end may follow
\* (6.2: the run stays right-flanking and, for '_', is not intraword)

Word == /\ Can /\ On("word") /\ (Plain \/ lastc = "tick") /\ ~AfterCloser
        /\ \E w \in Pick({"foo", "bar", "x1"}) : Emitted(w, <<w>>, "w")
        /\ UNCHANGED <<open, used, inlink>>

Space == /\ Can /\ On("word") /\ lastc \notin {"bol", "sp"} /\ ~AfterOpener
         /\ Emitted(" ", <<" ">>, "sp") /\ UNCHANGED <<open, used, inlink>>

\* 2.4 backslash escapes, 2.5 entity and numeric character references: literal characters
Escs == {<<"\\*", "*">>, <<"\\_", "_">>, <<"\\`", "`">>, <<"\\[", "[">>, <<"\\]", "]">>, <<"\\<", "&lt;">>, <<"\\&", "&amp;">>,
         <<"\\\\", "\\">>, <<"\\#", "#">>, <<"\\!", "!">>, <<"\\\"", "&quot;">>, <<"\\>", "&gt;">>,
         <<"&ast;", "*">>, <<"&#42;", "*">>, <<"&#x5F;", "_">>, <<"&amp;", "&amp;">>, <<"&lt;", "&lt;">>, <<"&quot;", "&quot;">>,
         <<"&#96;", "`">>, <<"&lbrack;", "[">>, <<"&#35;", "#">>, <<"&copy;", "@@A9@@">>, <<"&#x22;", "&quot;">>, <<"&nosuch;", "&amp;nosuch;">>,
         <<"\\a", "\\a">>, <<"&#0;", "@@FFFD@@">>}
Esc == /\ Can /\ On("esc") /\ (Plain \/ AfterCloser \/ lastc = "tick")
       /\ \E e \in Pick(Escs) : Emitted(e[1], <<e[2]>>, IF e[1] = "\\a" THEN "w" ELSE "p")
       /\ UNCHANGED <<open, used, inlink>>

\* 6.2 emphasis: an opener after white space / punctuation / line start and before content,
\* a closer after content and before white space / punctuation / the end
OpenEm == /\ Can /\ On("emph") /\ Len(open) < 3
          /\ \E c \in Pick({"*", "_"}), strong \in Pick(BOOLEAN) :
               /\ (lastc \in {"bol", "sp", "p"} \/ (AfterOpener /\ lastc # "op:" \o c))
               /\ \A i \in 1..Len(open) : open[i] # <<IF strong THEN "strong" ELSE "em", c>>  \* no em in em of the same spelling
               /\ open' = Append(open, <<IF strong THEN "strong" ELSE "em", c>>)
               /\ Emitted(IF strong THEN c \o c ELSE c, <<IF strong THEN "<strong>" ELSE "<em>">>, "op:" \o c)
          /\ UNCHANGED <<used, inlink>>
CloseEm == /\ ~fin /\ Len(open) > 0
           /\ LET o == open[Len(open)] IN
              /\ (lastc \in {"w", "p", "br", "tick"} \/ (AfterCloser /\ lastc # "cl:" \o o[2]))
              /\ open' = SubSeq(open, 1, Len(open) - 1)
              /\ cur' = cur \o (IF o[1] = "strong" THEN o[2] \o o[2] ELSE o[2])
              /\ toks' = Append(toks, IF o[1] = "strong" THEN "</strong>" ELSE "</em>")
              /\ lastc' = "cl:" \o o[2]
           /\ UNCHANGED <<lines, used, budget, fin, inlink>>

\* 6.1 code spans
Codes == {<<"`a`", "a">>, <<"`a b`", "a b">>, <<"`*a*`", "*a*">>, <<"``a`b``", "a`b">>, <<"` a `", "a">>, <<"`  `", "  ">>,
          <<"`` ` ``", "`">>, <<"`a  b`", "a  b">>, <<"`<b>&amp;`", "&lt;b&gt;&amp;amp;">>, <<"`\\`", "\\">>, <<"` `` `", "``">>}
Code == /\ Can /\ On("code") /\ (Plain \/ AfterCloser) /\ lastc # "tick"
        /\ \E cd \in Pick(Codes) : Emitted(cd[1], <<"<code>" \o cd[2] \o "</code>">>, "tick")
        /\ UNCHANGED <<open, used, inlink>>

\* 6.3 links (inline), 6.4 images; link text is a fixed small inline
Texts == {<<"link", "link", "link">>, <<"*em* t", "<em>em</em> t", "em t">>, <<"`c]d`", "<code>c]d</code>", "c]d">>, <<"a \\] b", "a ] b", "a ] b">>,
          <<"a [b] c", "a [b] c", "a [b] c">>, <<"![i](/s)", "<img src=\"/s\" alt=\"i\" />", "i">>}
Dests == {<<"/url", "/url">>, <<"</my url>", "/my%20url">>, <<"/a(b)c", "/a(b)c">>, <<"/a\\)b", "/a)b">>, <<"", "">>, <<"<>", "">>,
          <<"/u&auml;&amp;", "/u%C3%A4&amp;">>, <<"/q?a=b&c", "/q?a=b&amp;c">>, <<"/x\\*y", "/x*y">>, <<"<a\\>b>", "a%3Eb">>, <<"#frag", "#frag">>, <<"/%20%zz", "/%20%25zz">>}
Titles == {<<"", "">>, <<" \"ti tle\"", " title=\"ti tle\"">>, <<" 't\"q'", " title=\"t&quot;q\"">>, <<" (par en)", " title=\"par en\"">>,
           <<"  \"a&amp;b \\\" c\"", " title=\"a&amp;b &quot; c\"">>, <<" \"&copy;\\*\"", " title=\"@@A9@@*\"">>}
Link == /\ Can /\ On("link") /\ ~inlink /\ (Plain \/ AfterCloser) /\ lastc # "br"
        /\ \E t \in Pick(Texts), d \in Pick(Dests), ti \in Pick(Titles), img \in Pick(BOOLEAN) :
             /\ (d[1] = "" => ti[1] = "")      \* "[a]( "t")" would read the title as destination? keep apart
             /\ Emitted((IF img THEN "![" ELSE "[") \o t[1] \o "](" \o d[1] \o ti[1] \o ")",
                        IF img THEN <<"<img src=\"" \o d[2] \o "\" alt=\"" \o t[3] \o "\"" \o ti[2] \o " />">>
                        ELSE <<"<a href=\"" \o d[2] \o "\"" \o ti[2] \o ">" \o t[2] \o "</a>">>, "br")
        /\ UNCHANGED <<open, used, inlink>>

\* 6.3 reference links: label variants that must match the definition of "foo bar" / "baz"
\* (4.7: case fold, collapse internal white space incl. tab and newline)
Labels == {<<"foo bar", "fb">>, <<"Foo Bar", "fb">>, <<"FOO   BAR", "fb">>, <<"foo\tbar", "fb">>, <<" foo bar ", "fb">>, <<"baz", "bz">>, <<"BaZ", "bz">>, <<"@@C4@@@@D6@@", "ao">>, <<"@@E4@@@@F6@@", "ao">>}
RefUrl(k) == CASE k = "fb" -> <<"/fb", " title=\"T fb\"">> [] k = "bz" -> <<"/bz%20x", "">> [] OTHER -> <<"/ao", "">>
Ref == /\ Can /\ On("ref") /\ ~inlink /\ (Plain \/ AfterCloser) /\ lastc # "br"
       /\ \E l \in Pick(Labels), form \in Pick({"full", "collapsed", "shortcut"}), img \in Pick(BOOLEAN) :
            LET u == RefUrl(l[2])
                txt == IF form = "full" THEN "te xt" ELSE l[1]
                src == (IF img THEN "![" ELSE "[") \o txt \o "]" \o
                       (CASE form = "full" -> "[" \o l[1] \o "]" [] form = "collapsed" -> "[]" [] OTHER -> "")
            IN /\ used' = used \cup {l[2]}
               /\ Emitted(src, IF img THEN <<"<img src=\"" \o u[1] \o "\" alt=\"" \o txt \o "\"" \o u[2] \o " />">>
                               ELSE <<"<a href=\"" \o u[1] \o "\"" \o u[2] \o ">" \o txt \o "</a>">>, "br")
       /\ UNCHANGED <<open, inlink>>

\* 6.5 autolinks, 6.6 raw HTML (never at the beginning of a line: 4.6)
Autos == {<<"<http://a.b/c?d=e&f>", "<a href=\"http://a.b/c?d=e&amp;f\">http://a.b/c?d=e&amp;f</a>">>,
          <<"<me@x.yz>", "<a href=\"mailto:me@x.yz\">me@x.yz</a>">>,
          <<"<MAILTO:a+b@c.de>", "<a href=\"MAILTO:a+b@c.de\">MAILTO:a+b@c.de</a>">>,
          <<"<https://a.b/[\\>", "<a href=\"https://a.b/%5B%5C\">https://a.b/[\\</a>">>}
Auto == /\ Can /\ On("auto") /\ ~inlink /\ (Plain \/ AfterCloser)
        /\ \E a \in Pick(Autos) : Emitted(a[1], <<a[2]>>, "p")
        /\ UNCHANGED <<open, used, inlink>>
Raws == {"<b>", "</b>", "<i class=\"x\" data-y='z'>", "<br/>", "<!-- c -->", "<?p x ?>", "<![CDATA[a]]>", "<!X y>"}
Raw == /\ Can /\ On("raw") /\ (Plain \/ AfterCloser) /\ lastc # "bol"
       /\ \E r \in Pick(Raws) : Emitted(r, <<r>>, "p")
       /\ UNCHANGED <<open, used, inlink>>


\* 6.2 intraword emphasis: '*' opens and closes inside a word, '_' does not
Intra == /\ Can /\ On("emph") /\ lastc = "w" /\ open = <<>>
         /\ \E k \in Pick({"*", "**", "_", "__"}) :
              Emitted(k \o "bar" \o k,
                      CASE k = "*" -> <<"<em>bar</em>">> [] k = "**" -> <<"<strong>bar</strong>">> [] OTHER -> <<k \o "bar" \o k>>,
                      IF k \in {"*", "**"} THEN "clw" ELSE "cl:_")   \* literal underscores: nothing that could join their run may follow
         /\ UNCHANGED <<open, used, inlink>>

\* 6.3: links may not contain other links - the inner one wins and the outer brackets are text
NestedLink == /\ Can /\ On("link") /\ (Plain \/ AfterCloser) /\ lastc # "br"
              /\ Emitted("[a [in](/x) b](/y)", <<"[a <a href=\"/x\">in</a> b](/y)">>, "br")
              /\ UNCHANGED <<open, used, inlink>>

\* constructs that continue across a line ending: code span (the line ending becomes a space),
\* raw HTML tag and link title (the line ending stays)
Spans == {<<"`a", "b`", "<code>a b</code>", "tick">>, <<"``c ", " d``", "<code>c   d</code>", "tick">>,
          <<"<b a='x", "y'>", "<b a='x\ny'>", "p">>, <<"[l](/u 'ti", "tle')", "<a href=\"/u\" title=\"ti\ntle\">l</a>", "br">>,
          <<"[l](/u", "\"t\")", "<a href=\"/u\" title=\"t\">l</a>", "br">>, <<"[te", "xt](/u)", "<a href=\"/u\">te\nxt</a>", "br">>}
Span == /\ Can /\ On("break") /\ (Plain \/ AfterCloser) /\ lastc \notin {"bol", "tick", "br"} /\ Len(lines) < 2
        /\ \E sp \in Pick(Spans) :
             /\ lines' = Append(lines, cur \o sp[1])
             /\ cur' = sp[2]
             /\ toks' = Append(toks, sp[3])
             /\ lastc' = sp[4] /\ budget' = budget - 1
        /\ UNCHANGED <<open, used, fin, inlink>>

\* 6.7 hard line breaks, 6.8 soft line breaks
Break == /\ Can /\ On("break") /\ lastc \notin {"bol", "sp"} /\ ~AfterOpener /\ Len(lines) < 2
         \* "bs..." kinds: a backslash that is followed by a space is a literal backslash (2.4); an
         \* escaped backslash before the line ending is a literal backslash and no hard break (6.7)
         /\ \E k \in Pick({"soft", "soft1", "hard2", "hard3", "hardbs", "bshard2", "bssoft1", "bsbs", "bsbshard"}) :
              /\ lines' = Append(lines, cur \o (CASE k = "soft" -> "" [] k = "soft1" -> " " [] k = "hard2" -> "  " [] k = "hard3" -> "   "
                                                   [] k = "bshard2" -> "\\  " [] k = "bssoft1" -> "\\ " [] k = "bsbs" -> "\\\\" [] k = "bsbshard" -> "\\\\\\" [] OTHER -> "\\"))
              /\ cur' = ""
              /\ toks' = toks \o (CASE k \in {"soft", "soft1"} -> <<"\n">>
                                     [] k = "bshard2" -> <<"\\", "<br />", "\n">>
                                     [] k \in {"bssoft1", "bsbs"} -> <<"\\", "\n">>
                                     [] k = "bsbshard" -> <<"\\", "<br />", "\n">>
                                     [] OTHER -> <<"<br />", "\n">>)
              /\ lastc' = "bol" /\ budget' = budget - 1
         /\ UNCHANGED <<open, used, fin, inlink>>

Finish == /\ ~fin /\ open = <<>> /\ lastc \notin {"bol", "sp"} /\ cur # ""
          /\ fin' = TRUE /\ lines' = Append(lines, cur)
          /\ (Emit => PrintT(ToJson([lines |-> lines', toks |-> toks, used |-> used])))
          /\ UNCHANGED <<cur, toks, lastc, open, used, budget, inlink>>

Init == /\ cur = "" /\ lines = <<>> /\ toks = <<>> /\ lastc = "bol" /\ open = <<>> /\ used = {}
        /\ budget = Budget /\ fin = FALSE /\ inlink = FALSE
Next == Word \/ Space \/ Esc \/ OpenEm \/ CloseEm \/ Intra \/ Code \/ Link \/ NestedLink \/ Ref \/ Auto \/ Raw \/ Span \/ Break \/ Finish
Spec == Init /\ [][Next]_vars
TypeOK == Len(lines) <= 3 /\ Len(open) <= 3
=============================================================================
