CONSTANTS
  Slugs = {"a", "a-1", "a-1-1", "a-2", "heading", "heading-1", ""}
  MaxHeadings = 2
  MaxDocs = 2
  Emit = FALSE
  Mode = "SharedTable"
INIT Init
NEXT Next
INVARIANTS NonEmpty Distinct HistoryIndependent
CHECK_DEADLOCK FALSE
