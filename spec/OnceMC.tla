------------------------------- MODULE OnceMC -------------------------------
EXTENDS Once
\* API assignments used by the configurations (G is {"g1","g2"} or {"g1","g2","g3"})
ApiConvert == [g \in G |-> "convert"]
ApiParse   == [g \in G |-> "parse"]
ApiRender  == [g \in G |-> "render"]
ApiMixed   == [g \in G |-> CASE g = "g1" -> "convert" [] g = "g2" -> "parse" [] g = "g3" -> "render" [] OTHER -> "convert"]
EntNone == {}
EntR1   == {<<"R", 1>>}
=============================================================================
