CONSTANTS
  G = {"g1","g2"}
  Api <- ApiConvert
  W = 1
  EntStart = "idle"
  EntAt = {}
  EntAny = TRUE
  Mode = "OnceDisabled"
  Emit = FALSE
INIT Init
NEXT Next
INVARIANT InitOnce
CHECK_DEADLOCK FALSE
