----------------------------- MODULE TraceTotal -----------------------------
(***************************************************************************)
(* API-level acceptor for C01 (file calls.ndjson).  Every Convert / Parse + *)
(* Render call of a run is abstracted to (configuration, api, outcome); the *)
(* harness sends each distinct abstract event once with its multiplicity.   *)
(* The only behaviour the statement allows with a non-failing destination   *)
(* is: the call returns, without panic, with a nil error, in time.          *)
(***************************************************************************)
EXTENDS Integers, Sequences, TLC, Json, IOUtils
Calls == ndJsonDeserialize("calls.ndjson")
VARIABLES l, bad, total
Outcomes == {"ok", "error", "panic", "timeout"}
PInit == l = 1 /\ bad = <<>> /\ total = 0
PNext == /\ l <= Len(Calls) /\ l' = l + 1
         /\ total' = total + Calls[l].n
         /\ bad' = IF Calls[l].outcome = "ok" /\ Calls[l].api \in {"convert", "parse+render"}
                   THEN bad ELSE Append(bad, [l |-> l, why |-> Calls[l].outcome])
Report == (l = Len(Calls) + 1) => PrintT(ToJson([done |-> TRUE, consumed |-> l - 1, bad |-> bad, total |-> total]))
=============================================================================
