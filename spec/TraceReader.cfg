CONSTANTS
  Sigma <- SigmaMove
  MaxLen = 0
  Kind = "source"
  MaxAdv = 0
  Pads <- Pads02
  Slots = 2
  HidOn = TRUE
  Emit = FALSE
  Mode = "spec"
INIT TInit
NEXT TNext
INVARIANT Report
CHECK_DEADLOCK FALSE
