CONSTANTS
  Sigma <- SigmaMove
  MaxLen = 4
  Kind = "source"
  MaxAdv = 4
  Pads <- Pads012
  Slots = 1
  HidOn = FALSE
  Emit = TRUE
  Mode = "spec"
INIT Init
NEXT Next
INVARIANTS InBounds
CHECK_DEADLOCK FALSE
