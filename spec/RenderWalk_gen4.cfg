CONSTANTS
  N = 4
  Emit = TRUE
INIT Init
NEXT Next
INVARIANT Covered
CHECK_DEADLOCK FALSE
