-------------------------------- MODULE Meta --------------------------------
(***************************************************************************)
(* Relations between runs (properties C06, C08, C09, C10 whole-output part, *)
(* C11, C12).  An output is abstracted to the sequence of its LINES, each   *)
(* line to a token; the harness renames tokens injectively per record       *)
(* (first occurrence order), which preserves every equality the laws use,   *)
(* so that records of the same shape are sent once.  File laws.ndjson.      *)
(* The laws are the statements' equations, evaluated here, not pre-computed *)
(* by the harness.                                                          *)
(***************************************************************************)
EXTENDS Integers, Sequences, TLC, Json, IOUtils

\* C08: prefixing every line with "> " wraps the same content
QuoteLaw(d, q, open, close) == q = <<open>> \o d \o <<close>>
\* C09: closed blocks render independently
ConcatLaw(a, h, b, ab) == ab = a \o h \o b
\* C09 (second half), C06, C11: same output
SameLaw(x, y) == x = y
\* C06: every call in a history on document d yields the same bytes
RECURSIVE AllSame(_, _)
AllSame(outs, i) == i > Len(outs) \/ (outs[i] = outs[1] /\ AllSame(outs, i + 1))
\* C12: frame condition on the source
FrameLaw(before, after, faulted) == ~faulted /\ before = after

Laws == ndJsonDeserialize("laws.ndjson")
VARIABLES l, bad
Holds(e) ==
  CASE e.law = "quote"  -> QuoteLaw(e.d, e.q, e.open, e.close)
    [] e.law = "concat" -> ConcatLaw(e.a, e.h, e.b, e.ab)
    [] e.law = "same"   -> SameLaw(e.x, e.y)
    [] e.law = "allsame" -> AllSame(e.outs, 1)
    [] e.law = "frame"  -> FrameLaw(e.before, e.after, e.faulted)
    [] OTHER -> FALSE
PInit == l = 1 /\ bad = <<>>
PNext == /\ l <= Len(Laws) /\ l' = l + 1
         /\ bad' = IF Holds(Laws[l]) THEN bad ELSE Append(bad, [l |-> l, why |-> Laws[l].law])
Report == (l = Len(Laws) + 1) => PrintT(ToJson([done |-> TRUE, consumed |-> l - 1, bad |-> bad]))
=============================================================================
