CONSTANTS
  G = {"g1","g2","g3"}
  Api <- ApiConvert
  W = 1
  EntStart = "idle"
  EntAt = {}
  EntAny = TRUE
  Mode = "spec"
  Emit = FALSE
INIT Init
NEXT Next
INVARIANTS ReadsBuilt InitOnce OwnerExclusive ResultSequential
PROPERTIES NoWriteAfterDone
CHECK_DEADLOCK FALSE
