--------------------------------- MODULE Walk ---------------------------------
(***************************************************************************)
(* ast.Walk over the forests of AstTree (C13, second half).                  *)
(*                                                                         *)
(* A behaviour first builds a forest with AppendChild steps (every ordered   *)
(* forest over Node is reachable that way), then fixes a root and a          *)
(* *script* resp[n].enter / resp[n].leave \in Status telling what the        *)
(* visitor answers, and then walks.  The walk is specified twice:            *)
(*   - recursively (Visits): the depth-first traversal the property states:  *)
(*     every node entered and left once, children skipped after "Skip" on    *)
(*     enter, immediate stop on "Stop" or "Error" (nothing more is visited,  *)
(*     not even the leave of the enclosing nodes), error returned;           *)
(*   - as an explicit-stack state machine (the Step actions) whose final        *)
(*     `visits` must equal the recursive definition (invariant StepEqualsRec)*)
(*     and which terminates (property Terminates).                           *)
(* With Atomic = TRUE the walk is one action (generator use: one JSON value  *)
(* per (forest, root, script) with the expected visit sequence).             *)
(***************************************************************************)
EXTENDS Naturals, Sequences, FiniteSets, TLC, Json

CONSTANTS Node, NIL, MaxSpecial, Atomic, Emit

Status  == {"Continue", "Skip", "Stop", "Error"}
Special == {"Skip", "Stop", "Error"}
Phase   == {"enter", "leave"}

VARIABLES kids, phase, root, resp, stack, visits, err

vars == <<kids, phase, root, resp, stack, visits, err>>

Range(s) == {s[i] : i \in 1..Len(s)}
IsRoot(k, c) == \A p \in Node : c \notin Range(k[p])
RECURSIVE Desc(_, _)
Desc(k, n) == {n} \cup UNION {Desc(k, k[n][i]) : i \in 1..Len(k[n])}

\* all scripts with at most MaxSpecial answers other than "Continue"
Slots == Node \X Phase
Scripts ==
  UNION { { [n \in Node |-> [enter |-> IF <<n, "enter">> \in S THEN g[<<n, "enter">>] ELSE "Continue",
                              leave |-> IF <<n, "leave">> \in S THEN g[<<n, "leave">>] ELSE "Continue"]]
            : g \in [S -> Special] }
          : S \in {T \in SUBSET Slots : Cardinality(T) <= MaxSpecial} }

\* ---- recursive meaning ----
Res(v, s, e) == [vis |-> v, stop |-> s, err |-> e]
RECURSIVE V(_, _, _), VC(_, _, _, _)
V(k, rs, n) ==
  LET r == rs[n].enter IN
  IF r \in {"Stop", "Error"} THEN Res(<<[n |-> n, e |-> TRUE]>>, TRUE, r = "Error")
  ELSE LET body == IF r = "Skip" THEN Res(<<>>, FALSE, FALSE) ELSE VC(k, rs, k[n], 1) IN
       IF body.stop THEN Res(<<[n |-> n, e |-> TRUE]>> \o body.vis, TRUE, body.err)
       ELSE LET rl == rs[n].leave IN
            Res(<<[n |-> n, e |-> TRUE]>> \o body.vis \o <<[n |-> n, e |-> FALSE]>>,
                rl \in {"Stop", "Error"}, rl = "Error")
VC(k, rs, s, i) ==
  IF i > Len(s) THEN Res(<<>>, FALSE, FALSE)
  ELSE LET a == V(k, rs, s[i]) IN
       IF a.stop THEN a
       ELSE LET b == VC(k, rs, s, i + 1) IN Res(a.vis \o b.vis, b.stop, b.err)
Visits(k, rs, n) == V(k, rs, n)

Out(x) == IF Emit THEN PrintT(ToJson(x)) ELSE TRUE

Init == /\ kids = [n \in Node |-> <<>>]
        /\ phase = "build" /\ root = NIL /\ resp = <<>> /\ stack = <<>> /\ visits = <<>> /\ err = FALSE

\* ---- phase 1: build any forest ----
Build(p, c) ==
  /\ phase = "build"
  /\ c # p /\ IsRoot(kids, c) /\ p \notin Desc(kids, c)
  /\ kids' = [kids EXCEPT ![p] = Append(@, c)]
  /\ UNCHANGED <<phase, root, resp, stack, visits, err>>

\* ---- phase 2: choose root and script ----
Start(r, rs) ==
  /\ phase = "build"
  /\ root' = r /\ resp' = rs
  /\ IF Atomic
     THEN LET v == Visits(kids, rs, r) IN
          /\ phase' = "done" /\ visits' = v.vis /\ err' = v.err /\ stack' = <<>>
          /\ Out([kids |-> kids, root |-> r, resp |-> rs, visits |-> v.vis, err |-> v.err])
     ELSE /\ phase' = "walk" /\ visits' = <<>> /\ err' = FALSE
          /\ stack' = <<[n |-> r, i |-> 0]>>      \* i = 0: not yet entered
  /\ UNCHANGED kids

\* ---- phase 3: explicit-stack walk, one visitor call per step ----
Top == stack[Len(stack)]
Pop == SubSeq(stack, 1, Len(stack) - 1)
SetTop(f) == [stack EXCEPT ![Len(stack)] = f]

StepEnter ==
  /\ phase = "walk" /\ stack # <<>> /\ Top.i = 0
  /\ LET n == Top.n  r == resp[n].enter IN
     /\ visits' = Append(visits, [n |-> n, e |-> TRUE])
     /\ IF r \in {"Stop", "Error"}
        THEN phase' = "done" /\ err' = (r = "Error") /\ stack' = <<>>
        ELSE /\ phase' = phase /\ err' = err
             /\ stack' = SetTop([n |-> n, i |-> IF r = "Skip" THEN Len(kids[n]) + 1 ELSE 1])
  /\ UNCHANGED <<kids, root, resp>>

StepDescend ==
  /\ phase = "walk" /\ stack # <<>> /\ Top.i >= 1 /\ Top.i <= Len(kids[Top.n])
  /\ stack' = Append(SetTop([n |-> Top.n, i |-> Top.i + 1]), [n |-> kids[Top.n][Top.i], i |-> 0])
  /\ UNCHANGED <<kids, phase, root, resp, visits, err>>

StepLeave ==
  /\ phase = "walk" /\ stack # <<>> /\ Top.i > Len(kids[Top.n])
  /\ LET n == Top.n  r == resp[n].leave IN
     /\ visits' = Append(visits, [n |-> n, e |-> FALSE])
     /\ IF r \in {"Stop", "Error"}
        THEN phase' = "done" /\ err' = (r = "Error") /\ stack' = <<>>
        ELSE /\ err' = err /\ stack' = Pop
             /\ phase' = IF Len(stack) = 1 THEN "done" ELSE "walk"
  /\ UNCHANGED <<kids, root, resp>>

Next ==
  \/ \E p, c \in Node : Build(p, c)
  \/ \E r \in Node, rs \in Scripts : Start(r, rs)
  \/ StepEnter \/ StepDescend \/ StepLeave

Spec == Init /\ [][Next]_vars /\ WF_vars(StepEnter \/ StepDescend \/ StepLeave)

\* ---- properties of the model ----
StepEqualsRec ==
  (phase = "done") => LET v == Visits(kids, resp, root) IN visits = v.vis /\ err = v.err

\* every node of the walked subtree is entered at most once and left at most once, a left
\* node was entered before, and without special answers all are entered and left exactly once
Count(n, e) == Cardinality({i \in 1..Len(visits) : visits[i] = [n |-> n, e |-> e]})
OncEach ==
  (phase = "done") =>
     /\ \A n \in Node : Count(n, TRUE) <= 1 /\ Count(n, FALSE) <= Count(n, TRUE)
     /\ \A n \in Node : Count(n, TRUE) = 1 => n \in Desc(kids, root)
     /\ (\A n \in Node : resp[n].enter = "Continue" /\ resp[n].leave \in {"Continue", "Skip"})
           => \A n \in Desc(kids, root) : Count(n, TRUE) = 1 /\ Count(n, FALSE) = 1
     /\ err = (\E i \in 1..Len(visits) : LET v == visits[i] IN
                   (IF v.e THEN resp[v.n].enter ELSE resp[v.n].leave) = "Error")
Terminates == (phase = "walk") ~> (phase = "done")
=============================================================================
