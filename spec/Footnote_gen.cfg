CONSTANTS
  Labels = {"a", "b"}
  Places = {"plain", "emph", "linktext", "imagealt", "heading", "tablecell", "listitem", "quote", "strike"}
  MaxItems = 3
  Emit = TRUE
  Mode = "Intended"
INIT Init
NEXT Next
INVARIANTS BacklinksMatchRefs EveryItemReferenced RefsResolve
CHECK_DEADLOCK FALSE
