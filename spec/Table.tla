------------------------------- MODULE Table -------------------------------
(***************************************************************************)
(* S10 -- GFM table recognition and row shaping (property C17).             *)
(* A table candidate is a header row with h cells, a delimiter row with d   *)
(* columns (each with an alignment), and body rows with arbitrary cell      *)
(* counts.  The model fixes what must come out:                             *)
(*   IsTable  == h = d  (a header that does not match the delimiter row     *)
(*               does not become a table at all);                           *)
(*   Shape    == one header row of d cells, every body row padded with      *)
(*               empty cells / truncated to exactly d cells;                *)
(*   each cell written in the source carries its column's alignment.        *)
(* Spelling choices (leading / trailing pipe, escaped pipes, pipes in code  *)
(* spans, lone-pipe rows, doubled trailing pipes, container, preceding      *)
(* paragraph text) do not change the shape: they are emitted as parameters  *)
(* and made concrete by the harness.                                        *)
(* Mode "PadHeader" (negative control = the shipped defect): a short header *)
(* is padded and the candidate accepted.                                    *)
(***************************************************************************)
EXTENDS Integers, Sequences, FiniteSets, TLC, Json
CONSTANTS MaxCols, MaxRows, MaxCells, Aligns, Edges, CellKinds, Containers, Emit, Mode
VARIABLES h, aligns, rows, edge, cellkind, container, pretext, done
vars == <<h, aligns, rows, edge, cellkind, container, pretext, done>>

D == Len(aligns)
IsTable == IF Mode = "PadHeader" THEN h <= D ELSE h = D
\* number of cells each rendered body row must have, and which of them were written
RowShape(n) == [cells |-> D, written |-> IF n < D THEN n ELSE D]
Shape == [header |-> D, body |-> [i \in 1..Len(rows) |-> RowShape(rows[i])]]

Init == /\ h \in 0..MaxCols
        /\ aligns \in UNION {[1..n -> Aligns] : n \in 1..MaxCols}
        /\ rows \in UNION {[1..n -> 0..MaxCells] : n \in 0..MaxRows}
        /\ edge \in Edges /\ cellkind \in CellKinds /\ container \in Containers
        /\ pretext \in BOOLEAN
        /\ done = FALSE
Finish == /\ ~done /\ done' = TRUE
          /\ UNCHANGED <<h, aligns, rows, edge, cellkind, container, pretext>>
          /\ (Emit => PrintT(ToJson([h |-> h, aligns |-> aligns, rows |-> rows, edge |-> edge, cellkind |-> cellkind,
                                     container |-> container, pretext |-> pretext,
                                     istable |-> (h = D /\ h > 0), header |-> D,
                                     body |-> [i \in 1..Len(rows) |-> D]])))
Next == Finish
\* every table the model accepts is rectangular with a header that matches the delimiter row
Rectangular == IsTable => /\ h = D
                          /\ \A i \in 1..Len(rows) : Shape.body[i].cells = Shape.header
=============================================================================
