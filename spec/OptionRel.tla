----------------------------- MODULE OptionRel -----------------------------
(***************************************************************************)
(* Product-trace acceptor for C10 (file segments.ndjson).  One record per   *)
(* distinct shape of: the SAME node event (kind, entering) of the SAME      *)
(* parsed document rendered under option sets A and B = A + one option.     *)
(*   opt   "xhtml" | "hardwraps" | "unsafe"   (the option B adds)           *)
(*   kind  node kind; soft = the node is a Text with its soft-break flag    *)
(*   a, b  the bytes written during that event, cut into tokens             *)
(*         <<k, tag, attrs, text>> with k in open|close|void|text|comment|  *)
(*         bad, attrs = sequence of <<name, value>>, text/values renamed    *)
(*         injectively per record                                           *)
(*   same  the bytes are identical                                          *)
(*   rawok (opt "unsafe", raw HTML nodes) the B side equals the source      *)
(*         bytes of the node's own segments                                 *)
(*   urls  decoded href/src code points on the B side (for "unsafe")        *)
(*   ph    token value that stands for the placeholder comment body         *)
(*   nl    token value that stands for a text consisting of one newline     *)
(*   empty token value of the empty attribute value                         *)
(* Allowed encodes the three rewrites exactly: XHTML and HardWraps are       *)
(* functions of the A side (the rewrite must happen and nothing else may);  *)
(* Unsafe permits differences only in raw HTML and dangerous URLs.          *)
(***************************************************************************)
EXTENDS Integers, Sequences, FiniteSets, TLC, Json, IOUtils
VoidTags == {"br", "hr", "img", "input"}

\* ---- WHATWG front end (same as HtmlOut.tla) ----
RECURSIVE DropLead(_)
DropLead(s) == IF s # <<>> /\ Head(s) <= 32 THEN DropLead(Tail(s)) ELSE s
NoTabNl(s) == SelectSeq(s, LAMBDA c : c # 9 /\ c # 10 /\ c # 13)
Lower(c) == IF c >= 65 /\ c <= 90 THEN c + 32 ELSE c
Norm(s) == LET t == NoTabNl(DropLead(s)) IN [i \in 1..Len(t) |-> Lower(t[i])]
HasPre(s, p) == Len(s) >= Len(p) /\ SubSeq(s, 1, Len(p)) = p
JS   == <<106, 97, 118, 97, 115, 99, 114, 105, 112, 116, 58>>
VB   == <<118, 98, 115, 99, 114, 105, 112, 116, 58>>
FILE == <<102, 105, 108, 101, 58>>
DATA == <<100, 97, 116, 97, 58>>
DIMG == <<100, 97, 116, 97, 58, 105, 109, 97, 103, 101, 47>>
OkImg == {<<112, 110, 103, 59>>, <<103, 105, 102, 59>>, <<106, 112, 101, 103, 59>>, <<119, 101, 98, 112, 59>>, <<115, 118, 103, 43, 120, 109, 108, 59>>}
Dangerous(u) == LET n == Norm(u) IN
  \/ HasPre(n, JS) \/ HasPre(n, VB) \/ HasPre(n, FILE)
  \/ (HasPre(n, DATA) /\ ~(HasPre(n, DIMG) /\ \E p \in OkImg : HasPre(SubSeq(n, 12, Len(n)), p)))

\* ---- XHTML: identical except that void elements are written with " />" ----
\* (without XHTML a void element is written with '>': a slash on the A side is itself a breach - an
\* option that leaked from another instance - even when both sides are then identical)
XhtmlTok(x, y) == IF x[1] \in {"open", "void"} /\ x[2] \in VoidTags
                  THEN x[1] = "open" /\ y[1] = "void" /\ y[2] = x[2] /\ y[3] = x[3]      \* must gain the slash
                  ELSE x = y
XhtmlRel(a, b) == Len(a) = Len(b) /\ \A i \in 1..Len(a) : XhtmlTok(a[i], b[i])

\* ---- HardWraps: identical except a <br> before the newline of a soft line break ----
IsBr(t) == t[1] \in {"open", "void"} /\ t[2] = "br"
\* (the harness cuts every newline of a text into a token of its own)
HardRel(e) ==
  IF e.kind = "Text" /\ e.soft
  THEN \* must gain a <br> before the newline of the soft break
       /\ Len(e.b) = Len(e.a) + 1 /\ Len(e.a) >= 1
       /\ LET n == Len(e.a) IN
            /\ e.a[n][1] = "text" /\ e.a[n][4] = e.nl
            /\ SubSeq(e.b, 1, n - 1) = SubSeq(e.a, 1, n - 1)
            /\ IsBr(e.b[n]) /\ e.b[n][3] = <<>>
            /\ e.b[n + 1] = e.a[n]
  ELSE e.a = e.b

\* ---- Unsafe: only raw HTML fragments and dangerous URLs differ ----
Placeholder(e, t) == (t[1] = "comment" /\ t[4] = e.ph) \/ (t[1] = "text" /\ t[4] = e.nl)
UrlTok(e, x, y) ==
  \/ x = y
  \/ /\ x[1] = y[1] /\ x[2] = y[2] /\ x[1] \in {"open", "void"} /\ x[2] \in {"a", "img"}
     /\ Len(x[3]) = Len(y[3])
     /\ \A k \in 1..Len(x[3]) : \/ x[3][k] = y[3][k]
                                \/ (x[3][k][1] = y[3][k][1] /\ x[3][k][1] \in {"href", "src"} /\ x[3][k][2] = e.empty)
UnsafeRel(e) ==
  \/ e.a = e.b
  \/ (e.kind \in {"HTMLBlock", "RawHTML"} /\ e.rawok /\ \A i \in 1..Len(e.a) : Placeholder(e, e.a[i]))   \* rawok: the unsafe side is the node's own source bytes
  \/ /\ e.kind \in {"Link", "Image", "AutoLink"}
     /\ Len(e.a) = Len(e.b) /\ \A i \in 1..Len(e.a) : UrlTok(e, e.a[i], e.b[i])
     /\ \E k \in 1..Len(e.urls) : Dangerous(e.urls[k])

Allowed(e) ==
  CASE e.opt = "xhtml"     -> IF e.kind \in {"HTMLBlock", "RawHTML"} THEN e.same ELSE XhtmlRel(e.a, e.b)
    [] e.opt = "hardwraps" -> HardRel(e)
    [] e.opt = "unsafe"    -> UnsafeRel(e)
    [] OTHER -> FALSE

Segs == ndJsonDeserialize("segments.ndjson")
VARIABLES l, bad
PInit == l = 1 /\ bad = <<>>
PNext == /\ l <= Len(Segs) /\ l' = l + 1
         /\ bad' = IF Allowed(Segs[l]) THEN bad ELSE Append(bad, [l |-> l, why |-> Segs[l].opt])
Report == (l = Len(Segs) + 1) => PrintT(ToJson([done |-> TRUE, consumed |-> l - 1, bad |-> bad]))
=============================================================================
