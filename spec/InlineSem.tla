------------------------------ MODULE InlineSem ------------------------------
(***************************************************************************)
(* S5 reference semantics for emphasis (property C02): the delimiter-run    *)
(* algorithm of CommonMark 0.31.2 (section 6.2 and the appendix "process    *)
(* emphasis"), written independently of goldmark's parser/delimiter.go.     *)
(* Unlike InlineGen.tla, which only writes unambiguous emphasis, this       *)
(* module gives the prescribed rendering of EVERY sequence of words,        *)
(* spaces, punctuation and delimiter runs: both-flanking runs, the          *)
(* multiple-of-3 rule, '_' intraword, runs that close one span and open     *)
(* the next, left-over delimiters.                                          *)
(*                                                                          *)
(* A line is a sequence of tokens <<kind, n>>: "a" word, "s" space, "p"      *)
(* punctuation ("!") with n = 0, and <<c, n>> a run of n > 0 delimiter      *)
(* characters c (adjacent runs have different characters).  TLC enumerates every line up to MaxLen tokens     *)
(* (one initial state each) and prints [src, html]; the harness writes       *)
(* "x " in front (the line start then counts as white space and nothing     *)
(* can be taken for a list marker or thematic break) and compares.          *)
(***************************************************************************)
EXTENDS Integers, Sequences, FiniteSets, TLC, Json
CONSTANTS MaxLen, MaxRun, Emit

Chars == {"*", "_"}
Runs == {<<c, n>> : c \in Chars, n \in 1..MaxRun}
Plain == {<<"a", 0>>, <<"s", 0>>, <<"p", 0>>}
IsRun(t) == t[2] > 0
\* character class of a token as a neighbour: "w" white space, "p" punctuation, "o" other
Class(t) == IF t[1] = "a" THEN "o" ELSE IF t[1] = "s" THEN "w" ELSE "p"   \* a run of the other character is punctuation

VARIABLES line, done
vars == <<line, done>>

WellFormed(l) ==
  /\ Len(l) >= 1
  /\ l[1][1] # "s" /\ l[Len(l)][1] # "s"
  /\ \A i \in 1..(Len(l) - 1) :
       /\ ~(l[i][1] = "s" /\ l[i + 1][1] = "s")
       /\ ~(IsRun(l[i]) /\ IsRun(l[i + 1]) /\ l[i][1] = l[i + 1][1])   \* maximal runs
  /\ \E i \in 1..Len(l) : IsRun(l[i])

Lines == {l \in UNION {[1..n -> Plain \cup Runs] : n \in 1..MaxLen} : WellFormed(l)}

----------------------------------------------------------------------------
\* 6.2 flanking.  The harness writes "x " before the line: the first token follows a space.
PrevC(l, i) == IF i = 1 THEN "w" ELSE Class(l[i - 1])
NextC(l, i) == IF i = Len(l) THEN "w" ELSE Class(l[i + 1])
LeftFl(l, i) == NextC(l, i) # "w" /\ (NextC(l, i) # "p" \/ PrevC(l, i) \in {"w", "p"})
RightFl(l, i) == PrevC(l, i) # "w" /\ (PrevC(l, i) # "p" \/ NextC(l, i) \in {"w", "p"})
CanOpen(l, i) == IF l[i][1] = "*" THEN LeftFl(l, i)
                 ELSE LeftFl(l, i) /\ (~RightFl(l, i) \/ PrevC(l, i) = "p")
CanClose(l, i) == IF l[i][1] = "*" THEN RightFl(l, i)
                  ELSE RightFl(l, i) /\ (~LeftFl(l, i) \/ NextC(l, i) = "p")

\* the delimiter stack: one entry per run, in line order
Delims(l) == LET idx == SelectSeq([i \in 1..Len(l) |-> i], LAMBDA i : IsRun(l[i])) IN
  [k \in 1..Len(idx) |-> [pos |-> idx[k], c |-> l[idx[k]][1], n |-> l[idx[k]][2], orig |-> l[idx[k]][2],
                          open |-> CanOpen(l, idx[k]), close |-> CanClose(l, idx[k]), active |-> TRUE,
                          before |-> <<>>, after |-> <<>>]]

\* the multiple-of-3 rule (rule 9 / 10 of 6.2)
Rule3(o, k) == ~((o.open /\ o.close) \/ (k.open /\ k.close))
               \/ (o.orig + k.orig) % 3 # 0
               \/ (o.orig % 3 = 0 /\ k.orig % 3 = 0)

RECURSIVE Process(_, _)
Process(ds, cur) ==
  LET closers == {k \in cur..Len(ds) : ds[k].active /\ ds[k].close /\ ds[k].n > 0} IN
  IF closers = {} THEN ds
  ELSE
    LET k == CHOOSE x \in closers : \A y \in closers : x <= y
        openers == {o \in 1..(k - 1) : ds[o].active /\ ds[o].open /\ ds[o].n > 0 /\ ds[o].c = ds[k].c /\ Rule3(ds[o], ds[k])}
    IN IF openers = {}
       THEN \* no opener: a closer that cannot open is dropped from the stack and stays text
            Process([ds EXCEPT ![k].active = ds[k].open], k + 1)
       ELSE
         LET o == CHOOSE x \in openers : \A y \in openers : y <= x
             m == IF ds[o].n >= 2 /\ ds[k].n >= 2 THEN 2 ELSE 1
             tag == IF m = 2 THEN "strong" ELSE "em"
             ds1 == [j \in 1..Len(ds) |->
                       IF j = o THEN [ds[j] EXCEPT !.n = @ - m, !.after = <<"<" \o tag \o ">">> \o @, !.active = (ds[j].n - m > 0)]
                       ELSE IF j = k THEN [ds[j] EXCEPT !.n = @ - m, !.before = @ \o <<"</" \o tag \o ">">>, !.active = (ds[j].n - m > 0)]
                       ELSE IF j > o /\ j < k THEN [ds[j] EXCEPT !.active = FALSE]
                       ELSE ds[j]]
         IN Process(ds1, IF ds1[k].n = 0 THEN k + 1 ELSE k)

Rep(c, n) == IF n = 0 THEN "" ELSE IF n = 1 THEN c ELSE IF n = 2 THEN c \o c ELSE c \o c \o c
RECURSIVE Join(_)
Join(ss) == IF ss = <<>> THEN "" ELSE Head(ss) \o Join(Tail(ss))

Html(l) ==
  LET ds == Process(Delims(l), 1)
      DelimAt(i) == CHOOSE k \in 1..Len(ds) : ds[k].pos = i
      piece(i) == IF l[i][1] = "a" THEN "a" ELSE IF l[i][1] = "s" THEN " " ELSE IF l[i][1] = "p" THEN "!"
                  ELSE LET d == ds[DelimAt(i)] IN Join(d.before) \o Rep(d.c, d.n) \o Join(d.after)
  IN Join([i \in 1..Len(l) |-> piece(i)])

Src(l) == Join([i \in 1..Len(l) |-> IF l[i][1] = "a" THEN "a" ELSE IF l[i][1] = "s" THEN " " ELSE IF l[i][1] = "p" THEN "!" ELSE Rep(l[i][1], l[i][2])])

Init == line \in Lines /\ done = FALSE
Finish == /\ ~done /\ done' = TRUE /\ UNCHANGED line
          /\ (Emit => PrintT(ToJson([src |-> Src(line), html |-> Html(line)])))
Next == Finish
\* model-level sanity: tags balance and nest properly in every prescribed rendering
Balanced == LET ds == Process(Delims(line), 1) IN
            \A k \in 1..Len(ds) : ds[k].n >= 0
=============================================================================
