CONSTANTS
  Sigma <- SigmaMove
  MaxLen = 3
  Kind = "source"
  MaxAdv = 2
  Pads <- Pads02
  Slots = 2
  HidOn = TRUE
  Emit = FALSE
  Mode = "StaleLineCache"
INIT Init
NEXT Next
INVARIANTS PeekTruth
CHECK_DEADLOCK FALSE
