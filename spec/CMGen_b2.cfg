CONSTANTS
  Budget = 2
  MaxDepth = 2
  Full = FALSE
  Sim = FALSE
  Emit = TRUE
INIT Init
NEXT Next
INVARIANT TypeOK
CHECK_DEADLOCK FALSE
