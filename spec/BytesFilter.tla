---------------------------- MODULE BytesFilter ----------------------------
(***************************************************************************)
(* S12 -- util.BytesFilter as a family of independent SETS (property C19).  *)
(* sets[i] is the set of keys filter i contains.  Filter 1 is created by    *)
(* NewBytesFilter(ks0); Extend / ExtendString create a new filter whose set *)
(* is the parent's set at that moment plus the given keys; afterwards       *)
(* parent, child and siblings evolve independently.                         *)
(* impl is what a given implementation strategy (Mode) would hold:          *)
(*   "spec"          copies on Extend (impl = sets always);                 *)
(*   "SharedBuckets" negative control = the shipped defect: a child keeps   *)
(*                   the parent's bucket, so adds made through one of them  *)
(*                   while they have the same length land in the same       *)
(*                   backing slot and the later one overwrites the earlier. *)
(***************************************************************************)
EXTENDS Naturals, Sequences, FiniteSets, TLC, Json

CONSTANTS Keys, MaxFilters, MaxExt, Emit, Mode
VARIABLES sets,   \* Seq(SUBSET Keys): the specification
          impl,   \* Seq(Seq(Keys)): bucket contents in insertion order (one bucket: keys collide)
          share   \* share[i] = filter whose backing array filter i still shares, or 0

vars == <<sets, impl, share>>
Range(s) == {s[i] : i \in 1..Len(s)}
SetToSeq(S) == CHOOSE s \in [1..Cardinality(S) -> S] : Range(s) = S
RECURSIVE AppendAll(_, _)
AppendAll(s, S) == IF S = {} THEN s ELSE LET k == CHOOSE x \in S : TRUE IN AppendAll(Append(s, k), S \ {k})

Out(v) == IF Emit THEN PrintT(ToJson(v)) ELSE TRUE
SetsJ(ss) == [i \in 1..Len(ss) |-> SetToSeq(ss[i])]

Init == \E ks \in SUBSET Keys :
          /\ Cardinality(ks) <= MaxExt + 2
          /\ sets = <<ks>> /\ share = <<0>>
          /\ impl = IF Mode = "spec" THEN <<>> ELSE <<AppendAll(<<>>, ks)>>
          /\ Out([op |-> "New", f |-> 0, ks |-> SetToSeq(ks), from |-> <<>>, to |-> SetsJ(<<ks>>)])

\* SharedBuckets: writing at index n of a shared array also changes every sharer longer than n
Add(f, k) ==
  /\ f \in 1..Len(sets)
  /\ Mode # "spec" => k \notin sets[f]      \* keeps the bucket model finite
  /\ sets' = [sets EXCEPT ![f] = @ \cup {k}]
  /\ impl' = IF Mode = "SharedBuckets"
             THEN [i \in 1..Len(impl) |->
                     IF i = f THEN Append(impl[f], k)
                     ELSE IF (share[i] = f \/ share[f] = i \/ (share[i] # 0 /\ share[i] = share[f]))
                             /\ Len(impl[i]) > Len(impl[f])
                          THEN [impl[i] EXCEPT ![Len(impl[f]) + 1] = k]
                          ELSE impl[i]]
             ELSE impl
  /\ share' = share
  /\ Out([op |-> "Add", f |-> f, ks |-> <<k>>, from |-> SetsJ(sets), to |-> SetsJ(sets')])

Extend(f, ks) ==
  /\ f \in 1..Len(sets) /\ Len(sets) < MaxFilters
  /\ sets' = Append(sets, sets[f] \cup ks)
  /\ share' = Append(share, IF Mode = "SharedBuckets" THEN (IF share[f] # 0 THEN share[f] ELSE f) ELSE 0)
  /\ IF Mode = "spec" THEN impl' = impl ELSE
     LET base == impl[f]
         n == Len(impl) + 1
         withNew == Append(impl, base)
         RECURSIVE addAll(_, _)
         addAll(im, S) == IF S = {} THEN im
                          ELSE LET k == CHOOSE x \in S : TRUE
                                   im2 == IF Mode = "SharedBuckets"
                                          THEN [i \in 1..Len(im) |->
                                                 IF i = n THEN Append(im[n], k)
                                                 ELSE IF (share'[n] = i \/ share'[i] = share'[n]) /\ share'[n] # 0 /\ Len(im[i]) > Len(im[n])
                                                      THEN [im[i] EXCEPT ![Len(im[n]) + 1] = k] ELSE im[i]]
                                          ELSE [im EXCEPT ![n] = Append(@, k)]
                               IN addAll(im2, S \ {k})
     IN impl' = addAll(withNew, ks \ sets[f])
  /\ Out([op |-> "Extend", f |-> f, ks |-> SetToSeq(ks), from |-> SetsJ(sets), to |-> SetsJ(sets')])

Next == \/ \E f \in 1..MaxFilters, k \in Keys : Add(f, k)
        \/ \E f \in 1..MaxFilters, ks \in SUBSET Keys : Cardinality(ks) <= MaxExt /\ Extend(f, ks)
Spec == Init /\ [][Next]_vars

\* A BytesFilter behaves as a set; derived filters are independent
BehavesAsSet == Mode # "spec" => \A i \in 1..Len(sets) : Range(impl[i]) = sets[i]
TypeOK == Len(sets) \in 1..MaxFilters /\ \A i \in 1..Len(sets) : sets[i] \subseteq Keys
\* a call on one filter never changes another one
Independent == [][\A i \in 1..Len(sets) : (sets'[i] # sets[i]) => \E k \in Keys : sets'[i] = sets[i] \cup {k}]_vars
=============================================================================
