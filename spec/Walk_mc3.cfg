CONSTANTS
  Node = {"n1","n2","n3"}
  NIL = "nil"
  MaxSpecial = 2
  Atomic = FALSE
  Emit = FALSE
SPECIFICATION Spec
INVARIANTS StepEqualsRec OncEach
PROPERTY Terminates
CHECK_DEADLOCK FALSE
