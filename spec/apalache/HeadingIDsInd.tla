--------------------------- MODULE HeadingIDsInd ---------------------------
(***************************************************************************)
(* Supplementary (Apalache): the uniqueness argument of HeadingIDs.tla as   *)
(* an INDUCTIVE invariant, for any id table - not only the tables reachable *)
(* within TLC's bounds.  Ids are abstracted to pairs <<base, suffix>>        *)
(* (suffix 0 = the bare slug), which is what "base-N" means; the probing    *)
(* rule is HeadingIDs.tla's: the bare slug if free, else the first free     *)
(* suffix.  IndInv: every id handed out is in the table and no id was       *)
(* handed out twice.                                                        *)
(***************************************************************************)
EXTENDS Integers, Sequences, FiniteSets, Apalache
CONSTANTS
  \* @type: Set(Str);
  Bases,
  \* @type: Int;
  MaxSuffix
VARIABLES
  \* @type: Set(<<Str, Int>>);
  used,
  \* @type: Seq(<<Str, Int>>);
  out

\* @type: (Str, Set(<<Str, Int>>)) => <<Str, Int>>;
IdFor(b, U) ==
  IF <<b, 0>> \notin U THEN <<b, 0>>
  ELSE LET free == {i \in 1..MaxSuffix : <<b, i>> \notin U /\ \A j \in 1..MaxSuffix : j < i => <<b, j>> \in U} IN
       IF free = {} THEN <<b, MaxSuffix + 1>> ELSE <<b, CHOOSE i \in free : TRUE>>

CInit == Bases = {"a", "b", "heading"} /\ MaxSuffix = 4
Init == used = {} /\ out = <<>>
Heading(b) == LET id == IdFor(b, used) IN
  /\ id[2] <= MaxSuffix            \* (the table has room: the probe finds a free suffix)
  /\ used' = used \cup {id}
  /\ out' = Append(out, id)
Next == \E b \in Bases : Heading(b)

TypeOK == /\ used \in SUBSET (Bases \X (0..MaxSuffix))
          /\ \A i \in DOMAIN out : out[i] \in Bases \X (0..MaxSuffix)
Distinct == \A i, j \in DOMAIN out : i # j => out[i] # out[j]
IndInv == /\ TypeOK
          /\ \A i \in DOMAIN out : out[i] \in used
          /\ Distinct
\* any table of up to 15 ids and any sequence of up to 3 ids that satisfy the invariant
IndInit == used = Gen(15) /\ out = Gen(3) /\ IndInv
=============================================================================
