CONSTANTS
  G = {"g1","g2"}
  Api <- ApiConvert
  W = 2
  EntStart = "idle"
  EntAt = {}
  EntAny = TRUE
  Mode = "spec"
  Emit = FALSE
SPECIFICATION Spec
INVARIANTS ReadsBuilt InitOnce OwnerExclusive ResultSequential
PROPERTIES NoWriteAfterDone Terminates
CHECK_DEADLOCK FALSE
