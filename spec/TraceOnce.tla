------------------------------ MODULE TraceOnce ------------------------------
(***************************************************************************)
(* Trace validation for Once.tla (property C07).  File once_runs.ndjson,    *)
(* one RUN per line, all of the same class (goroutines, API per goroutine,  *)
(* W, entity table idle or built: the constants of Once):                   *)
(*   evs   : [g -> sequence of gate names in g's program order]  (logged    *)
(*           per goroutine; there is no global clock in an unscheduled run) *)
(*   order : total order <<g, gate>> of the gate passes when the run was    *)
(*           driven by the scheduler, else <<>>                             *)
(* A run is accepted iff SOME interleaving of the per-goroutine logs (the   *)
(* given one, if order is present) is a behaviour of Once: TLC infers the   *)
(* unlogged internal steps (Do:o, Rel:o) and, for unscheduled runs, the     *)
(* interleaving.  Skip moves to the next run from a run's initial state, so *)
(* every run is judged on its own; Accept prints the run's number.          *)
(***************************************************************************)
EXTENDS OnceMC
Runs == ndJsonDeserialize("once_runs.ndjson")
VARIABLES r, idx, k
tvars == <<vars, r, idx, k>>

IsGate(loc) == loc # "Done" /\ SubSeq(loc, 1, 3) # "Do:" /\ SubSeq(loc, 1, 4) # "Rel:"
Fresh == idx = [g \in G |-> 1] /\ k = 1

TInit == Init /\ r = 1 /\ idx = [g \in G |-> 1] /\ k = 1

\* Internal steps are taken eagerly: a goroutine released from a gate runs straight into the
\* once, and an unscheduled run has no total order that this could contradict.
IntEnabled == \E h \in G : \E o \in O :
   \/ pc[h] = "Rel:" \o o
   \/ pc[h] = "Do:" \o o /\ once[o] # "running"
TStep(g) ==
  /\ r <= Len(Runs)
  /\ LET run == Runs[r] loc == pc[g] IN
     IF IsGate(loc)
     THEN /\ ~IntEnabled
          /\ idx[g] <= Len(run.evs[g]) /\ run.evs[g][idx[g]] = loc
          /\ (Len(run.order) > 0 => (k <= Len(run.order) /\ run.order[k] = <<g, loc>>))
          /\ idx' = [idx EXCEPT ![g] = @ + 1] /\ k' = k + 1
     ELSE UNCHANGED <<idx, k>>
  /\ Step(g)
  /\ UNCHANGED r

ReInit == /\ pc' = [g \in G |-> IF Api[g] = "render" THEN "Start" ELSE "ParseEnter"]
          /\ once' = [o \in O |-> IF o = "E" THEN EntStart ELSE "idle"]
          /\ owner' = [o \in O |-> NoG]
          /\ tab' = [o \in O |-> IF o = "E" /\ EntStart = "done" THEN "built" ELSE "unbuilt"]
          /\ ret' = [g \in G |-> "Done"] /\ seen' = [g \in G |-> {}]
          /\ inits' = [o \in O |-> 0]
          /\ flag' = [o \in O |-> (o = "E" /\ EntStart = "done")]
          /\ idx' = [g \in G |-> 1] /\ k' = 1 /\ r' = r + 1

Accept == /\ r <= Len(Runs) /\ AllDone
          /\ \A g \in G : idx[g] = Len(Runs[r].evs[g]) + 1
          /\ PrintT(ToJson([accepted |-> r]))
          /\ ReInit
Skip   == /\ r <= Len(Runs) /\ Fresh /\ pc = [g \in G |-> IF Api[g] = "render" THEN "Start" ELSE "ParseEnter"]
          /\ ReInit

TNext == (\E g \in G : TStep(g)) \/ Accept \/ Skip
Finished == (r = Len(Runs) + 1) => PrintT(ToJson([done |-> TRUE, consumed |-> Len(Runs)]))
=============================================================================
