--------------------------- MODULE TraceFootnote ---------------------------
(***************************************************************************)
(* Acceptor for C16 over OBSERVED output (file footnotes.ndjson), one       *)
(* record per converted document:                                           *)
(*   items     = id of every <li> of the footnote list, in order            *)
(*   refs      = <<sup id, href of its <a>, displayed number>> per reference *)
(*   backlinks = <<position of the item it sits in, href>> per back-link     *)
(* The clauses are the statement's; "fn:" / "fnref" are the id forms of the  *)
(* default configuration.  Clause order: structural clauses first, the      *)
(* back-link correspondence last.                                           *)
(***************************************************************************)
EXTENDS Integers, Sequences, FiniteSets, TLC, Json, IOUtils
Obs == ndJsonDeserialize("footnotes.ndjson")
VARIABLES l, bad
ItemId(k) == "fn:" \o ToString(k)
Why(e) ==
  LET n == Len(e.items)
      ids == [i \in 1..(n + Len(e.refs)) |-> IF i <= n THEN e.items[i] ELSE e.refs[i - n][1]]
  IN
  IF \E i \in 1..n : e.items[i] # ItemId(i) THEN "items-not-numbered-consecutively"
  ELSE IF \E r \in 1..Len(e.refs) : ~\E k \in 1..n : e.refs[r][2] = "#" \o ItemId(k) THEN "reference-to-missing-item"
  ELSE IF \E r \in 1..Len(e.refs) : \E k \in 1..n : e.refs[r][2] = "#" \o ItemId(k) /\ e.refs[r][3] # ToString(k) THEN "reference-shows-wrong-number"
  ELSE IF \E i, j \in 1..Len(ids) : i # j /\ ids[i] = ids[j] THEN "duplicate-id"
  ELSE IF \E k \in 1..n : ~\E r \in 1..Len(e.refs) : e.refs[r][2] = "#" \o ItemId(k) THEN "item-without-rendered-reference"
  ELSE IF \E b \in 1..Len(e.backlinks) : ~\E r \in 1..Len(e.refs) : e.backlinks[b][2] = "#" \o e.refs[r][1] THEN "backlink-without-reference"
  ELSE IF \E r \in 1..Len(e.refs) : Cardinality({b \in 1..Len(e.backlinks) : e.backlinks[b][2] = "#" \o e.refs[r][1]}) # 1 THEN "reference-without-exactly-one-backlink"
  ELSE IF \E b \in 1..Len(e.backlinks) : \E r \in 1..Len(e.refs) :
            e.backlinks[b][2] = "#" \o e.refs[r][1] /\ e.refs[r][2] # "#" \o ItemId(e.backlinks[b][1]) THEN "backlink-in-wrong-item"
  ELSE "ok"
PInit == l = 1 /\ bad = <<>>
PNext == /\ l <= Len(Obs) /\ l' = l + 1
         /\ bad' = IF Why(Obs[l]) = "ok" THEN bad ELSE Append(bad, [l |-> l, why |-> Why(Obs[l])])
Report == (l = Len(Obs) + 1) => PrintT(ToJson([done |-> TRUE, consumed |-> l - 1, bad |-> bad]))
=============================================================================
