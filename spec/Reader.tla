------------------------------- MODULE Reader -------------------------------
(***************************************************************************)
(* S7 -- text.Reader / text.BlockReader / text.Segment as a CURSOR over    *)
(* the source (property C18).                                              *)
(*                                                                         *)
(* The source is a sequence of abstract bytes (one-character strings).     *)
(* A reader walks over a list of line segments `segs`:                      *)
(*   - source reader : the line decomposition of src (padding 0);           *)
(*   - block reader  : any increasing list of non-empty segments, each      *)
(*     inside one line of src, each with its own virtual padding.           *)
(* The cursor is cur = [line, start, stop, pad] (0-based offsets like the   *)
(* implementation).  Its VIEW is `pad` spaces followed by src[start..stop). *)
(* One action per public call; each action states the REPLY the real call   *)
(* must give (variable-free operators below, shared with the trace monitor  *)
(* TraceReader).  Only calls inside the documented preconditions are        *)
(* enabled: Advance(n) with n no larger than what remains, SetPosition to a *)
(* position previously returned by Position, Value of a saved one-line      *)
(* segment, LineOffset where "column" is meaningful.                        *)
(*                                                                         *)
(* hid is MECHANISM level: it records whether a line has been peeked / the  *)
(* column has been computed since the last move.  It changes no reply; it   *)
(* only makes TLC's graph distinguish the cached from the uncached path to  *)
(* the same cursor, so that replay exercises both (the shipped              *)
(* reader.SetPosition defect lived exactly there).                          *)
(***************************************************************************)
EXTENDS Integers, Sequences, FiniteSets, TLC, Json

CONSTANTS Sigma,     \* abstract bytes used to build sources
          MaxLen,    \* maximal source length
          Kind,      \* "source" | "block"
          MaxAdv,    \* largest n tried for Advance
          Pads,      \* paddings tried for SetPadding / segment paddings
          Slots,     \* number of slots in which a position can be saved (1 or 2)
          HidOn,     \* BOOLEAN: track the mechanism-level cache flags (off in generator runs,
                     \* where the harness itself varies the cache state before every call)
          Emit,      \* BOOLEAN: print every transition as JSON
          Mode       \* "spec" | "StaleLineCache" (negative control)

VARIABLES src, segs, cur, saved, hid, lastPeek

vars == <<src, segs, cur, saved, hid, lastPeek>>

NoPos == [line |-> -1, start |-> -1, stop |-> -1, pad |-> 0]

----------------------------------------------------------------------------
\* ---- pure operators over (s = source, sg = segments, p = position) ----
Spaces(n) == [k \in 1..n |-> " "]
BytesOf(s, a, b) == IF b > a THEN SubSeq(s, a + 1, b) ELSE <<>>
ViewOf(s, p) == Spaces(p.pad) \o BytesOf(s, p.start, p.stop)

\* line decomposition of a source: segments [start, stop) each ending after "\n" or at the end
LineEnds(s) == {i \in 1..Len(s) : s[i] = "\n" \/ i = Len(s)}
LinesOf(s) ==
  LET ends == LineEnds(s)
      n == Cardinality(ends)
      f[k \in 0..n] == \* f[k] = k-th smallest end
         IF k = 0 THEN 0 ELSE CHOOSE e \in ends : e > f[k-1] /\ \A e2 \in ends : e2 > f[k-1] => e <= e2
  IN [k \in 1..n |-> [start |-> f[k-1], stop |-> f[k], pad |-> 0]]

EOFPos(s, sg) == [line |-> Len(sg), start |-> Len(s), stop |-> Len(s), pad |-> 0]
AtEOF(sg, p) == p.line >= Len(sg)
LineStart(s, sg, L) == IF L < Len(sg)
                       THEN [line |-> L, start |-> sg[L+1].start, stop |-> sg[L+1].stop, pad |-> sg[L+1].pad]
                       ELSE EOFPos(s, sg)
StartPos(s, sg) == LineStart(s, sg, 0)

\* one byte of the view forward
Step1(s, sg, p) ==
  IF p.pad > 0 THEN [p EXCEPT !.pad = @ - 1]
  ELSE IF p.start + 1 >= p.stop THEN LineStart(s, sg, p.line + 1)
  ELSE [p EXCEPT !.start = @ + 1]

RECURSIVE AdvanceN(_, _, _, _)
AdvanceN(s, sg, p, n) == IF n = 0 THEN p ELSE AdvanceN(s, sg, Step1(s, sg, p), n - 1)

RECURSIVE LaterLen(_, _)
LaterLen(sg, L) == IF L >= Len(sg) THEN 0 ELSE sg[L+1].pad + sg[L+1].stop - sg[L+1].start + LaterLen(sg, L + 1)
Remaining(s, sg, p) == IF AtEOF(sg, p) THEN 0 ELSE Len(ViewOf(s, p)) + LaterLen(sg, p.line + 1)

PeekReply(s, sg, p) == IF AtEOF(sg, p) \/ ViewOf(s, p) = <<>> THEN <<"EOF">> ELSE <<Head(ViewOf(s, p))>>
PeekLineReply(s, sg, p) == IF AtEOF(sg, p) THEN <<"nil">> ELSE ViewOf(s, p)

TabW(v) == 4 - (v % 4)
RECURSIVE ColOf(_, _, _, _)
ColOf(s, a, b, v) == IF a >= b THEN v
                     ELSE ColOf(s, a + 1, b, IF s[a+1] = "\t" THEN v + TabW(v) ELSE v + 1)
HeadOf(sg, p) == sg[p.line+1].start
\* the padding is what is left of a partially consumed tab
PadMeaningful(s, sg, p) ==
  \/ p.pad = 0
  \/ /\ p.start > HeadOf(sg, p)
     /\ s[p.start] = "\t"                     \* byte at offset start-1
     /\ p.pad < TabW(ColOf(s, HeadOf(sg, p), p.start - 1, 0))
LineOffsetOk(s, sg, p) == /\ ~AtEOF(sg, p)
                          /\ sg[p.line+1].pad = 0
                          /\ PadMeaningful(s, sg, p)
LineOffsetReply(s, sg, p) == ColOf(s, HeadOf(sg, p), p.start, 0) - p.pad

\* Value(seg): enabled for a saved position (a sub-range of one line).  For the block reader
\* only where "the segment's own value" is unambiguous: line and position without padding.
ValueOk(k, sg, q) == /\ q # NoPos /\ ~AtEOF(sg, q)
                     /\ (k = "block" => (q.pad = 0 /\ sg[q.line+1].pad = 0))
ValueReply(s, q) == ViewOf(s, q)

----------------------------------------------------------------------------
\* ---- all worlds (source, segments) ----
Sources == UNION {[1..n -> Sigma] : n \in 0..MaxLen}
\* block reader: per line either no segment or one sub-range with a padding
SegChoicesOfLine(ln) == {<<>>} \cup
   UNION {{<<[start |-> a, stop |-> b, pad |-> pd]>> : b \in {ln.stop, ln.stop - 1} \cap ((a+1)..ln.stop), pd \in Pads}
            : a \in ln.start..(ln.stop-1)}
RECURSIVE SegLists(_, _)
SegLists(lines, k) == IF k > Len(lines) THEN {<<>>}
                      ELSE {x \o rest : x \in SegChoicesOfLine(lines[k]), rest \in SegLists(lines, k + 1)}
\* a block reader is created for the lines of a block: at least one segment
Worlds(s) == IF Kind = "source" THEN {LinesOf(s)} ELSE SegLists(LinesOf(s), 1) \ {<<>>}

Out(v) == IF Emit THEN PrintT(ToJson(v)) ELSE TRUE

Init == /\ src \in Sources
        /\ segs \in Worlds(src)
        /\ cur = StartPos(src, segs)
        /\ saved = <<NoPos, NoPos>>
        /\ hid = [peeked |-> FALSE, col |-> FALSE]
        /\ lastPeek = <<>>

Moved == [peeked |-> FALSE, col |-> FALSE]

\* compact JSON forms for the generator
PT(p) == <<p.line, p.start, p.stop, p.pad>>
HB(h) == (IF h.peeked THEN 1 ELSE 0) + (IF h.col THEN 2 ELSE 0)
Do(op, n, v, slot, reply, cur2, saved2, hid2) ==
  /\ cur' = cur2 /\ saved' = saved2 /\ hid' = hid2
  /\ UNCHANGED <<src, segs>>
  /\ Out(<<src, [i \in 1..Len(segs) |-> <<segs[i].start, segs[i].stop, segs[i].pad>>],
           PT(cur), [i \in 1..Len(saved) |-> PT(saved[i])], HB(hid), op, n, v, slot, reply,
           PT(cur2), [i \in 1..Len(saved2) |-> PT(saved2[i])], HB(hid2)>>)

\* ---- one table for all calls: precondition, reply, next cursor / saved slots ----
\* (shared by the actions below and by the trace monitor TraceReader)
CallOk(k, s, sg, p, sv, op, n, v, slot) ==
  CASE op = "Advance"              -> n <= Remaining(s, sg, p)
    [] op = "SetPosition"          -> sv[slot] # NoPos
    [] op = "SetPadding"           -> ~AtEOF(sg, p)
    [] op = "AdvanceAndSetPadding" -> n <= Remaining(s, sg, p) /\ ~AtEOF(sg, AdvanceN(s, sg, p, n))
    [] op = "LineOffset"           -> LineOffsetOk(s, sg, p)
    [] op = "Value"                -> ValueOk(k, sg, sv[slot])
    [] op \in {"Peek", "PeekLine", "AdvanceLine", "Position", "FindClosureNoAdvance", "ResetPosition"} -> TRUE
    [] OTHER -> FALSE
CallReply(s, sg, p, sv, op, n, v, slot) ==
  CASE op = "Peek"       -> PeekReply(s, sg, p)
    [] op = "PeekLine"   -> PeekLineReply(s, sg, p)
    [] op = "LineOffset" -> <<LineOffsetReply(s, sg, p)>>
    [] op = "Value"      -> ValueReply(s, sv[slot])
    [] OTHER -> <<>>
CallCur(s, sg, p, sv, op, n, v, slot) ==
  CASE op = "Advance"     -> AdvanceN(s, sg, p, n)
    [] op = "AdvanceLine" -> IF AtEOF(sg, p) THEN p ELSE LineStart(s, sg, p.line + 1)
    [] op = "SetPosition" -> sv[slot]
    [] op = "SetPadding"  -> [p EXCEPT !.pad = v]
    [] op = "AdvanceAndSetPadding" -> LET q == AdvanceN(s, sg, p, n) IN IF v > q.pad THEN [q EXCEPT !.pad = v] ELSE q
    [] op = "ResetPosition" -> StartPos(s, sg)
    [] OTHER -> p
CallSaved(p, sv, op, slot) == IF op = "Position" THEN [sv EXCEPT ![slot] = p] ELSE sv
\* mechanism level: which caches can be live after the call
CallHid(h, op) ==
  IF ~HidOn THEN h ELSE
  CASE op = "PeekLine"   -> [h EXCEPT !.peeked = TRUE]
    [] op = "LineOffset" -> [h EXCEPT !.col = TRUE]
    [] op \in {"Peek", "Position", "Value", "SetPadding"} -> h
    [] OTHER -> Moved

Call(op, n, v, slot) ==
  /\ CallOk(Kind, src, segs, cur, saved, op, n, v, slot)
  /\ LET truth == CallReply(src, segs, cur, saved, op, n, v, slot)
         stale == Mode = "StaleLineCache" /\ op = "PeekLine" /\ hid.peeked /\ lastPeek # <<>>
         reply == IF stale THEN lastPeek ELSE truth
         keep  == Mode = "StaleLineCache" /\ op = "SetPosition"   \* negative control: cache survives
     IN /\ Do(op, n, v, slot, reply,
              CallCur(src, segs, cur, saved, op, n, v, slot), CallSaved(cur, saved, op, slot),
              IF keep THEN hid ELSE CallHid(hid, op))
        /\ lastPeek' = IF Mode # "StaleLineCache" THEN <<>>
                        ELSE IF op = "PeekLine" THEN reply
                        ELSE IF keep \/ CallHid(hid, op) = hid THEN lastPeek ELSE <<>>

Peek == Call("Peek", 0, 0, 0)
PeekLine == Call("PeekLine", 0, 0, 0)
Advance(n) == Call("Advance", n, 0, 0)
AdvanceLine == Call("AdvanceLine", 0, 0, 0)
Position(slot) == Call("Position", 0, 0, slot)
SetPosition(slot) == Call("SetPosition", 0, 0, slot)
SetPadding(v) == Call("SetPadding", 0, v, 0)
AdvanceAndSetPadding(n, v) == Call("AdvanceAndSetPadding", n, v, 0)
LineOffset == Call("LineOffset", 0, 0, 0)
Value(slot) == Call("Value", 0, 0, slot)
\* FindClosure WITHOUT the Advance option: whatever it answers, the cursor is where it was.
\* v encodes the option set: bit0 CodeSpan, bit1 Nesting, bit2 Newline.
FindClosureNoAdvance(v) == Call("FindClosureNoAdvance", 0, v, 0)
ResetPosition == Call("ResetPosition", 0, 0, 0)

Next ==
  \/ Peek \/ PeekLine \/ AdvanceLine \/ LineOffset \/ ResetPosition
  \/ \E n \in 0..MaxAdv : Advance(n)
  \/ \E s \in 1..Slots : Position(s) \/ SetPosition(s) \/ Value(s)
  \/ \E v \in Pads : SetPadding(v)
  \/ \E n \in 1..MaxAdv, v \in Pads \ {0} : AdvanceAndSetPadding(n, v)
  \/ \E v \in {0, 3, 4, 7} : FindClosureNoAdvance(v)

Spec == Init /\ [][Next]_vars

----------------------------------------------------------------------------
\* Invariants of the design
PosInBounds(p) == p = NoPos \/ (0 <= p.start /\ p.start <= p.stop /\ p.stop <= Len(src) /\ p.pad >= 0)
InBounds == PosInBounds(cur) /\ PosInBounds(saved[1]) /\ PosInBounds(saved[2])
\* Peek is the head of PeekLine
PeekConsistent == LET pl == PeekLineReply(src, segs, cur) pk == PeekReply(src, segs, cur) IN
                    IF pl = <<"nil">> THEN pk = <<"EOF">> ELSE (pl = <<>> /\ pk = <<"EOF">>) \/ pk = <<Head(pl)>>
\* what PeekLine last answered is the truth about the current position (fails under StaleLineCache)
PeekTruth == (hid.peeked /\ lastPeek # <<>>) => lastPeek = PeekLineReply(src, segs, cur)
\* the cursor never rests at the end of a line: it is inside a line or at EOF
Normalised == AtEOF(segs, cur) \/ (cur.start < cur.stop /\ cur.stop = segs[cur.line+1].stop /\ cur.start >= segs[cur.line+1].start)
=============================================================================
