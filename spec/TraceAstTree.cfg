CONSTANTS
  Node = {"n1","n2","n3","n4","n5","n6"}
  NIL = "nil"
  Key <- KeyDef
  Emit = FALSE
  Mode = "spec"
INIT TInit
NEXT TNext
INVARIANT Report
CHECK_DEADLOCK FALSE
