------------------------------ MODULE UtilLaws ------------------------------
(***************************************************************************)
(* Algebraic laws of the escaping / normalisation utilities (property C19)  *)
(* as predicates over (input, output) byte sequences (bytes are 0..255),    *)
(* and a monitor that evaluates them on call pairs recorded from the real   *)
(* util functions (file pairs.ndjson).  One TLC run judges every pair.      *)
(***************************************************************************)
EXTENDS Integers, Sequences, FiniteSets, TLC, Json, IOUtils

Has(s, b) == \E i \in 1..Len(s) : s[i] = b
At(s, i, p) == i + Len(p) - 1 <= Len(s) /\ SubSeq(s, i, i + Len(p) - 1) = p
AMP  == <<38, 97, 109, 112, 59>>
LT   == <<38, 108, 116, 59>>
GT   == <<38, 103, 116, 59>>
QUOT == <<38, 113, 117, 111, 116, 59>>

RECURSIVE Unesc(_, _)
Unesc(s, i) ==
  IF i > Len(s) THEN <<>>
  ELSE IF At(s, i, AMP)  THEN <<38>> \o Unesc(s, i + 5)
  ELSE IF At(s, i, LT)   THEN <<60>> \o Unesc(s, i + 4)
  ELSE IF At(s, i, GT)   THEN <<62>> \o Unesc(s, i + 4)
  ELSE IF At(s, i, QUOT) THEN <<34>> \o Unesc(s, i + 6)
  ELSE <<s[i]>> \o Unesc(s, i + 1)

\* EscapeHTML: no raw < > ", no bare &, decodes back to the input
EscapeOK(in, out) ==
  /\ ~Has(out, 60) /\ ~Has(out, 62) /\ ~Has(out, 34)
  /\ \A i \in 1..Len(out) : out[i] = 38 => (At(out, i, AMP) \/ At(out, i, LT) \/ At(out, i, GT) \/ At(out, i, QUOT))
  /\ Unesc(out, 1) = in

Cont(b) == b >= 128 /\ b <= 191
RECURSIVE ValidUTF8From(_, _)
ValidUTF8From(s, i) ==
  IF i > Len(s) THEN TRUE
  ELSE LET b == s[i]
           c(k) == IF i + k <= Len(s) THEN s[i + k] ELSE -1
       IN IF b < 128 THEN ValidUTF8From(s, i + 1)
          ELSE IF b >= 194 /\ b <= 223 THEN Cont(c(1)) /\ ValidUTF8From(s, i + 2)
          ELSE IF b = 224 THEN c(1) >= 160 /\ c(1) <= 191 /\ Cont(c(2)) /\ ValidUTF8From(s, i + 3)
          ELSE IF (b >= 225 /\ b <= 236) \/ b = 238 \/ b = 239 THEN Cont(c(1)) /\ Cont(c(2)) /\ ValidUTF8From(s, i + 3)
          ELSE IF b = 237 THEN c(1) >= 128 /\ c(1) <= 159 /\ Cont(c(2)) /\ ValidUTF8From(s, i + 3)
          ELSE IF b = 240 THEN c(1) >= 144 /\ c(1) <= 191 /\ Cont(c(2)) /\ Cont(c(3)) /\ ValidUTF8From(s, i + 4)
          ELSE IF b >= 241 /\ b <= 243 THEN Cont(c(1)) /\ Cont(c(2)) /\ Cont(c(3)) /\ ValidUTF8From(s, i + 4)
          ELSE IF b = 244 THEN c(1) >= 128 /\ c(1) <= 143 /\ Cont(c(2)) /\ Cont(c(3)) /\ ValidUTF8From(s, i + 4)
          ELSE FALSE
ValidUTF8(s) == ValidUTF8From(s, 1)

IsHex(b) == (b >= 48 /\ b <= 57) \/ (b >= 65 /\ b <= 70) \/ (b >= 97 /\ b <= 102)
HexVal(b) == IF b <= 57 THEN b - 48 ELSE IF b <= 70 THEN b - 55 ELSE b - 87
Triple(s, i) == s[i] = 37 /\ i + 2 <= Len(s) /\ IsHex(s[i+1]) /\ IsHex(s[i+2])
RECURSIVE PD(_, _)          \* percent-decode the valid triples, keep everything else
PD(s, i) == IF i > Len(s) THEN <<>>
            ELSE IF Triple(s, i) THEN <<16 * HexVal(s[i+1]) + HexVal(s[i+2])>> \o PD(s, i + 3)
            ELSE <<s[i]>> \o PD(s, i + 1)

\* URLEscape(v, false)
UrlEscapeOK(in, out, out2) ==
  /\ \A i \in 1..Len(out) : out[i] > 32 /\ out[i] # 127 /\ out[i] # 34 /\ out[i] # 60 /\ out[i] # 62
  /\ \A i \in 1..Len(out) : out[i] = 37 => Triple(out, i)
  /\ ValidUTF8(in) => (\A i \in 1..Len(out) : out[i] < 128)
  /\ ValidUTF8(in) => PD(out, 1) = PD(in, 1)        \* existing %XX triples survive, nothing is lost
  /\ out2 = out                                    \* idempotent

FFFD == <<239, 191, 189>>
ResolveOK(in, out, oor, oorlong) ==
  /\ ValidUTF8(in) => ValidUTF8(out)
  /\ oor => out = FFFD
  \* a numeric reference of any length whose value lies above U+10FFFF yields U+FFFD or stays
  \* as it is; it never becomes another character (no wrap-around)
  /\ oorlong => (out = FFFD \/ out = in)

LabelOK(out, out2, outv) == out2 = out /\ outv = out

Pairs == ndJsonDeserialize("pairs.ndjson")

VARIABLES l, bad
PInit == l = 1 /\ bad = <<>>
Judge(e) ==
  CASE e.fn = "EscapeHTML" -> EscapeOK(e.in, e.out)
    [] e.fn = "URLEscape"  -> UrlEscapeOK(e.in, e.out, e.out2)
    [] e.fn \in {"UnescapePunctuations", "ResolveNumericReferences", "ResolveEntityNames"} -> ResolveOK(e.in, e.out, e.oor, e.oorlong)
    [] e.fn = "ToLinkReference" -> LabelOK(e.out, e.out2, e.outv)
    [] OTHER -> FALSE
PNext == /\ l <= Len(Pairs)
         /\ l' = l + 1
         /\ bad' = IF Judge(Pairs[l]) THEN bad ELSE Append(bad, [l |-> l, fn |-> Pairs[l].fn])
Report == (l = Len(Pairs) + 1) => PrintT(ToJson([done |-> TRUE, consumed |-> l - 1, bad |-> bad]))
=============================================================================
