CONSTANTS
  Keys = {"k1","k2","k3","k4","k5","k6"}
  MaxFilters = 3
  MaxExt = 2
  Emit = TRUE
  Mode = "spec"
INIT Init
NEXT Next
INVARIANTS BehavesAsSet TypeOK
CHECK_DEADLOCK FALSE
