----------------------------- MODULE TraceTable -----------------------------
(***************************************************************************)
(* Acceptor for C17 over OBSERVED tables (file tables.ndjson).  One record  *)
(* per converted document:                                                  *)
(*   tables = for every <table> of the output: head = cells per row of      *)
(*            <thead>, body = cells per row of <tbody>, halign = alignment  *)
(*            of each header cell, balign / bfilled = alignment / non-empty *)
(*            flag of each body cell; the same counts read from the AST     *)
(*            (ahead, abody)                                                *)
(*   expect = what Table.tla says for a generated candidate                 *)
(*            ([gen |-> TRUE, istable, d, nrows]) or [gen |-> FALSE]        *)
(* The clauses are the statement's.                                         *)
(***************************************************************************)
EXTENDS Integers, Sequences, TLC, Json, IOUtils
Obs == ndJsonDeserialize("tables.ndjson")
VARIABLES l, bad

TableWhy(t) ==
  IF Len(t.head) # 1 THEN "not-exactly-one-header-row"
  ELSE IF \E i \in 1..Len(t.body) : t.body[i] # t.head[1] THEN "row-width-differs-from-header"
  ELSE IF t.ahead # t.head \/ t.abody # t.body THEN "ast-and-html-disagree"
  ELSE IF \E i \in 1..Len(t.body) : \E j \in 1..Len(t.balign[i]) :
            t.bfilled[i][j] /\ j <= Len(t.halign) /\ t.balign[i][j] # t.halign[j] THEN "cell-alignment-differs-from-column"
  ELSE "ok"
RECURSIVE FirstBad(_, _)
FirstBad(ts, i) == IF i > Len(ts) THEN "ok" ELSE IF TableWhy(ts[i]) # "ok" THEN TableWhy(ts[i]) ELSE FirstBad(ts, i + 1)
Why(e) ==
  LET w == FirstBad(e.tables, 1) IN
  IF w # "ok" THEN w
  ELSE IF ~e.expect.gen THEN "ok"
  ELSE IF ~e.expect.istable THEN (IF Len(e.tables) = 0 THEN "ok" ELSE "mismatched-header-became-a-table")
  ELSE IF Len(e.tables) # 1 THEN "candidate-not-rendered-as-one-table"
  ELSE IF e.tables[1].head[1] # e.expect.d THEN "header-width-differs-from-delimiter-row"
  ELSE IF Len(e.tables[1].body) # e.expect.nrows THEN "body-row-count"
  ELSE IF e.tables[1].halign # e.expect.aligns THEN "column-alignment"
  ELSE "ok"
PInit == l = 1 /\ bad = <<>>
PNext == /\ l <= Len(Obs) /\ l' = l + 1
         /\ bad' = IF Why(Obs[l]) = "ok" THEN bad ELSE Append(bad, [l |-> l, why |-> Why(Obs[l])])
Report == (l = Len(Obs) + 1) => PrintT(ToJson([done |-> TRUE, consumed |-> l - 1, bad |-> bad]))
=============================================================================
