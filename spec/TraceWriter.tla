---------------------------- MODULE TraceWriter ----------------------------
(***************************************************************************)
(* Acceptor for C14 over runs recorded from the real code (runs.ndjson).    *)
(* One record per Convert / Render call with a fault-injecting destination: *)
(*   writes  = the calls the destination received, in order, each           *)
(*             <<offered n, accepted m, contentOk, failed>> where contentOk *)
(*             says the offered bytes equal the fault-free output at the    *)
(*             offset reached so far (harness compares the bytes);          *)
(*   total   = length of the fault-free output;                             *)
(*   retNil / retIs = the returned error is nil / errors.Is the sentinel;   *)
(*   panicked.                                                              *)
(* The judgement replays the writes on the state (acc, failed) of           *)
(* Writer.tla's underlying writer and evaluates the property's clauses.     *)
(***************************************************************************)
EXTENDS Integers, Sequences, TLC, Json, IOUtils
Runs == ndJsonDeserialize("runs.ndjson")
VARIABLES l, bad

RECURSIVE Replay(_, _, _, _)
\* returns <<ok, acc, failed>>
Replay(ws, i, acc, failed) ==
  IF i > Len(ws) THEN <<TRUE, acc, failed>>
  ELSE LET w == ws[i] IN
       IF w[3] = 0 \/ w[2] > w[1] THEN <<FALSE, acc, failed>>      \* not a prefix / accepted more than offered
       ELSE Replay(ws, i + 1, acc + w[2], failed \/ (w[4] = 1))

Why(e) ==
  LET r == Replay(e.writes, 1, 0, FALSE) IN
  IF e.panicked THEN "panic"
  ELSE IF ~r[1] THEN "accepted-bytes-not-a-prefix"
  ELSE IF r[3] /\ e.retNil THEN "failure-reported-as-success"
  ELSE IF r[3] /\ ~e.retIs THEN "error-does-not-wrap-the-writers-error"
  ELSE IF ~r[3] /\ ~e.retNil THEN "error-without-writer-failure"
  ELSE IF ~r[3] /\ r[2] # e.total THEN "output-incomplete"
  ELSE "ok"

PInit == l = 1 /\ bad = <<>>
PNext == /\ l <= Len(Runs) /\ l' = l + 1
         /\ bad' = IF Why(Runs[l]) = "ok" THEN bad ELSE Append(bad, [l |-> l, why |-> Why(Runs[l])])
Report == (l = Len(Runs) + 1) => PrintT(ToJson([done |-> TRUE, consumed |-> l - 1, bad |-> bad]))
=============================================================================
