------------------------------ MODULE Goldmark ------------------------------
(***************************************************************************)
(* Composition (S1 + S3..S5 + S11): ONE conversion - Parse followed by      *)
(* Render on one Markdown instance - as a phase machine over every hook     *)
(* event the library emits, in the order markdown.go / parser.Parse /       *)
(* renderer.Render produce them:                                            *)
(*                                                                          *)
(*   idle -ParseEnter-> pinit -[InitEnter InitStep InitDone]-> -TablesRead->*)
(*   blocks -(Open|Continue|ParaContinue|Close|Discard)*- EndOfInput->      *)
(*   closing -(Close)*-> inlines -(InlineTry)*- ParseReturn(tree)-> parsed  *)
(*   -[RInitEnter RInitDone]- RTablesRead-> render                          *)
(*   -(RenderNode enter/exit)*-> done                                       *)
(*                                                                          *)
(* The detailed protocols of the phases are BlockPhase.tla (open-block      *)
(* list), Once.tla (the two sync.Once initialisations), RenderWalk.tla /    *)
(* Walk.tla (walker); this module fixes how they compose:                   *)
(*  - the block phase is complete before the first inline parser runs, and  *)
(*    no block event follows EndOfInput;                                    *)
(*  - initialisation of parser and renderer happens at most once per        *)
(*    instance and strictly before their tables are read;                   *)
(*  - the render walk is a depth-first walk of EXACTLY the tree Parse       *)
(*    returned (after the AST transformers): the root first, a node only    *)
(*    while its parent is the innermost entered node, children in sibling   *)
(*    order, and at the exit of a node either all of its children or none   *)
(*    of them (SkipChildren) have been entered and exited; the walk ends    *)
(*    with the exit of the root.                                            *)
(* Trace file conv.ndjson: one record per distinct conversion               *)
(*   [evs |-> <<event>>, parent |-> <<parent index of node i (0 for root)>>,*)
(*    kids |-> <<sequence of child indices of node i>>, inited |-> BOOLEAN] *)
(* events are <<name, node>> (node = index in pre-order of the returned     *)
(* tree, 0 if none).  inited = the instance had been used before.           *)
(***************************************************************************)
EXTENDS Integers, Sequences, FiniteSets, TLC, Json, IOUtils

Convs == ndJsonDeserialize("conv.ndjson")
VARIABLES r,        \* conversion being validated
          i,        \* next event
          phase, pinit, rinit,
          stack,    \* entered, not yet exited nodes (innermost last)
          nextKid,  \* per entered node: how many of its children have been entered
          exited,   \* nodes whose exit has been seen
          bad
vars == <<r, i, phase, pinit, rinit, stack, nextKid, exited, bad>>

BlockEvents == {"Open", "Continue", "ParaContinue", "Close", "Discard"}
Flag(why) == bad' = Append(bad, [l |-> r, fn |-> ToString(i), why |-> why])

Reset == /\ phase' = "idle" /\ pinit' = "none" /\ rinit' = "none"
         /\ stack' = <<>> /\ nextKid' = <<>> /\ exited' = {}
Init == r = 1 /\ i = 1 /\ phase = "idle" /\ pinit = "none" /\ rinit = "none"
        /\ stack = <<>> /\ nextKid = <<>> /\ exited = {} /\ bad = <<>>

\* phase transitions; anything else in the current phase is a breach (the event is then skipped)
Step ==
  /\ r <= Len(Convs)
  /\ LET c == Convs[r] IN
     IF i > Len(c.evs)
     THEN \* end of the conversion: it must have ended properly
          /\ (IF phase # "done" THEN Flag("conversion-ended-in-phase-" \o phase) ELSE UNCHANGED bad)
          /\ r' = r + 1 /\ i' = 1 /\ Reset
     ELSE
     LET e == c.evs[i]
         ev == e[1]
         n == e[2]
         N == Len(c.parent)
     IN
     /\ i' = i + 1 /\ r' = r
     /\ CASE ev = "ParseEnter" ->
               IF phase = "idle" THEN phase' = "pinit" /\ UNCHANGED <<pinit, rinit, stack, nextKid, exited, bad>>
               ELSE Flag("parse-entered-twice") /\ UNCHANGED <<phase, pinit, rinit, stack, nextKid, exited>>
          [] ev \in {"InitEnter", "InitStep", "InitDone"} ->
               LET want == CASE ev = "InitEnter" -> "none" [] ev = "InitStep" -> "enter" [] OTHER -> "step"
                   now == CASE ev = "InitEnter" -> "enter" [] ev = "InitStep" -> "step" [] OTHER -> "done"
               IN IF phase = "pinit" /\ pinit = want /\ ~c.inited
                  THEN pinit' = now /\ UNCHANGED <<phase, rinit, stack, nextKid, exited, bad>>
                  ELSE Flag("parser-initialisation-out-of-order-or-repeated") /\ UNCHANGED <<phase, pinit, rinit, stack, nextKid, exited>>
          [] ev = "TablesRead" ->
               IF phase = "pinit" /\ (pinit = "done" \/ (c.inited /\ pinit = "none"))
               THEN phase' = "blocks" /\ UNCHANGED <<pinit, rinit, stack, nextKid, exited, bad>>
               ELSE Flag("parser-tables-read-before-initialisation-completed") /\ phase' = "blocks" /\ UNCHANGED <<pinit, rinit, stack, nextKid, exited>>
          [] ev \in BlockEvents ->
               \* (as observed on the first validated trace: the blocks still open at the end of the input
               \* are closed AFTER the EndOfInput event - phase "closing" admits Close and nothing else)
               IF phase = "blocks" \/ (phase = "closing" /\ ev = "Close") THEN UNCHANGED <<phase, pinit, rinit, stack, nextKid, exited, bad>>
               ELSE Flag("block-event-outside-the-block-phase") /\ UNCHANGED <<phase, pinit, rinit, stack, nextKid, exited>>
          [] ev = "EndOfInput" ->
               IF phase = "blocks" THEN phase' = "closing" /\ UNCHANGED <<pinit, rinit, stack, nextKid, exited, bad>>
               ELSE Flag("second-end-of-input") /\ UNCHANGED <<phase, pinit, rinit, stack, nextKid, exited>>
          [] ev = "InlineTry" ->
               IF phase \in {"closing", "inlines"} THEN phase' = "inlines" /\ UNCHANGED <<pinit, rinit, stack, nextKid, exited, bad>>
               ELSE Flag("inline-parser-before-the-block-phase-ended") /\ UNCHANGED <<phase, pinit, rinit, stack, nextKid, exited>>
          [] ev = "ParseReturn" ->
               IF phase \in {"closing", "inlines"} THEN phase' = "parsed" /\ UNCHANGED <<pinit, rinit, stack, nextKid, exited, bad>>
               ELSE Flag("parse-returned-in-phase-" \o phase) /\ phase' = "parsed" /\ UNCHANGED <<pinit, rinit, stack, nextKid, exited>>
          [] ev \in {"RInitEnter", "RInitDone"} ->
               LET want == IF ev = "RInitEnter" THEN "none" ELSE "enter"
                   now == IF ev = "RInitEnter" THEN "enter" ELSE "done"
               IN IF phase = "parsed" /\ rinit = want /\ ~c.inited
                  THEN rinit' = now /\ UNCHANGED <<phase, pinit, stack, nextKid, exited, bad>>
                  ELSE Flag("renderer-initialisation-out-of-order-or-repeated") /\ UNCHANGED <<phase, pinit, rinit, stack, nextKid, exited>>
          [] ev = "RTablesRead" ->
               IF phase = "parsed" /\ (rinit = "done" \/ (c.inited /\ rinit = "none"))
               THEN phase' = "render" /\ UNCHANGED <<pinit, rinit, stack, nextKid, exited, bad>>
               ELSE Flag("renderer-tables-read-before-initialisation-completed") /\ phase' = "render" /\ UNCHANGED <<pinit, rinit, stack, nextKid, exited>>
          [] ev = "Enter" ->
               IF phase # "render" THEN Flag("node-rendered-outside-the-render-phase") /\ UNCHANGED <<phase, pinit, rinit, stack, nextKid, exited>>
               ELSE IF n < 1 \/ n > N THEN Flag("rendered-node-is-not-in-the-tree-parse-returned") /\ UNCHANGED <<phase, pinit, rinit, stack, nextKid, exited>>
               ELSE IF stack = <<>>
                    THEN IF n = 1 /\ exited = {}
                         THEN stack' = <<1>> /\ nextKid' = <<0>> /\ UNCHANGED <<phase, pinit, rinit, exited, bad>>
                         ELSE Flag("walk-does-not-start-at-the-root") /\ UNCHANGED <<phase, pinit, rinit, stack, nextKid, exited>>
                    ELSE LET top == stack[Len(stack)]
                             k == nextKid[Len(stack)] + 1
                         IN IF k <= Len(c.kids[top]) /\ c.kids[top][k] = n
                            THEN /\ stack' = Append(stack, n)
                                 /\ nextKid' = Append([nextKid EXCEPT ![Len(stack)] = k], 0)
                                 /\ UNCHANGED <<phase, pinit, rinit, exited, bad>>
                            ELSE Flag("entered-node-is-not-the-next-child-of-the-innermost-entered-node") /\ UNCHANGED <<phase, pinit, rinit, stack, nextKid, exited>>
          [] ev = "Exit" ->
               IF phase # "render" \/ stack = <<>> \/ stack[Len(stack)] # n
               THEN Flag("exit-of-a-node-that-is-not-the-innermost-entered-node") /\ UNCHANGED <<phase, pinit, rinit, stack, nextKid, exited>>
               ELSE LET done == nextKid[Len(stack)] IN
                    /\ stack' = SubSeq(stack, 1, Len(stack) - 1)
                    /\ nextKid' = SubSeq(nextKid, 1, Len(nextKid) - 1)
                    /\ exited' = exited \cup {n}
                    /\ phase' = IF Len(stack) = 1 THEN "done" ELSE phase
                    /\ (IF done # 0 /\ done # Len(c.kids[n]) THEN Flag("some-but-not-all-children-rendered") ELSE UNCHANGED bad)
                    /\ UNCHANGED <<pinit, rinit>>
          [] OTHER -> Flag("unknown-event") /\ UNCHANGED <<phase, pinit, rinit, stack, nextKid, exited>>

Report == (r = Len(Convs) + 1) => PrintT(ToJson([done |-> TRUE, consumed |-> r - 1, bad |-> bad]))
\* the walk never holds a node twice and only holds an ancestor chain
StackIsChain == \A k \in 2..Len(stack) : r <= Len(Convs) => Convs[r].parent[stack[k]] = stack[k - 1]
=============================================================================
