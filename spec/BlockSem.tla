------------------------------ MODULE BlockSem ------------------------------
(***************************************************************************)
(* S4 reference semantics of CommonMark 0.31.2 block structure (property    *)
(* C02; model-level theorems for C08 and C09), written from the text of     *)
(* the specification (sections 4.1-4.5, 4.8, 4.9, 5.1-5.3 and the appendix   *)
(* "Phase 1: block structure") and independently of goldmark's parser.      *)
(*                                                                          *)
(* The parser is a state machine over LINES: the state is the stack of open *)
(* blocks (frame 1 = document); action Feed(l) consumes one line in three    *)
(* steps - match the continuation condition of every open block, look for   *)
(* new block starts in the remainder, add the remainder as text (paragraph  *)
(* continuation, lazy continuation, code content).  Every reachable state   *)
(* is a document (the lines fed so far); its prescribed rendering is        *)
(* Render(CloseAll(stack)).                                                 *)
(*                                                                          *)
(* A line is a sequence of one-character strings (no tabs: columns = chars).*)
(* TLC enumerates every document of up to MaxLines lines over a line        *)
(* alphabet and prints [src, html, skip]; the harness converts src with the *)
(* real library and compares (up to the white space the specification's own *)
(* comparison ignores).  skip marks documents whose paragraph text is not   *)
(* literal under the inline rules (two backtick runs in one paragraph).     *)
(*                                                                          *)
(* Looseness of a list is decided from line extents exactly as 5.3 words it:*)
(* items separated by a blank line, or two direct children of an item with  *)
(* a blank line between them (every line that belongs to no block is blank).*)
(***************************************************************************)
EXTENDS Integers, Sequences, FiniteSets, TLC, Json
CONSTANTS MaxLines,   \* documents of 0..MaxLines lines
          AlphaName,  \* which line alphabet
          Emit,       \* print one JSON record per document
          Sim,        \* simulation mode: one random line per step
          Laws        \* evaluate the model-level laws (quote prefix, concatenation) in every state

----------------------------------------------------------------------------
\* characters and lines
At(l, i) == IF i >= 1 /\ i <= Len(l) THEN l[i] ELSE "$"       \* "$" = end of line
RECURSIVE Run(_, _, _)
Run(l, i, c) == IF At(l, i) = c THEN 1 + Run(l, i + 1, c) ELSE 0
\* white space.  A raw line may contain tabs; Expand turns it into one cell per COLUMN: a tab at
\* column c becomes the cell "\t" followed by 3 - (c % 4) cells "\t+" (2.2: tabs are not expanded,
\* but where white space helps to define block structure they behave as if replaced by spaces with a
\* tab stop of 4).  Everything below works on cells; Unexpand gives back characters: a tab whose head
\* cell survives is a tab, left-over "\t+" cells of a partially consumed tab are spaces.
Sp == {" ", "\t", "\t+"}
RECURSIVE SpRun(_, _)
SpRun(l, i) == IF At(l, i) \in Sp THEN 1 + SpRun(l, i + 1) ELSE 0
Ind(l, i) == SpRun(l, i)
RECURSIVE ExpandFrom(_, _, _)
ExpandFrom(raw, i, col) ==
  IF i > Len(raw) THEN <<>>
  ELSE IF raw[i] = "\t" THEN LET w == 4 - (col % 4) IN <<"\t">> \o [k \in 1..(w - 1) |-> "\t+"] \o ExpandFrom(raw, i + 1, col + w)
  ELSE <<raw[i]>> \o ExpandFrom(raw, i + 1, col + 1)
Expand(raw) == ExpandFrom(raw, 1, 0)
RECURSIVE UnexpandFrom(_, _, _)
UnexpandFrom(l, i, afterHead) ==
  IF i > Len(l) THEN <<>>
  ELSE IF l[i] = "\t+" THEN (IF afterHead THEN <<>> ELSE <<" ">>) \o UnexpandFrom(l, i + 1, afterHead)
  ELSE <<l[i]>> \o UnexpandFrom(l, i + 1, l[i] = "\t")
Unexpand(l) == UnexpandFrom(l, 1, FALSE)
HasTab(ls) == \E i \in 1..Len(ls) : \E k \in 1..Len(ls[i]) : ls[i][k] = "\t"
Blank(l, i) == i + Ind(l, i) > Len(l)
Rest(l, i) == IF i > Len(l) THEN <<>> ELSE SubSeq(l, i, Len(l))
Min(a, b) == IF a < b THEN a ELSE b
Max(a, b) == IF a > b THEN a ELSE b
RECURSIVE RTrim(_)
RTrim(l) == IF l # <<>> /\ l[Len(l)] \in Sp THEN RTrim(SubSeq(l, 1, Len(l) - 1)) ELSE l
LTrim(l) == Rest(l, 1 + Ind(l, 1))
Trim(l) == RTrim(LTrim(l))
Digits == {"0", "1", "2", "3", "4", "5", "6", "7", "8", "9"}
DigVal(c) == CASE c = "0" -> 0 [] c = "1" -> 1 [] c = "2" -> 2 [] c = "3" -> 3 [] c = "4" -> 4
               [] c = "5" -> 5 [] c = "6" -> 6 [] c = "7" -> 7 [] c = "8" -> 8 [] c = "9" -> 9
RECURSIVE DigRun(_, _)
DigRun(l, i) == IF At(l, i) \in Digits THEN 1 + DigRun(l, i + 1) ELSE 0
RECURSIVE Num(_, _, _)
Num(l, i, n) == IF n = 0 THEN 0 ELSE Num(l, i, n - 1) * 10 + DigVal(l[i + n - 1])

----------------------------------------------------------------------------
\* blocks and frames share one record shape
\*  k: doc quote list item para h hr fence icode html | a, b: numbers | m: marker character
\*  ch: finished children | text: lines of text / code | s, e: first and last source line
Blk(k, n) == [k |-> k, ch |-> <<>>, text |-> <<>>, a |-> 0, b |-> 0, m |-> "", info |-> <<>>, defs |-> <<>>, occ |-> {}, s |-> n, e |-> n]
Containers == {"doc", "quote", "list", "item"}
Top(st) == st[Len(st)]

RECURSIVE DropBlankTail(_)
DropBlankTail(t) == IF t # <<>> /\ t[Len(t)] = <<>> THEN DropBlankTail(SubSeq(t, 1, Len(t) - 1)) ELSE t

\* 4.7 link reference definitions at the beginning of a paragraph's text (lines without their leading
\* white space): "[label]:" destination [title], the destination on the same or on the next line,
\* the title on the line of the destination or alone on the next one; nothing else on the last line.
TokLen(l, i) == LET RECURSIVE W(_)
                    W(k) == IF At(l, k) \in Sp \cup {"$"} THEN 0 ELSE 1 + W(k + 1)
                IN W(i)
\* position of the "]" that closes a label opened at 1, or 0
LabelEnd(l) == IF At(l, 1) # "[" THEN 0
               ELSE LET cands == {k \in 3..Len(l) : l[k] = "]" /\ \A x \in 2..(k - 1) : l[x] \notin {"[", "]"}} IN
                    IF cands = {} THEN 0 ELSE CHOOSE k \in cands : \A y \in cands : k <= y
\* a title that fills the rest of the line from i: 't'
TitleAt(l, i) == IF At(l, i) = "'" THEN
                   LET cands == {k \in (i + 1)..Len(l) : l[k] = "'"} IN
                   IF cands = {} THEN <<FALSE, <<>>>>
                   ELSE LET k == CHOOSE x \in cands : \A y \in cands : x <= y IN
                        IF Blank(l, k + 1) THEN <<TRUE, SubSeq(l, i + 1, k - 1)>> ELSE <<FALSE, <<>>>>
                 ELSE <<FALSE, <<>>>>
\* destination (and title) from position i of line n of t; [ok, used = number of lines consumed from line n on, dest, title]
DestFrom(t, n, i) ==
  LET l == t[n]
      j == i + Ind(l, i)
      w == TokLen(l, j)
      dest == SubSeq(l, j, j + w - 1)
      k == j + w + Ind(l, j + w)
      No == [ok |-> FALSE, used |-> 0, dest |-> <<>>, title |-> <<>>]
  IN IF w = 0 \/ At(l, j) = "<" THEN No
     ELSE IF k > Len(l)                                       \* the destination ends its line
          THEN IF n < Len(t) /\ TitleAt(t[n + 1], 1 + Ind(t[n + 1], 1))[1]
               THEN [ok |-> TRUE, used |-> 2, dest |-> dest, title |-> TitleAt(t[n + 1], 1 + Ind(t[n + 1], 1))[2]]
               ELSE [ok |-> TRUE, used |-> 1, dest |-> dest, title |-> <<>>]
          ELSE IF Ind(l, j + w) >= 1 /\ TitleAt(l, k)[1] THEN [ok |-> TRUE, used |-> 1, dest |-> dest, title |-> TitleAt(l, k)[2]]
          ELSE No
RECURSIVE StripDefs(_)
StripDefs(t) ==
  IF t = <<>> THEN [defs |-> <<>>, rest |-> <<>>]
  ELSE LET l == t[1]
           e == LabelEnd(l)
           stop == [defs |-> <<>>, rest |-> t]
       IN IF e = 0 \/ At(l, e + 1) # ":" \/ \A x \in 2..(e - 1) : l[x] \in Sp THEN stop
          ELSE LET label == SubSeq(l, 2, e - 1)
                   d == IF Blank(l, e + 2)
                        THEN (IF Len(t) >= 2 THEN LET d2 == DestFrom(t, 2, 1) IN [d2 EXCEPT !.used = IF d2.ok THEN @ + 1 ELSE 0]
                              ELSE [ok |-> FALSE, used |-> 0, dest |-> <<>>, title |-> <<>>])
                        ELSE DestFrom(t, 1, e + 2)
               IN IF ~d.ok THEN stop
                  ELSE LET more == StripDefs(SubSeq(t, d.used + 1, Len(t))) IN
                       [defs |-> <<[label |-> label, dest |-> d.dest, title |-> d.title]>> \o more.defs, rest |-> more.rest]

\* finalisation: a container ends where its last child ends; an indented code block loses its trailing
\* blank lines; a paragraph loses its leading link reference definitions
Fin(f) == IF f.k \in Containers /\ f.ch # <<>> THEN [f EXCEPT !.e = Max(f.e, f.ch[Len(f.ch)].e)]
          ELSE IF f.k = "icode" THEN [f EXCEPT !.text = DropBlankTail(f.text)]
          ELSE IF f.k = "para" THEN LET r == StripDefs(f.text) IN [f EXCEPT !.text = r.rest, !.defs = @ \o r.defs]
          ELSE f
\* closing the innermost open block: it joins its parent's children (a paragraph that consisted of
\* definitions only disappears) and hands the definitions found in it upwards, in document order
Pop(st) == LET n == Len(st)
               f == Fin(st[n])
               gone == f.k = "para" /\ f.text = <<>>
           IN [i \in 1..(n - 1) |->
                 IF i = n - 1 THEN [st[i] EXCEPT !.ch = IF gone THEN @ ELSE Append(@, [f EXCEPT !.defs = <<>>, !.occ = {}]),
                                                 !.defs = @ \o f.defs,
                                                 \* the lines of a paragraph that disappears are not blank lines (5.3 counts blank lines)
                                                 !.occ = @ \cup f.occ \cup (IF gone THEN f.s..f.e ELSE {}),
                                                 \* remember that a list item held such a paragraph (see Ambig)
                                                 !.b = IF gone /\ st[i].k = "item" THEN 1 ELSE @]
                 ELSE st[i]]
RECURSIVE CloseTo(_, _)
CloseTo(st, m) == IF Len(st) > m THEN CloseTo(Pop(st), m) ELSE st
CanContain(pk, ck) == IF pk = "list" THEN ck = "item" ELSE pk \in {"doc", "quote", "item"} /\ ck # "item"
RECURSIVE Push(_, _)
Push(st, f) == IF CanContain(Top(st).k, f.k) THEN Append(st, f) ELSE Push(Pop(st), f)
SetTop(st, f) == [st EXCEPT ![Len(st)] = f]

----------------------------------------------------------------------------
\* step 1: continuation conditions of the open blocks, outermost first (5.1, 5.2, 4.4, 4.5, 4.8)
Res(m, pos, cf) == [m |-> m, pos |-> pos, closeFence |-> cf]
RECURSIVE Match(_, _, _, _)
Match(st, l, i, pos) ==
  IF i > Len(st) THEN Res(Len(st), pos, FALSE)
  ELSE LET f == st[i]
           ind == Ind(l, pos)
           j == pos + ind
       IN
    CASE f.k = "quote" ->
           IF ind <= 3 /\ At(l, j) = ">" THEN Match(st, l, i + 1, IF At(l, j + 1) \in Sp THEN j + 2 ELSE j + 1)
           ELSE Res(i - 1, pos, FALSE)
      [] f.k = "list" -> Match(st, l, i + 1, pos)
      [] f.k = "item" ->
           IF Blank(l, pos)
           THEN IF f.ch = <<>> /\ i = Len(st) THEN Res(i - 1, pos, FALSE)   \* an item begins with at most one blank line
                ELSE Match(st, l, i + 1, pos)
           ELSE IF ind >= f.a THEN Match(st, l, i + 1, pos + f.a) ELSE Res(i - 1, pos, FALSE)
      [] f.k = "para" -> IF Blank(l, pos) THEN Res(i - 1, pos, FALSE) ELSE Res(i, pos, FALSE)
      [] f.k = "fence" ->
           LET r == Run(l, j, f.m) IN
           IF ind <= 3 /\ r >= f.a /\ Blank(l, j + r) THEN Res(i, pos, TRUE)
           ELSE Res(i, pos + Min(ind, f.b), FALSE)
      [] f.k = "html" -> IF f.a >= 6 /\ Blank(l, pos) THEN Res(i - 1, pos, FALSE) ELSE Res(i, pos, FALSE)   \* 4.6: types 6, 7 end at a blank line
      [] f.k = "icode" ->
           IF ind >= 4 THEN Res(i, pos + 4, FALSE)
           ELSE IF Blank(l, pos) THEN Res(i, pos + ind, FALSE)
           ELSE Res(i - 1, pos, FALSE)

----------------------------------------------------------------------------
\* step 2: block starts
IsHr(l, j) == /\ At(l, j) \in {"-", "*", "_"}
              /\ \A i \in j..Len(l) : l[i] \in {l[j]} \cup Sp
              /\ Cardinality({i \in j..Len(l) : l[i] = l[j]}) >= 3
IsSetextLine(l, j) == /\ At(l, j) \in {"=", "-"}
                      /\ Blank(l, j + Run(l, j, l[j]))
NoBacktick(l, i) == \A x \in i..Len(l) : l[x] # "`"
\* ATX content: leading/trailing spaces and an optional closing sequence removed (4.2)
AtxContent(t0) == LET t == Trim(t0)
                      RECURSIVE TrailHash(_)
                      TrailHash(x) == IF x # <<>> /\ x[Len(x)] = "#" THEN 1 + TrailHash(SubSeq(x, 1, Len(x) - 1)) ELSE 0
                      k == TrailHash(t)
                  IN IF k = 0 THEN t
                     ELSE IF k = Len(t) THEN <<>>
                     ELSE IF t[Len(t) - k] \in Sp THEN RTrim(SubSeq(t, 1, Len(t) - k)) ELSE t
FirstWord(t) == LET RECURSIVE W(_)
                    W(i) == IF At(t, i) \in Sp \cup {"$"} THEN 0 ELSE 1 + W(i + 1)
                IN SubSeq(t, 1, W(1))

\* 4.6 HTML blocks.  Tag names are single line elements ("div", "pre", "em"); the start condition
\* number of the line that begins at j, 0 if none
Type1Names == {"pre", "script", "style", "textarea"}
BlockNames == {"div", "p", "table", "ul", "h1", "blockquote"}
OtherNames == {"em", "span", "x"}
HtmlType(l, j) ==
  IF At(l, j) # "<" THEN 0
  ELSE IF At(l, j + 1) \in Type1Names /\ At(l, j + 2) \in Sp \cup {">", "$"} THEN 1
  ELSE IF At(l, j + 1) = "!" /\ At(l, j + 2) = "-" /\ At(l, j + 3) = "-" THEN 2
  ELSE IF At(l, j + 1) = "?" THEN 3
  ELSE IF At(l, j + 1) = "!" /\ At(l, j + 2) \in {"X"} THEN 4
  ELSE IF At(l, j + 1) = "!" /\ At(l, j + 2) = "[CDATA[" THEN 5
  ELSE IF At(l, j + 1) \in BlockNames /\ (At(l, j + 2) \in Sp \cup {">", "$"} \/ (At(l, j + 2) = "/" /\ At(l, j + 3) = ">")) THEN 6
  ELSE IF At(l, j + 1) = "/" /\ At(l, j + 2) \in BlockNames /\ At(l, j + 3) \in Sp \cup {">", "$"} THEN 6
  ELSE IF At(l, j + 1) \in OtherNames \cup BlockNames /\ At(l, j + 2) = ">" /\ Blank(l, j + 3) THEN 7
  ELSE IF At(l, j + 1) \in OtherNames /\ At(l, j + 2) = "/" /\ At(l, j + 3) = ">" /\ Blank(l, j + 4) THEN 7
  ELSE IF At(l, j + 1) = "/" /\ At(l, j + 2) \in OtherNames /\ At(l, j + 3) = ">" /\ Blank(l, j + 4) THEN 7   \* not pre, script, style, textarea
  ELSE 0
\* end condition of types 1-5: the line contains the end marker anywhere from position i on
HtmlEnds(l, i, t) ==
  \E x \in i..Len(l) :
     CASE t = 1 -> l[x] = "<" /\ At(l, x + 1) = "/" /\ At(l, x + 2) \in Type1Names /\ At(l, x + 3) = ">"
       [] t = 2 -> l[x] = "-" /\ At(l, x + 1) = "-" /\ At(l, x + 2) = ">"
       [] t = 3 -> l[x] = "?" /\ At(l, x + 1) = ">"
       [] t = 4 -> l[x] = ">"
       [] t = 5 -> l[x] = "]" /\ At(l, x + 1) = "]" /\ At(l, x + 2) = ">"
       [] OTHER -> FALSE

\* c = [st, cont, pos, started, done]: cont = index of the last matched / newest container frame;
\* frames above cont are unmatched and still open until a block start closes them.
RECURSIVE Starts(_, _, _)
Starts(c, l, n) ==
  LET pos == c.pos
      ind == Ind(l, pos)
      j == pos + ind
      x == At(l, j)
      contK == c.st[c.cont].k
      closed == CloseTo(c.st, c.cont)
      hashes == Run(l, j, "#")
      fl == Run(l, j, x)
      ht == HtmlType(l, j)
      digs == DigRun(l, j)
      isBullet == x \in {"-", "+", "*"}
      isOrd == digs >= 1 /\ digs <= 9 /\ At(l, j + digs) \in {".", ")"}
      mlen == IF isBullet THEN 1 ELSE digs + 1
      mtype == IF isBullet THEN x ELSE At(l, j + digs)
      startNo == IF isBullet THEN 0 ELSE Num(l, j, digs)
      after == j + mlen
      sp == Ind(l, after)
      emptyItem == Blank(l, after)
  IN
  IF ind >= 4 THEN
       IF Top(c.st).k # "para" /\ ~Blank(l, pos)            \* 4.4: an indented code block cannot interrupt a paragraph
       THEN [c EXCEPT !.st = Push(closed, [Blk("icode", n) EXCEPT !.text = <<Rest(l, pos + 4)>>]), !.done = TRUE]
       ELSE c
  ELSE IF x = ">" THEN                                       \* 5.1
       LET st2 == Push(closed, Blk("quote", n)) IN
       Starts([c EXCEPT !.st = st2, !.cont = Len(st2), !.pos = IF At(l, j + 1) \in Sp THEN j + 2 ELSE j + 1, !.started = TRUE], l, n)
  ELSE IF x = "#" /\ hashes <= 6 /\ At(l, j + hashes) \in Sp \cup {"$"} THEN   \* 4.2
       [c EXCEPT !.st = Pop(Push(closed, [Blk("h", n) EXCEPT !.a = hashes, !.text = <<AtxContent(Rest(l, j + hashes))>>])), !.done = TRUE]
  ELSE IF x \in {"`", "~"} /\ fl >= 3 /\ (x = "~" \/ NoBacktick(l, j + fl)) THEN   \* 4.5
       [c EXCEPT !.st = Push(closed, [Blk("fence", n) EXCEPT !.a = fl, !.b = ind, !.m = x, !.info = Trim(Rest(l, j + fl))]), !.done = TRUE]
  ELSE IF ht >= 1 /\ (ht <= 6 \/ (contK # "para" /\ ~(~c.started /\ c.cont < Len(c.st) /\ Top(c.st).k = "para"))) THEN   \* 4.6: type 7 cannot interrupt a paragraph
       LET blk == [Blk("html", n) EXCEPT !.a = ht, !.text = <<Rest(l, pos)>>, !.b = IF ht <= 5 /\ HtmlEnds(l, j, ht) THEN 1 ELSE 0]
           st2 == Push(closed, blk)
       IN [c EXCEPT !.st = IF blk.b = 1 THEN Pop(st2) ELSE st2, !.done = TRUE]
  ELSE IF contK = "para" /\ IsSetextLine(l, j) /\ StripDefs(Top(c.st).text).rest # <<>> THEN
       \* 4.3: only a paragraph that continues (not a lazy one), and not one that consists of link reference definitions only
       LET r == StripDefs(Top(c.st).text) IN
       [c EXCEPT !.st = Pop(SetTop(c.st, [Top(c.st) EXCEPT !.k = "h", !.a = IF x = "=" THEN 1 ELSE 2, !.e = n, !.text = r.rest, !.defs = @ \o r.defs])), !.done = TRUE]
  ELSE IF IsHr(l, j) THEN                                    \* 4.1
       [c EXCEPT !.st = Pop(Push(closed, Blk("hr", n))), !.done = TRUE]
  ELSE IF (isBullet \/ isOrd) /\ At(l, after) \in Sp \cup {"$"}
          /\ (contK = "para" => (~emptyItem /\ (isBullet \/ startNo = 1)))   \* 5.2: interrupting a paragraph
       THEN
       LET wide == emptyItem \/ sp >= 5
           padding == IF wide THEN mlen + 1 ELSE mlen + sp
           newpos == IF wide THEN (IF At(l, after) \in Sp THEN after + 1 ELSE after) ELSE after + sp
           item == [Blk("item", n) EXCEPT !.a = ind + padding]
           sameList == contK = "list" /\ c.st[c.cont].m = mtype
           st2 == IF sameList THEN Push(closed, item)
                  ELSE Push(Push(closed, [Blk("list", n) EXCEPT !.m = mtype, !.a = startNo, !.b = IF isBullet THEN 0 ELSE 1]), item)
       IN Starts([c EXCEPT !.st = st2, !.cont = Len(st2), !.pos = newpos, !.started = TRUE], l, n)
  ELSE c

----------------------------------------------------------------------------
\* one line
MarkQuotes(st, m, n) == [i \in 1..Len(st) |-> IF i <= m /\ st[i].k = "quote" THEN [st[i] EXCEPT !.e = n] ELSE st[i]]

Feed(st0, raw, n) ==
  LET l == Expand(raw)
      r == Match(st0, l, 2, 1)
      st == MarkQuotes(st0, r.m, n)
      top == Top(st)
      leafMatched == r.m = Len(st) /\ top.k \in {"fence", "icode", "html"}
  IN
  IF leafMatched THEN
       IF r.closeFence THEN Pop(SetTop(st, [top EXCEPT !.e = n]))
       ELSE IF top.k = "fence" THEN SetTop(st, [top EXCEPT !.text = Append(@, Rest(l, r.pos)), !.e = n])
       ELSE IF top.k = "html" THEN
            LET t2 == [top EXCEPT !.text = Append(@, Rest(l, r.pos)), !.e = n] IN
            IF top.a <= 5 /\ HtmlEnds(l, r.pos, top.a) THEN Pop(SetTop(st, [t2 EXCEPT !.b = 1])) ELSE SetTop(st, t2)
       ELSE IF Blank(l, r.pos) THEN SetTop(st, [top EXCEPT !.text = Append(@, <<>>)])
       ELSE SetTop(st, [top EXCEPT !.text = Append(@, Rest(l, r.pos)), !.e = n])
  ELSE
  LET c == Starts([st |-> st, cont |-> r.m, pos |-> r.pos, started |-> FALSE, done |-> FALSE], l, n)
      txt == RTrim(Rest(l, c.pos + Ind(l, c.pos)))
  IN
  IF c.done THEN c.st
  ELSE IF ~c.started /\ c.cont < Len(c.st) /\ ~Blank(l, c.pos) /\ Top(c.st).k = "para"
       THEN SetTop(c.st, [Top(c.st) EXCEPT !.text = Append(@, txt), !.e = n])          \* lazy continuation line (5.1, 5.2)
  ELSE
  LET st2 == CloseTo(c.st, c.cont)
      t2 == Top(st2)
  IN IF t2.k = "para" THEN SetTop(st2, [t2 EXCEPT !.text = Append(@, txt), !.e = n])   \* paragraph continuation text
     ELSE IF Blank(l, c.pos) THEN st2
     ELSE Push(st2, [Blk("para", n) EXCEPT !.text = <<txt>>])

RECURSIVE FeedAll(_, _, _)
FeedAll(st, ls, n) == IF ls = <<>> THEN st ELSE FeedAll(Feed(st, Head(ls), n), Tail(ls), n + 1)
Start == <<Blk("doc", 0)>>
Parse(ls) == Fin(CloseTo(FeedAll(Start, ls, 1), 1)[1])

----------------------------------------------------------------------------
\* rendering (the HTML the specification's examples use; white space between block tags is immaterial)
RECURSIVE Join(_)
Join(ss) == IF ss = <<>> THEN "" ELSE Head(ss) \o Join(Tail(ss))
Esc(c) == CASE c = ">" -> "&gt;" [] c = "<" -> "&lt;" [] c = "&" -> "&amp;" [] c = "\"" -> "&quot;" [] OTHER -> c
EscLine(cells) == LET l == Unexpand(cells) IN Join([i \in 1..Len(l) |-> Esc(l[i])])
\* destinations are percent-encoded outside the URL-safe characters (as both reference implementations do)
UrlEsc(c) == CASE c = "[" -> "%5B" [] c = "]" -> "%5D" [] c = "`" -> "%60" [] c = ">" -> "%3E" [] c = "<" -> "%3C" [] c = "\"" -> "%22" [] c = "&" -> "&amp;" [] OTHER -> c
UrlLine(l) == Join([i \in 1..Len(l) |-> UrlEsc(l[i])])
\* inline content: text, and shortcut reference links [label] for the labels defined in the document
\* (6.3; the first definition of a label wins)
Defined(refs, label) == \E k \in 1..Len(refs) : refs[k].label = label
RefOf(refs, label) == refs[CHOOSE k \in 1..Len(refs) : refs[k].label = label /\ \A y \in 1..(k - 1) : refs[y].label # label]
RECURSIVE InlineFrom(_, _, _)
InlineFrom(l, i, refs) ==
  IF i > Len(l) THEN ""
  ELSE LET e == LabelEnd(Rest(l, i)) IN
       IF l[i] = "[" /\ e > 0 /\ Defined(refs, SubSeq(l, i + 1, i + e - 2)) /\ At(l, i + e) \notin {"[", "("}
       THEN LET rf == RefOf(refs, SubSeq(l, i + 1, i + e - 2)) IN
            "<a href=\"" \o UrlLine(rf.dest) \o "\"" \o (IF rf.title = <<>> THEN "" ELSE " title=\"" \o EscLine(rf.title) \o "\"") \o ">"
            \o EscLine(rf.label) \o "</a>" \o InlineFrom(l, i + e, refs)
       ELSE Esc(l[i]) \o InlineFrom(l, i + 1, refs)
InlineLine(cells, env) == InlineFrom(Unexpand(cells), 1, env.defs)
RECURSIVE JoinLines(_, _)
JoinLines(t, refs) == IF t = <<>> THEN "" ELSE IF Len(t) = 1 THEN InlineLine(t[1], refs) ELSE InlineLine(t[1], refs) \o "\n" \o JoinLines(Tail(t), refs)
RECURSIVE CodeLines(_)
CodeLines(t) == IF t = <<>> THEN "" ELSE EscLine(Head(t)) \o "\n" \o CodeLines(Tail(t))
RECURSIVE RawLines(_)
RawLines(t) == IF t = <<>> THEN "" ELSE IF Len(t) = 1 THEN Join(Unexpand(t[1])) ELSE Join(Unexpand(Head(t))) \o "\n" \o RawLines(Tail(t))
DigStr(n) == CASE n = 0 -> "0" [] n = 1 -> "1" [] n = 2 -> "2" [] n = 3 -> "3" [] n = 4 -> "4" [] n = 5 -> "5"
               [] n = 6 -> "6" [] n = 7 -> "7" [] n = 8 -> "8" [] n = 9 -> "9"
RECURSIVE NumStr(_)
NumStr(n) == IF n < 10 THEN DigStr(n) ELSE NumStr(n \div 10) \o DigStr(n % 10)

\* 5.3
\* a blank line lies between x and y: a line after x and before y that belongs to no block
\* (lines of a paragraph that consisted of definitions only are occupied)
Gap(x, y, occ) == \E n \in (x.e + 1)..(y.s - 1) : n \notin occ
Loose(b, occ) == \E i \in 1..Len(b.ch) :
              \/ i < Len(b.ch) /\ Gap(b.ch[i], b.ch[i + 1], occ)
              \/ \E j \in 1..(Len(b.ch[i].ch) - 1) : Gap(b.ch[i].ch[j], b.ch[i].ch[j + 1], occ)

\* The renderer of the reference implementation: a sequence of pieces, CR = "a line ending unless the
\* output already ends in one" (cr() of commonmark.js); P(s) is text that does not end in a line ending.
CR == [s |-> "", cr |-> TRUE]
P(str) == [s |-> str, cr |-> FALSE]
RECURSIVE Flat(_)
Flat(ss) == IF ss = <<>> THEN <<>> ELSE Head(ss) \o Flat(Tail(ss))
RECURSIVE Html(_, _, _)
HtmlBlk(b, tight, refs) ==
  CASE b.k = "para" -> IF tight THEN <<P(JoinLines(b.text, refs))>> ELSE <<CR, P("<p>" \o JoinLines(b.text, refs) \o "</p>"), CR>>
    [] b.k = "h" -> <<CR, P("<h" \o DigStr(b.a) \o ">" \o JoinLines(b.text, refs) \o "</h" \o DigStr(b.a) \o ">"), CR>>
    [] b.k = "hr" -> <<CR, P("<hr />"), CR>>
    [] b.k = "icode" -> <<CR, P("<pre><code>" \o CodeLines(b.text) \o "</code></pre>"), CR>>
    [] b.k = "fence" -> <<CR, P((IF b.info = <<>> THEN "<pre><code>" ELSE "<pre><code class=\"language-" \o EscLine(FirstWord(b.info)) \o "\">")
                         \o CodeLines(b.text) \o "</code></pre>"), CR>>
    [] b.k = "html" -> <<CR, P(RawLines(b.text)), CR>>
    [] b.k = "quote" -> <<CR, P("<blockquote>"), CR>> \o Html(b.ch, FALSE, refs) \o <<CR, P("</blockquote>"), CR>>
    [] b.k = "list" -> LET t == ~Loose(b, refs.occ)
                           open == IF b.b = 0 THEN "<ul>" ELSE IF b.a = 1 THEN "<ol>" ELSE "<ol start=\"" \o NumStr(b.a) \o "\">"
                       IN <<CR, P(open), CR>>
                          \o Flat([i \in 1..Len(b.ch) |-> <<P("<li>")>> \o Html(b.ch[i].ch, t, refs) \o <<P("</li>"), CR>>])
                          \o <<CR, P(IF b.b = 0 THEN "</ul>" ELSE "</ol>"), CR>>
Html(bs, tight, refs) == Flat([i \in 1..Len(bs) |-> HtmlBlk(bs[i], tight, refs)])
\* pieces -> text; nl = the text so far ends in a line ending (or is empty)
RECURSIVE Out(_, _)
Out(ps, nl) == IF ps = <<>> THEN ""
               ELSE IF Head(ps).cr THEN (IF nl THEN "" ELSE "\n") \o Out(Tail(ps), TRUE)
               ELSE Head(ps).s \o Out(Tail(ps), IF Head(ps).s = "" THEN nl ELSE FALSE)
\* d.defs: every definition of the document, in document order; d.occ: lines of vanished paragraphs
Render(d) == Out(Html(d.ch, FALSE, [defs |-> d.defs, occ |-> d.occ]), TRUE)

\* paragraph or heading text that the inline rules would not leave literal: two backtick runs in one text
RECURSIVE Ambig(_)
Ambig(bs) == \E i \in 1..Len(bs) :
   \/ bs[i].k \in {"para", "h"} /\ Cardinality({x \in 1..Len(bs[i].text) : \E y \in 1..Len(bs[i].text[x]) : bs[i].text[x][y] = "`"}) >= 2
   \/ bs[i].k \in {"para", "h"} /\ \E x \in 1..Len(bs[i].text) : \E y \in 1..Len(bs[i].text[x]) : bs[i].text[x][y] \in {"*", "_", "<", "&", "\\", "!"}
   \/ bs[i].k = "html" /\ bs[i].a <= 5 /\ bs[i].b = 0 /\ bs[i].text[Len(bs[i].text)] = <<>>   \* unclosed, ends in a blank line: the reference implementations disagree on looseness
   \/ bs[i].k = "item" /\ bs[i].b = 1 /\ bs[i].ch # <<>>   \* an item that held a definitions-only paragraph next to other blocks: whether the blank line beside it makes the list loose is read differently (the definition is a leaf block of the item in 4.7, invisible to both reference implementations)
   \/ bs[i].k \in Containers /\ Ambig(bs[i].ch)

----------------------------------------------------------------------------
\* line alphabets: pieces are concatenated (prefix, prefix, body); no line ends in a space
Tab == <<"\t">>
DefA == <<"[", "a", "]", ":", " ", "/", "u">>
DefA2 == <<"[", "a", "]", ":", " ", "/", "v">>
DefB == <<"[", "b", "]", ":", " ", "/", "w">>
LabA == <<"[", "a", "]", ":">>
DestU == <<"/", "u">>
TitleT == <<"'", "t", "'">>
UseA == <<"[", "a", "]">>
S1 == <<" ">>
S2 == <<" ", " ">>
S3 == <<" ", " ", " ">>
S4 == <<" ", " ", " ", " ">>
Gt == <<">">>
GtS == <<">", " ">>
Bul == <<"-", " ">>
BulBare == <<"-">>
Plus == <<"+", " ">>
Ord == <<"1", ".", " ">>
Ord2 == <<"2", ".", " ">>
OrdP == <<"1", ")", " ">>
Wa == <<"a">>
Wb == <<"b">>
Dash3 == <<"-", "-", "-">>
Eq3 == <<"=", "=", "=">>
Eq1 == <<"=">>
HashA == <<"#", " ", "a">>
Hash == <<"#">>
Fence == <<"`", "`", "`">>
Fence4 == <<"`", "`", "`", "`">>
Tilde == <<"~", "~", "~">>
FenceInfo == <<"`", "`", "`", "a">>
BulWide == <<"-", " ", " ", " ", " ", " ", "a">>   \* marker + 5 spaces: item holding an indented code block
Bul2 == <<"-", " ", " ", " ">>                      \* marker + 3 spaces: wide content offset

Cat(P1, P2, B) == {p1 \o p2 \o b : p1 \in P1, p2 \in P2, b \in B}
NoTrail(L) == {l \in L : l = <<>> \/ l[Len(l)] \notin Sp}

Alphabet ==
  CASE AlphaName = "tiny"  -> NoTrail(Cat({<<>>}, {<<>>, GtS, Bul, S2}, {<<>>, Wa, Dash3}))
    [] AlphaName = "small" -> NoTrail(Cat({<<>>}, {<<>>, Gt, GtS, Bul, Ord, S2, S4}, {<<>>, Wa, Dash3, HashA, Fence}))
                              \cup {BulBare, Eq3, Gt \o S4 \o Wa}
    [] AlphaName = "lists" -> NoTrail(Cat({<<>>, S2, S3}, {<<>>, Bul, Plus, Ord, Ord2, S1, S2}, {<<>>, Wa, Dash3}))
                              \cup {BulBare, BulWide, Bul2 \o Wa, S4 \o Wa, S4 \o S2 \o Wa, OrdP \o Wa}
    [] AlphaName = "quotes" -> NoTrail(Cat({<<>>, Gt, GtS}, {<<>>, Gt, GtS, Bul, S2, S4}, {<<>>, Wa, Dash3, Eq3, Fence, HashA}))
    [] AlphaName = "leaves" -> NoTrail(Cat({<<>>, GtS, Bul}, {<<>>, S1, S3, S4}, {<<>>, Wa, Wb, Dash3, Eq1, Eq3, Hash, HashA, Fence, Fence4, Tilde, FenceInfo,
                                             <<"#", "a">>, <<"#", " ", "a", " ", "#">>, <<"-", " ", "-", " ", "-">>, <<"-", "-">>, <<"*", "*", "*">>}))
    [] AlphaName = "html"  -> NoTrail(Cat({<<>>}, {<<>>, GtS, Bul, S2, S4}, {<<>>, Wa, Dash3, <<"<", "div", ">">>, <<"<", "/", "div", ">">>, <<"<", "!", "-", "-">>, <<"-", "-", ">">>,
                                             <<"<", "em", ">">>, <<"<", "pre", ">">>, <<"<", "/", "pre", ">">>, <<"<", "?">>, <<"?", ">">>, <<"<", "!", "-", "-", " ", "a", " ", "-", "-", ">">>,
                                             <<"<", "div">>, <<"<", "/", "em", ">">>, <<"<", "div", ">", "a">>, <<"<", "em", ">", "a">>,
                                             <<"<", "pre", ">", "a", "<", "/", "pre", ">">>, <<"<", "!", "X">>, <<"<", "!", "X", " ", "a", ">">>, <<"<", "!", "[CDATA[">>, <<"]", "]", ">">>, <<"a", ">">>}))
    [] AlphaName = "tabs"  -> NoTrail(Cat({<<>>, Gt, GtS, Bul, BulBare, Ord, S1, S2}, {<<>>, Tab, Tab \o Tab, S1 \o Tab, S2 \o Tab},
                                          {<<>>, Wa, Bul \o Wa, BulBare \o Tab \o Wa, Dash3, Fence, HashA, <<"#">> \o Tab \o Wa, Gt \o Wa, Ord \o Wa, <<"1", ".">> \o Tab \o Wa, Tab \o Wa}))
    [] AlphaName = "tabs2" -> NoTrail(Cat({<<>>, GtS, Bul, Bul \o Bul, S2}, {<<>>, Tab, S1 \o Tab, S3 \o Tab, Tab \o S1}, {<<>>, Wa, Bul \o Wa, BulBare \o Tab \o Wa, Fence, Tab \o Wa, Gt \o Tab \o Wa}))
    [] AlphaName = "refs"  -> NoTrail(Cat({<<>>}, {<<>>, GtS, Bul, S2, S4}, {<<>>, Wa, DefA, DefA2, LabA, DestU, TitleT, UseA, Eq3, Dash3, HashA \o S1 \o UseA, DefB \o S1 \o TitleT}))
    [] AlphaName = "fencetabs" -> {GtS \o Fence, Gt \o Tab \o Fence, Gt \o Tab \o Wa, GtS \o Wa, Wa, <<>>, Fence, Tab \o Fence, Gt \o Tab \o Tab \o Wa,
                                   BulBare \o Tab \o Fence, Bul \o Fence, S2 \o Tab \o Fence, S4 \o Gt \o Tab \o Fence, Gt, HashA}
    [] AlphaName = "scaled" -> {}
    [] AlphaName = "wide"  -> NoTrail(Cat({<<>>, Gt, GtS, Bul, Ord, S2, S3, S4}, {<<>>, Gt, GtS, Bul, Plus, Ord, Ord2, S1, S2, S4},
                                          {<<>>, Wa, Dash3, Eq3, Hash, HashA, Fence, Tilde, FenceInfo, BulBare}))
                              \cup {BulWide, Bul2 \o Wa, OrdP \o Wa}

----------------------------------------------------------------------------
VARIABLES doc, st,
          plan   \* scaled documents only: <<pattern, repetitions, tail>> still to be written (else <<>>)
vars == <<doc, st, plan>>

HtmlOf(stack) == Render(Fin(CloseTo(stack, 1)[1]))
Src(ls) == Join([i \in 1..Len(ls) |-> Join(ls[i]) \o "\n"])

\* scaled documents (AlphaName = "scaled", MaxLines = 0): a line pattern repeated n times for every n around
\* the sizes at which an implementation's per-line bookkeeping changes (128, 256), then a short tail whose
\* rendering depends on what the parser remembers about the previous line (loose / tight lists, lazy lines)
Rep(seq, n) == [i \in 1..(n * Len(seq)) |-> seq[((i - 1) % Len(seq)) + 1]]
ScaledPatterns == {<<Wa>>, <<Bul \o Wa>>, <<GtS \o Wa>>, <<Bul \o Wa, S2 \o Bul \o Wb>>, <<Ord \o Wa>>}
ScaledSizes == IF MaxLines = 0 THEN {42, 43, 63, 64} \cup (125..129) \cup (254..256)            \* quick
               ELSE (20..22) \cup (40..45) \cup (60..66) \cup (120..130) \cup (250..258)         \* thorough (MaxLines = -1)
ScaledTails == {<<<<>>, Bul \o Wa, <<>>, Bul \o Wb>>, <<<<>>, Bul \o Wa, <<>>, S2 \o Wb>>, <<<<>>, Bul \o Wa, Bul \o Wb>>,
                <<<<>>, Ord \o Wa, S2 \o S1 \o Bul \o Wa, <<>>, S2 \o S1 \o Bul \o Wb>>, <<<<>>, GtS \o Bul \o Wa, Gt, GtS \o Bul \o Wb>>}
ScaledPlans == {<<p, n, t>> : p \in ScaledPatterns, n \in ScaledSizes, t \in ScaledTails}
\* (one cheap initial state per plan; the document is written by one step, so that TLC's workers share the work)
Init == /\ doc = <<>> /\ st = Start
        /\ IF AlphaName = "scaled" THEN plan \in ScaledPlans ELSE plan = <<>>
Feedable == IF Sim THEN {RandomElement(Alphabet)} ELSE Alphabet
Next == \/ /\ plan = <<>> /\ Len(doc) < MaxLines
           /\ \E l \in Feedable :
                /\ doc' = Append(doc, l)
                /\ st' = Feed(st, l, Len(doc) + 1)
           /\ UNCHANGED plan
        \/ /\ plan # <<>>
           /\ doc' = Rep(plan[1], plan[2]) \o plan[3]
           /\ st' = FeedAll(Start, doc', 1)
           /\ plan' = <<>>
Spec == Init /\ [][Next]_vars

\* every state is a document
\* For cause analysis in the harness: the same document with every tab that directly follows a list
\* marker, or that belongs to the white space directly before one, written as spaces (same columns).
MarkerEnd == {"-", "+", "*", ".", ")"}
MarkerStart == {"-", "+", "*"} \cup Digits
RECURSIVE NextNonSp(_, _)
NextNonSp(l, i) == IF At(l, i) \in Sp THEN NextNonSp(l, i + 1) ELSE At(l, i)
RECURSIVE HeadOf(_, _)
HeadOf(l, i) == IF l[i] = "\t+" THEN HeadOf(l, i - 1) ELSE i
RECURSIVE PrevNonSp(_, _)
PrevNonSp(l, i) == IF i >= 1 /\ l[i] \in Sp THEN PrevNonSp(l, i - 1) ELSE At(l, i)
Respell(raw) == LET l == Expand(raw) IN
  Unexpand([i \in 1..Len(l) |->
     IF l[i] \in {"\t", "\t+"} /\ (PrevNonSp(l, i) \in MarkerEnd \/ NextNonSp(l, i) \in MarkerStart) THEN " " ELSE l[i]])
SpDoc == [i \in 1..Len(doc) |-> Respell(doc[i])]
QuoteInDest(d) == \E k \in 1..Len(d.defs) : \E x \in 1..Len(d.defs[k].dest) : d.defs[k].dest[x] = "'"
EmitDoc == Emit => PrintT(ToJson([src |-> Src(doc), html |-> HtmlOf(st),
                                  skip |-> (Ambig(Fin(CloseTo(st, 1)[1]).ch) \/ QuoteInDest(Fin(CloseTo(st, 1)[1]))),
                                  open |-> [i \in 1..(Len(st) - 1) |-> st[i + 1].k],   \* the blocks still open after the last line, outermost first
                                  srcsp |-> IF HasTab(doc) /\ SpDoc # doc THEN Src(SpDoc) ELSE "",
                                  htmlsp |-> IF HasTab(doc) /\ SpDoc # doc THEN Render(Parse(SpDoc)) ELSE ""]))

----------------------------------------------------------------------------
\* structural invariants of the open-block stack
StackOK ==
  /\ st[1].k = "doc"
  /\ \A i \in 2..Len(st) :
       /\ CanContain(st[i - 1].k, st[i].k)
       /\ st[i].s <= Len(doc) /\ st[i].e <= Len(doc) /\ st[i].s <= st[i].e
  /\ \A i \in 1..(Len(st) - 1) : st[i].k \in Containers
\* incremental parsing = parsing from scratch (Feed has no hidden state)
Incremental == FeedAll(Start, doc, 1) = st

\* C08 at model level: prefixing every line with "> " wraps the same content in a block quote
NonBlankDoc == \E i \in 1..Len(doc) : ~Blank(doc[i], 1)
QuoteLaw == (Laws /\ NonBlankDoc /\ ~HasTab(doc)) =>
   Render(Parse([i \in 1..Len(doc) |-> GtS \o doc[i]])) = "<blockquote>\n" \o HtmlOf(st) \o "</blockquote>\n"

\* C09 at model level: when every block is closed by a blank line (no open fenced code block or HTML block of types 1-5 at the end),
\* a following document renders independently
EndsClosed(stack) == \A i \in 1..Len(stack) : stack[i].k # "fence" /\ ~(stack[i].k = "html" /\ stack[i].a <= 5)
ConcatLaw == (Laws /\ doc # <<>> /\ EndsClosed(st)) =>
   \A l \in {Wa, HashA, Dash3 \o Dash3} :
      Render(Parse(doc \o <<<<>>, HashA, <<>>, l>>)) = HtmlOf(st) \o "<h1>a</h1>\n" \o Render(Parse(<<l>>))
=============================================================================
