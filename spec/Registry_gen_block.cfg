CONSTANTS
  Probes = {"p1","p2","p3"}
  Ranks = {1,2,3,4,5}
  BuiltinRank = 3
  Class = "block"
  Emit = TRUE
  Mode = "spec"
INIT Init
NEXT Next
INVARIANT ByPriorityAlone
CHECK_DEADLOCK FALSE
