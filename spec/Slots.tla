------------------------------- MODULE Slots -------------------------------
(***************************************************************************)
(* Workload generator shared by C01, C03, C04, C05, C12: the finite product *)
(*   text-bearing SLOT  x  PAYLOAD (one or two payload atoms)  x  ENDING    *)
(* A slot is a place in a document where source text ends up in the output  *)
(* (paragraph, heading, code, link text / destination / title, image alt /  *)
(* source, autolink, table cell, footnote label / body, definition term /   *)
(* description, attribute block key / value / id / class, ...).  Atoms are  *)
(* the bytes that matter for escaping and robustness.  There are no         *)
(* dynamics: every element is one finished state; the module exists so that *)
(* the explored space, its size and its coverage are produced and reported  *)
(* by the same tool as the rest.  The concrete spelling of slots and atoms  *)
(* is a table in the harness (workload.go), indexed by these names.         *)
(***************************************************************************)
EXTENDS Integers, Sequences, FiniteSets, TLC, Json
CONSTANTS Slots, Atoms, PairAtoms, Endings
VARIABLES slot, payload, ending, done
vars == <<slot, payload, ending, done>>
Payloads == {<<a>> : a \in Atoms} \cup {<<a, b>> : a \in PairAtoms, b \in PairAtoms}
Init == slot \in Slots /\ payload \in Payloads /\ ending \in Endings /\ done = FALSE
Emit == /\ ~done /\ done' = TRUE /\ UNCHANGED <<slot, payload, ending>>
        /\ PrintT(ToJson(<<slot, payload, ending>>))
Next == Emit
TypeOK == slot \in Slots /\ Len(payload) \in 1..2
=============================================================================
