--------------------------- MODULE TraceHeadingIDs ---------------------------
(***************************************************************************)
(* Acceptor for C15 over OBSERVED id lists (file obs.ndjson): one record    *)
(* per converted document: ids = the id attribute of every h1..h6 element   *)
(* in output order ("" when the attribute is missing or empty), idsUsed =   *)
(* the same for the conversion of the same document on a long-used          *)
(* instance.  The invariants are the clauses of the statement.              *)
(***************************************************************************)
EXTENDS Integers, Sequences, TLC, Json, IOUtils
Obs == ndJsonDeserialize("obs.ndjson")
VARIABLES l, bad
NonEmpty(ids) == \A i \in 1..Len(ids) : ids[i] # ""
Distinct(ids) == \A i, j \in 1..Len(ids) : i # j => ids[i] # ids[j]
Why(e) == IF ~NonEmpty(e.ids) THEN "missing-or-empty-id"
          ELSE IF ~Distinct(e.ids) THEN "duplicate-id"
          ELSE IF e.idsUsed # e.ids THEN "history-dependent"
          ELSE "ok"
PInit == l = 1 /\ bad = <<>>
PNext == /\ l <= Len(Obs) /\ l' = l + 1
         /\ bad' = IF Why(Obs[l]) = "ok" THEN bad ELSE Append(bad, [l |-> l, why |-> Why(Obs[l])])
Report == (l = Len(Obs) + 1) => PrintT(ToJson([done |-> TRUE, consumed |-> l - 1, bad |-> bad]))
=============================================================================
