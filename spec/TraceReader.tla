---------------------------- MODULE TraceReader ----------------------------
(***************************************************************************)
(* Code -> model trace validation for S7 (C18).  The harness drives real    *)
(* text.Reader / text.BlockReader values with long random call sequences    *)
(* on larger sources and logs every call with its arguments and the reply   *)
(* it OBSERVED.  This monitor replays the log on the cursor model of        *)
(* Reader.tla: the reply of each call must be the one the model gives.      *)
(* A call outside the documented preconditions (the driver does not know    *)
(* how much input remains) ends the judged part of that trace (`dead`):     *)
(* what the reader does afterwards is unspecified.  Monitor style: one TLC  *)
(* run classifies every trace; mismatches are collected in `bad`.           *)
(***************************************************************************)
EXTENDS ReaderMC, IOUtils

Trace == ndJsonDeserialize("trace.ndjson")

VARIABLES l, bad, dead, kind, legal
tvars == <<src, segs, cur, saved, hid, lastPeek, l, bad, dead, kind, legal>>

SegsOf(e) == [i \in 1..Len(e.segs) |-> [start |-> e.segs[i][1], stop |-> e.segs[i][2], pad |-> e.segs[i][3]]]

TInit == /\ l = 1 /\ bad = <<>> /\ dead = TRUE /\ kind = "source" /\ legal = 0
         /\ src = <<>> /\ segs = <<>> /\ cur = NoPos /\ saved = <<NoPos, NoPos>>
         /\ hid = Moved /\ lastPeek = <<>>

TNext ==
  /\ l <= Len(Trace)
  /\ l' = l + 1
  /\ UNCHANGED <<hid, lastPeek>>
  /\ LET e == Trace[l] IN
       IF e.ev = "Reset"
       THEN /\ src' = e.src /\ segs' = SegsOf(e) /\ kind' = e.kind
            /\ cur' = StartPos(e.src, SegsOf(e))
            /\ saved' = <<NoPos, NoPos>>
            /\ dead' = FALSE /\ bad' = bad /\ legal' = legal
       ELSE IF dead
       THEN UNCHANGED <<src, segs, kind, cur, saved, bad, legal, dead>>
       ELSE IF ~CallOk(kind, src, segs, cur, saved, e.ev, e.n, e.v, e.slot)
       THEN \* a pure query outside its precondition is simply not judged; anything else
            \* leaves the reader in an unspecified state
            /\ dead' = (e.ev \notin {"Value", "LineOffset"})
            /\ UNCHANGED <<src, segs, kind, cur, saved, bad, legal>>
       ELSE /\ UNCHANGED <<src, segs, kind, dead>>
            /\ legal' = legal + 1
            /\ cur' = CallCur(src, segs, cur, saved, e.ev, e.n, e.v, e.slot)
            /\ saved' = CallSaved(cur, saved, e.ev, e.slot)
            /\ bad' = IF ~e.inbounds
                        THEN Append(bad, [l |-> l, t |-> e.t, why |-> "position-out-of-bounds-or-panic"])
                      ELSE IF e.reply # CallReply(src, segs, cur, saved, e.ev, e.n, e.v, e.slot)
                        THEN Append(bad, [l |-> l, t |-> e.t, why |-> e.ev])
                      ELSE bad

Report == (l = Len(Trace) + 1) =>
            PrintT(ToJson([done |-> TRUE, consumed |-> l - 1, legal |-> legal, bad |-> bad]))
=============================================================================
