CONSTANTS
  MaxCols = 3
  MaxRows = 2
  MaxCells = 4
  Aligns = {"none", "left", "right", "center"}
  Edges = {"both", "none", "lead", "trail"}
  CellKinds = {"plain", "escpipe", "codepipe", "emptycells", "lonepipe", "doubletrail", "spaces", "inline", "codepipe2", "escpipe2"}
  Containers = {"top", "quote", "list"}
  Emit = TRUE
  Mode = "spec"
INIT Init
NEXT Next
INVARIANT Rectangular
CHECK_DEADLOCK FALSE
