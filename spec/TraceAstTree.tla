---------------------------- MODULE TraceAstTree ----------------------------
(***************************************************************************)
(* Code -> model trace validation for S6 (C13).  The harness drives the     *)
(* real ast.Node mutators with long random call sequences and logs, after   *)
(* every call, the forest it OBSERVES through the public accessors.  This   *)
(* monitor replays the log: each event must be a call whose guard holds in  *)
(* the model state and whose observed result is one of the results the      *)
(* specification allows.  It is monitor-style: a mismatch is recorded in    *)
(* `bad` and the model resynchronises, so one TLC run judges every trace.   *)
(***************************************************************************)
EXTENDS AstTreeMC, IOUtils

Trace == ndJsonDeserialize("trace.ndjson")

VARIABLES l, bad
tvars == <<kids, cnt, l, bad>>

ObsKids(e) == [n \in Node |-> e.obs[n]]
ObsCnt(e)  == [n \in Node |-> e.cnt[n]]

TInit == Init /\ l = 1 /\ bad = <<>>

TNext ==
  /\ l <= Len(Trace)
  /\ l' = l + 1
  /\ LET e == Trace[l] IN
       IF e.ev = "Reset"
       THEN /\ kids' = [n \in Node |-> <<>>]
            /\ cnt' = Counts(kids')
            /\ bad' = bad
       ELSE LET o == ObsKids(e) IN
            /\ kids' = o
            /\ cnt' = ObsCnt(e)
            /\ bad' = IF ~OpOk(kids, e.ev, e.p, e.r, e.c)
                        THEN Append(bad, [l |-> l, t |-> e.t, why |-> "driver-illegal-call"])
                      ELSE IF ~(IF e.ev = "SortChildren" THEN SortAllows(kids, e.p, o) ELSE o \in OpTo(kids, e.ev, e.p, e.r, e.c))
                        THEN Append(bad, [l |-> l, t |-> e.t, why |-> "result-not-allowed"])
                      ELSE IF ObsCnt(e) # Counts(o)
                        THEN Append(bad, [l |-> l, t |-> e.t, why |-> "childcount"])
                      ELSE IF ~e.linksok
                        THEN Append(bad, [l |-> l, t |-> e.t, why |-> "links"])
                      ELSE bad

\* printed exactly once, in the last state
Report == (l = Len(Trace) + 1) =>
            PrintT(ToJson([done |-> TRUE, consumed |-> l - 1, bad |-> bad]))
=============================================================================
