------------------------------ MODULE AstShape ------------------------------
(***************************************************************************)
(* Acceptor for C05 over the PROJECTION of parsed trees (file trees.ndjson).*)
(* One record per distinct tree shape:                                      *)
(*   len   = length of the source (positions are renamed order-preservingly *)
(*           per record; 0 and len are part of the renaming)                *)
(*   nodes = sequence of node records, node i has id i (1 = root):          *)
(*     k kind, t type ("document" | "block" | "inline")                     *)
(*     f / b  children as found by FirstChild/NextSibling and by            *)
(*            LastChild/PreviousSibling, c = ChildCount, h = HasChildren    *)
(*     pa / nx / pv = Parent / NextSibling / PreviousSibling (0 = nil)      *)
(*     lv  level (Heading, Emphasis) or 0                                   *)
(*     ln  lines of a block as <<start, stop, padding>>                     *)
(*     sg  segments the node records (Text segment, code-block info, ...)   *)
(*     tx  TRUE for Text nodes (their sg[1] is part of the inline content)  *)
(* The meaning of "structurally consistent" is the list-of-children model   *)
(* of AstTree.tla: every accessor is derived from one child sequence.       *)
(***************************************************************************)
EXTENDS Integers, Sequences, FiniteSets, TLC, Json, IOUtils
Trees == ndJsonDeserialize("trees.ndjson")
VARIABLES l, bad
Rev(s) == [i \in 1..Len(s) |-> s[Len(s) + 1 - i]]
Temp == {"Delimiter", "LinkLabelState"}
ParentKinds == [ListItem |-> {"List"}, TableHeader |-> {"Table"}, TableRow |-> {"Table"}, TableCell |-> {"TableRow", "TableHeader"},
                DefinitionTerm |-> {"DefinitionList"}, DefinitionDescription |-> {"DefinitionList"}, Footnote |-> {"FootnoteList"}]
OnlyChildren == [List |-> {"ListItem"}, Table |-> {"TableHeader", "TableRow"}, CodeSpan |-> {"Text"}, DefinitionList |-> {"DefinitionTerm", "DefinitionDescription"},
                 FootnoteList |-> {"Footnote"}, TableRow |-> {"TableCell"}, TableHeader |-> {"TableCell"}]

SegOk(s, len) == 0 <= s[1] /\ s[1] <= s[2] /\ s[2] <= len /\ s[3] >= 0

RECURSIVE Anc(_, _, _)
\* ancestors of node i (bounded walk up)
Anc(ns, i, fuel) == IF fuel = 0 \/ ns[i].pa = 0 THEN {} ELSE {ns[i].pa} \cup Anc(ns, ns[i].pa, fuel - 1)

\* text segments of the inline content below block i, in depth-first order
RECURSIVE Texts(_, _, _)
Texts(ns, i, fuel) ==
  IF fuel = 0 THEN <<>>
  ELSE LET own == IF ns[i].tx /\ Len(ns[i].sg) > 0 THEN <<ns[i].sg[1]>> ELSE <<>>
           RECURSIVE kids(_)
           kids(s) == IF s = <<>> THEN <<>>
                      ELSE (IF ns[Head(s)].t = "inline" THEN Texts(ns, Head(s), fuel - 1) ELSE <<>>) \o kids(Tail(s))
       IN own \o kids(ns[i].f)

NodeWhy(ns, i, len) ==
  LET n == ns[i] IN
  IF n.b # Rev(n.f) THEN "forward-and-backward-child-lists-differ"
  ELSE IF n.c # Len(n.f) THEN "childcount"
  ELSE IF n.h # (Len(n.f) > 0) THEN "haschildren"
  ELSE IF \E j \in 1..Len(n.f) : ns[n.f[j]].pa # i THEN "child-parent"
  ELSE IF \E j \in 1..Len(n.f) : ns[n.f[j]].nx # (IF j < Len(n.f) THEN n.f[j+1] ELSE 0) THEN "next-sibling"
  ELSE IF \E j \in 1..Len(n.f) : ns[n.f[j]].pv # (IF j > 1 THEN n.f[j-1] ELSE 0) THEN "previous-sibling"
  ELSE IF \E j, k \in 1..Len(n.f) : j # k /\ n.f[j] = n.f[k] THEN "node-twice"
  ELSE IF n.k \in Temp THEN "leftover-bookkeeping-node"
  ELSE IF n.k \in DOMAIN ParentKinds /\ (n.pa = 0 \/ ns[n.pa].k \notin ParentKinds[n.k]) THEN "illegal-parent"
  ELSE IF n.k \in DOMAIN OnlyChildren /\ \E j \in 1..Len(n.f) : ns[n.f[j]].k \notin OnlyChildren[n.k] THEN "illegal-child"
  ELSE IF n.t = "inline" /\ (n.pa = 0 \/ ns[n.pa].t = "document") THEN "inline-not-below-a-block"
  ELSE IF n.t # "inline" /\ n.pa # 0 /\ ns[n.pa].t = "inline" THEN "block-below-inline"
  ELSE IF n.k = "Link" /\ \E a \in Anc(ns, i, Len(ns)) : ns[a].k = "Link" THEN "link-nested-in-link"
  ELSE IF n.k = "Heading" /\ (n.lv < 1 \/ n.lv > 6) THEN "heading-level"
  ELSE IF n.k = "Emphasis" /\ (n.lv < 1 \/ n.lv > 2) THEN "emphasis-level"
  ELSE IF \E j \in 1..Len(n.ln) : ~SegOk(n.ln[j], len) THEN "line-outside-source"
  ELSE IF \E j \in 1..Len(n.sg) : ~SegOk(n.sg[j], len) THEN "segment-outside-source"
  ELSE IF \E j \in 1..(Len(n.ln) - 1) : n.ln[j][2] > n.ln[j+1][1] THEN "lines-not-increasing"
  ELSE IF n.t = "block" /\ Len(n.ln) > 0 /\
          (LET ts == Texts(ns, i, Len(ns)) IN
             \/ \E j \in 1..(Len(ts) - 1) : ts[j][2] > ts[j+1][1]
             \/ \E j \in 1..Len(ts) : ts[j][1] < n.ln[1][1] \/ ts[j][2] > n.ln[Len(n.ln)][2])
       THEN "text-segments-out-of-order-or-outside-lines"
  ELSE "ok"

RECURSIVE TreeWhy(_, _, _)
TreeWhy(ns, i, len) == IF i > Len(ns) THEN "ok"
                       ELSE IF NodeWhy(ns, i, len) # "ok" THEN NodeWhy(ns, i, len) ELSE TreeWhy(ns, i + 1, len)
Why(e) == IF e.nodes[1].pa # 0 THEN "root-has-parent"
          ELSE IF Cardinality(UNION {{e.nodes[i].f[j] : j \in 1..Len(e.nodes[i].f)} : i \in 1..Len(e.nodes)}) # Len(e.nodes) - 1 THEN "node-under-two-parents-or-unreachable"
          ELSE TreeWhy(e.nodes, 1, e.len)
PInit == l = 1 /\ bad = <<>>
PNext == /\ l <= Len(Trees) /\ l' = l + 1
         /\ bad' = IF Why(Trees[l]) = "ok" THEN bad ELSE Append(bad, [l |-> l, why |-> Why(Trees[l])])
Report == (l = Len(Trees) + 1) => PrintT(ToJson([done |-> TRUE, consumed |-> l - 1, bad |-> bad]))
=============================================================================
