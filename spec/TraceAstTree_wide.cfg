CONSTANTS
  Node = {"n1","n2","n3","n4","n5","n6","n7","n8","n9","n10","n11","n12","n13","n14","n15","n16","n17","n18","n19","n20"}
  NIL = "nil"
  Key <- KeyWide
  Emit = FALSE
  Mode = "spec"
INIT TInit
NEXT TNext
INVARIANT Report
CHECK_DEADLOCK FALSE
