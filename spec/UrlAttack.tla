----------------------------- MODULE UrlAttack -----------------------------
(***************************************************************************)
(* Generator for C04: every way of writing a dangerous URL.                 *)
(*   scheme x letter-case pattern x obfuscation x construct                 *)
(* Obfuscations act on one position of "scheme:" (a letter or the colon):   *)
(* none, backslash escape, named / decimal / hex character reference,       *)
(* percent-encoding, and prefixes / infixes of whitespace and control       *)
(* characters, raw or as character references.  Each element is labelled    *)
(* with what a browser makes of the INTENDED url (Browser front end of      *)
(* HtmlOut.tla is applied by the acceptor to what is actually emitted).     *)
(* The concrete spelling is a table in the harness indexed by these names.  *)
(***************************************************************************)
EXTENDS Integers, Sequences, FiniteSets, TLC, Json
CONSTANTS Schemes, Cases, Obfuscations, Positions, Constructs
VARIABLES scheme, case, obf, pos, construct, done
vars == <<scheme, case, obf, pos, construct, done>>
Init == /\ scheme \in Schemes /\ case \in Cases /\ obf \in Obfuscations /\ pos \in Positions /\ construct \in Constructs
        /\ done = FALSE
Emit == /\ ~done /\ done' = TRUE /\ UNCHANGED <<scheme, case, obf, pos, construct>>
        /\ PrintT(ToJson(<<scheme, case, obf, pos, construct>>))
Next == Emit
TypeOK == scheme \in Schemes
=============================================================================
