----------------------------- MODULE UrlAttack -----------------------------
(***************************************************************************)
(* Generator for C04: every way of writing a dangerous URL.                 *)
(*   scheme x letter-case pattern x obfuscation x construct x tail           *)
(* Obfuscations act on one position of "scheme:" (a letter or the colon):   *)
(* none, backslash escape, named / decimal / hex character reference,       *)
(* percent-encoding, and prefixes / infixes of whitespace and control       *)
(* characters, raw or as character references.  Each element is labelled    *)
(* with what a browser makes of the INTENDED url (Browser front end of      *)
(* HtmlOut.tla is applied by the acceptor to what is actually emitted).     *)
(* The tail is what follows "scheme:" - the browser decides by the scheme    *)
(* alone, so a tail that a URL library refuses to parse (line feed or space *)
(* in the authority, a port that is no number, an unclosed IPv6 literal, a  *)
(* broken percent escape) is as dangerous as any other; tails are combined  *)
(* with the obfuscations in SimpleObf only.                                 *)
(* The concrete spelling is a table in the harness indexed by these names.  *)
(***************************************************************************)
EXTENDS Integers, Sequences, FiniteSets, TLC, Json
CONSTANTS Schemes, Cases, Obfuscations, Positions, Constructs, Tails, SimpleObf
VARIABLES scheme, case, obf, pos, construct, tail, done
vars == <<scheme, case, obf, pos, construct, tail, done>>
Init == /\ scheme \in Schemes /\ case \in Cases /\ obf \in Obfuscations /\ pos \in Positions /\ construct \in Constructs
        /\ tail \in Tails /\ (tail # "plain" => (obf \in SimpleObf /\ scheme \in {"javascript", "vbscript", "file"}))
        /\ done = FALSE
Emit == /\ ~done /\ done' = TRUE /\ UNCHANGED <<scheme, case, obf, pos, construct, tail>>
        /\ PrintT(ToJson(<<scheme, case, obf, pos, construct, tail>>))
Next == Emit
TypeOK == scheme \in Schemes
=============================================================================
