CONSTANTS
  Node = {"n1","n2","n3","n4"}
  NIL = "nil"
  MaxSpecial = 2
  Atomic = TRUE
  Emit = TRUE
INIT Init
NEXT Next
INVARIANTS StepEqualsRec OncEach
CHECK_DEADLOCK FALSE
