CONSTANTS
  Sigma <- SigmaMove
  MaxLen = 3
  Kind = "source"
  MaxAdv = 3
  Pads <- Pads012
  Slots = 1
  HidOn = FALSE
  Emit = TRUE
  Mode = "spec"
INIT Init
NEXT Next
INVARIANTS InBounds
CHECK_DEADLOCK FALSE
