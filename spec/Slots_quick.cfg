CONSTANTS
  Slots = {"para", "atx", "atxclose", "setext", "codespan", "icode", "fcode", "info", "linktext", "linkdest", "linkdestangle", "linktitle", "linktitle1", "refdest", "refdestangle", "reftitle", "reflabel", "imgalt", "imgsrc", "imgtitle", "autolink", "autolinkpath", "mailto", "rawinline", "htmlblock", "tablecell", "tablehead", "fnlabel", "fnbody", "defterm", "defdesc", "task", "attrval", "attrbare", "attrkey", "attrid", "attrclass", "attrraw", "attrdatakey", "attridval", "attridq", "attrcase", "attrclassq", "attrstyleq", "linkify", "strike", "emph", "quote", "list", "olist", "typog", "nested"}
  Atoms = {"a", "lt", "gt", "dq", "sq", "amp", "eamp", "elt", "dlt", "xlt", "nosuch", "zero", "big", "nvlt", "nul", "cont", "lead2", "lead3", "lead4", "eacute", "cclose", "copen", "cdata", "script", "escript", "onerror", "bs", "bslt", "bsdq", "bsamp", "nl", "hardnl", "bsnl", "js", "backtick", "star", "under", "lbr", "rbr", "lpar", "rpar", "lbrace", "rbrace", "eq", "pipe", "colon", "tilde", "pct", "pctzz", "sp", "tab", "hash", "one", "true", "null", "bang", "caret", "dash", "dot", "cr", "colonent", "tabent"}
  PairAtoms = {"a", "lt", "dq", "amp", "bs", "nl", "cont", "lead3", "lbr", "rbr", "lpar", "rpar"}
  Endings = {"nl", "none"}
INIT Init
NEXT Next
INVARIANT TypeOK
CHECK_DEADLOCK FALSE
