------------------------------- MODULE Writer -------------------------------
(***************************************************************************)
(* S11 (output channel) -- the renderer writes through a buffered writer    *)
(* whose error is sticky, ignores the result of every individual write and  *)
(* returns what the final Flush reports (property C14).                     *)
(* Bytes are identified with their position in the stream a non-failing     *)
(* writer would receive (1..Total).  The underlying writer accepts bytes    *)
(* until position K; the write that crosses K is short and returns an error *)
(* (FailKind "short"), or accepts nothing of that write ("zero"); every     *)
(* later call fails accepting nothing.                                      *)
(* Actions follow bufio.Writer: W(n) (Write of n bytes: fill, flush when    *)
(* full, large writes with an empty buffer go straight through), Flush,     *)
(* Return.  plan is the sequence of write sizes (the document).             *)
(* Modes: "spec"; negative controls "FlushErrorDropped" (Return reports nil *)
(* whatever Flush said), "SkipFlushWhenEmpty" (no Flush when nothing is     *)
(* buffered -- loses the error of a failed direct write).                   *)
(***************************************************************************)
EXTENDS Integers, Sequences, FiniteSets, TLC, Json
CONSTANTS Cap, Sizes, MaxTotal, MaxWrites, FailKinds, Emit, Mode
VARIABLES plan, K, fk, pc, next, buf, sticky, accepted, failed, ret
vars == <<plan, K, fk, pc, next, buf, sticky, accepted, failed, ret>>

Sum(s) == LET RECURSIVE f(_) f(i) == IF i = 0 THEN 0 ELSE s[i] + f(i-1) IN f(Len(s))
Plans == UNION {{p \in [1..n -> Sizes] : Sum(p) <= MaxTotal} : n \in 0..MaxWrites}
Iota(a, b) == [i \in 1..(b - a + 1) |-> a + i - 1]          \* <<a, ..., b>>

Init == /\ plan \in Plans
        /\ K \in 0..(MaxTotal + 1)          \* MaxTotal+1: never fails
        /\ fk \in FailKinds
        /\ pc = 1 /\ next = 1 /\ buf = <<>> /\ sticky = FALSE /\ accepted = <<>> /\ failed = FALSE /\ ret = "none"

\* underlying write of the byte sequence bs: result = <<accepted', failed', nWritten, err>>
Under(bs) ==
  IF failed THEN <<accepted, TRUE, 0, TRUE>>
  ELSE LET room == IF K > Len(accepted) THEN K - Len(accepted) ELSE 0 IN
       IF Len(bs) <= room THEN <<accepted \o bs, FALSE, Len(bs), FALSE>>
       ELSE IF fk = "short" THEN <<accepted \o SubSeq(bs, 1, room), TRUE, room, TRUE>>
       ELSE <<accepted, TRUE, 0, TRUE>>

\* bufio.Writer.Flush on (buf, sticky)
FlushOp(b, st) ==
  IF st THEN [buf |-> b, sticky |-> TRUE, acc |-> accepted, failed |-> failed]
  ELSE IF b = <<>> THEN [buf |-> b, sticky |-> FALSE, acc |-> accepted, failed |-> failed]
  ELSE LET u == Under(b) IN
       [buf |-> SubSeq(b, u[3] + 1, Len(b)), sticky |-> u[4], acc |-> u[1], failed |-> u[2]]

\* bufio.Writer.Write of bs, as a step relation unrolled by recursion on the remaining bytes
RECURSIVE WriteOp(_, _, _, _, _)
WriteOp(bs, b, st, acc, fl) ==
  IF st \/ bs = <<>> THEN [buf |-> b, sticky |-> st, acc |-> acc, failed |-> fl]
  ELSE LET avail == Cap - Len(b) IN
       IF Len(bs) <= avail THEN [buf |-> b \o bs, sticky |-> st, acc |-> acc, failed |-> fl]
       ELSE IF b = <<>>
            THEN \* large write, empty buffer: straight to the underlying writer
                 LET room == IF K > Len(acc) THEN K - Len(acc) ELSE 0
                     okAll == ~fl /\ Len(bs) <= room
                     n == IF fl THEN 0 ELSE IF okAll THEN Len(bs) ELSE IF fk = "short" THEN room ELSE 0
                 IN [buf |-> b, sticky |-> ~okAll, acc |-> acc \o SubSeq(bs, 1, n), failed |-> fl \/ ~okAll]
            ELSE \* fill the buffer, flush, continue
                 LET b2 == b \o SubSeq(bs, 1, avail)
                     room == IF K > Len(acc) THEN K - Len(acc) ELSE 0
                     okAll == ~fl /\ Len(b2) <= room
                     n == IF fl THEN 0 ELSE IF okAll THEN Len(b2) ELSE IF fk = "short" THEN room ELSE 0
                 IN IF okAll THEN WriteOp(SubSeq(bs, avail + 1, Len(bs)), <<>>, FALSE, acc \o b2, fl)
                    ELSE [buf |-> SubSeq(b2, n + 1, Len(b2)), sticky |-> TRUE, acc |-> acc \o SubSeq(b2, 1, n), failed |-> TRUE]

W == /\ ret = "none" /\ pc <= Len(plan)
     /\ LET r == WriteOp(Iota(next, next + plan[pc] - 1), buf, sticky, accepted, failed) IN
          /\ buf' = r.buf /\ sticky' = r.sticky /\ accepted' = r.acc /\ failed' = r.failed
     /\ next' = next + plan[pc] /\ pc' = pc + 1
     /\ UNCHANGED <<plan, K, fk, ret>>

Return ==
  /\ ret = "none" /\ pc > Len(plan)
  /\ LET skip == Mode = "SkipFlushWhenEmpty" /\ buf = <<>>
         r == IF skip THEN [buf |-> buf, sticky |-> FALSE, acc |-> accepted, failed |-> failed] ELSE FlushOp(buf, sticky) IN
       /\ buf' = r.buf /\ accepted' = r.acc /\ failed' = r.failed /\ sticky' = (sticky \/ r.sticky)
       /\ ret' = IF Mode = "FlushErrorDropped" THEN "nil" ELSE IF r.sticky THEN "err" ELSE "nil"
       /\ (Emit => PrintT(ToJson([plan |-> plan, K |-> K, fk |-> fk, ret |-> ret', accepted |-> Len(r.acc), total |-> Sum(plan)])))
  /\ UNCHANGED <<plan, K, fk, pc, next>>

Next == W \/ Return
Spec == Init /\ [][Next]_vars /\ WF_vars(Next)

\* what was accepted is a prefix of what a non-failing writer would have received
Prefix == accepted = Iota(1, Len(accepted))
\* the error surfaces iff the destination failed; success means everything arrived
ErrorSurfaces == ret # "none" => /\ (failed <=> ret = "err")
                                 /\ (ret = "nil" => Len(accepted) = Sum(plan))
Terminates == <>(ret # "none")
=============================================================================
