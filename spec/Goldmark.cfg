INIT Init
NEXT Step
INVARIANT Report
INVARIANT StackIsChain
CHECK_DEADLOCK FALSE
