INIT PInit
NEXT PNext
INVARIANT Report
CHECK_DEADLOCK FALSE
