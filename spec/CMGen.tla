------------------------------- MODULE CMGen -------------------------------
(***************************************************************************)
(* S4 as a GENERATOR with an oracle by construction (property C02).         *)
(* A printer state machine writes a CommonMark document line by line,       *)
(* construct by construct, together with the HTML the specification         *)
(* prescribes for the structure being written.  Every action emits one      *)
(* construct WITH ITS SPELLING CHOICE; its guard is the side condition      *)
(* under which CommonMark 0.31.2 gives the emitted lines exactly the        *)
(* intended meaning (section numbers in the comments).                      *)
(*                                                                          *)
(*   stack   open containers: doc / quote / list / item frames              *)
(*   lines   the document so far: sequence of lines, a line is a sequence   *)
(*           of pieces <<n, s>>: n > 0 = n columns of STRUCTURAL white      *)
(*           space (the harness spells it with spaces or with tabs reaching *)
(*           the same column), n = 0 = the literal text s                   *)
(*   toks    expected HTML so far (block tags, escaped text); inter-block   *)
(*           whitespace is not represented (the comparison ignores it)      *)
(*   budget  remaining constructs                                           *)
(*                                                                          *)
(* Finish prints [lines, toks] as JSON.  Exhaustive for small budgets,      *)
(* -simulate for larger ones.                                               *)
(***************************************************************************)
EXTENDS Integers, Sequences, FiniteSets, TLC, Json
CONSTANTS Budget,    \* number of constructs (leaf blocks and containers)
          MaxDepth,  \* container nesting depth
          Full,      \* TRUE: every spelling dimension; FALSE: a reduced spelling set
          Sim,       \* TRUE (with -simulate): each spelling choice is drawn at random instead of enumerated
          Emit
VARIABLES stack, lines, toks, budget, fin,
          ofd,    \* > 0: an unclosed fence was written in the container at this stack depth: that
                  \* container must be closed before anything else is written, without a blank line
          need, defd   \* a reference to / the definition of the label "ref 1" has been written
vars == <<stack, lines, toks, budget, fin, ofd, need, defd>>

Pick(X) == IF Sim THEN {RandomElement(X)} ELSE X
I(n) == <<n, "">>
S(s) == <<0, s>>
IsInd(p) == p[1] > 0
RECURSIVE Flatten(_)
Flatten(ss) == IF ss = <<>> THEN <<>> ELSE Head(ss) \o Flatten(Tail(ss))
NonZero(ps) == SelectSeq(ps, LAMBDA p : p[1] > 0 \/ p[2] # "")

----------------------------------------------------------------------------
\* Inline fillings: lines of pieces and the tokens they must render to. Multi-line fillings
\* carry the break token between their lines. (The inline level itself is InlineGen.tla.)
Fill1 == <<  \* single-line
  [ls |-> << <<S("foo")>> >>, ts |-> << <<"foo">> >>],
  [ls |-> << <<S("*foo* bar")>> >>, ts |-> << <<"<em>foo</em> bar">> >>],
  [ls |-> << <<S("a \\# b &amp; `c`")>> >>, ts |-> << <<"a # b &amp; <code>c</code>">> >>],
  [ls |-> << <<S("[t][Ref  1] x")>> >>, ts |-> << <<"<a href=\"/r1\" title=\"R\">t</a> x">> >>]   \* needs the definition
>>
RefFill == 4
FillN == <<  \* two or three lines: soft break, hard breaks
  [ls |-> << <<S("foo")>>, <<S("bar")>> >>, ts |-> << <<"foo">>, <<"\n", "bar">> >>],
  [ls |-> << <<S("foo  ")>>, <<S("bar\\")>>, <<S("baz")>> >>, ts |-> << <<"foo">>, <<"<br />", "\n", "bar">>, <<"<br />", "\n", "baz">> >>],
  [ls |-> << <<S("**foo")>>, <<S("bar** baz")>> >>, ts |-> << <<"<strong>foo">>, <<"\n", "bar</strong> baz">> >>]
>>
Fills1 == IF Full THEN 1..Len(Fill1) ELSE {1}
FillsN == IF Full THEN 1..Len(FillN) ELSE {1}

----------------------------------------------------------------------------
\* frames
Frame(kind) == [kind |-> kind, cont |-> <<>>, pend |-> <<>>, prev |-> "none", prevOff |-> 0,
                tight |-> TRUE, saw |-> FALSE, ltype |-> "", n |-> 0, off |-> 0, close |-> <<>>, start |-> ""]
Top == stack[Len(stack)]
Depth == Cardinality({i \in 1..Len(stack) : stack[i].kind \in {"quote", "item"}})

\* prefix of a content line: pending markers where a container's first line is still to be
\* written, continuation prefixes otherwise; keep = number of frames whose prefix is written
\* (lazy continuation lines drop the prefixes of the inner frames)
Prefix(keep) == Flatten([i \in 1..keep |-> IF stack[i].pend # <<>> THEN stack[i].pend ELSE stack[i].cont])
FullPrefix == Prefix(Len(stack))
\* prefix of a later line of a block (markers are written on the first line only)
ContPrefix(keep) == Flatten([i \in 1..keep |-> stack[i].cont])
ContFull == ContPrefix(Len(stack))
ClearPend(st) == [i \in 1..Len(st) |-> [st[i] EXCEPT !.pend = <<>>]]
\* prefix of a blank line: up to the innermost block quote (a blank line without its '>'
\* would end the quote), nothing after it
LastQuote == LET qs == {i \in 1..Len(stack) : stack[i].kind = "quote"} IN IF qs = {} THEN 0 ELSE CHOOSE i \in qs : \A j \in qs : j <= i
BlankLine == ContPrefix(LastQuote)
\* a bare ">" (no space after it) must not be followed by structural white space: the first
\* column of that white space would be taken as the optional space of the marker (5.1)
SpaceFirst(p) == IsInd(p) \/ (p[2] # "" /\ SubSeq(p[2], 1, 1) = " ")
WellFormed(line0) == LET line == NonZero(line0) IN
                     \A i \in 1..(Len(line) - 1) : ~(line[i] = S(">") /\ SpaceFirst(line[i + 1]))

\* does the separator sep (number of blank lines) mark a list as loose (5.3)?
MarkSaw(st, sep) ==
  IF sep = 0 THEN st
  ELSE LET n == Len(st) IN
       IF st[n].kind = "list" THEN [st EXCEPT ![n].saw = TRUE]
       ELSE IF st[n].kind = "item" THEN [st EXCEPT ![n - 1].saw = TRUE]
       ELSE st

\* what may follow what without a blank line in between
ParaLike(k) == k \in {"para", "quote", "list", "defs"}   \* an open paragraph may be at the tip
SepOk(prev, kind, sep) ==
  /\ (prev = "none" => sep = 0)
  /\ prev # "openfence"                                                  \* 4.5: runs to the end of its container
  /\ (kind \in {"para", "setext"} /\ ParaLike(prev) => sep > 0)           \* 4.8 / 5.1 laziness
  /\ (kind = "icode" /\ ParaLike(prev) => sep > 0)                       \* 4.4 cannot interrupt
  /\ (kind = "icode" => prev # "icode")                                  \* would merge
  /\ (kind = "hr-" /\ prev = "para" => sep > 0)                          \* 4.3 setext underline
  /\ (kind = "quote" /\ prev = "quote" => sep > 0)                       \* would merge
  /\ (kind = "defs" /\ ParaLike(prev) => sep > 0)                        \* 4.7 cannot interrupt
  /\ (kind = "para" /\ prev = "defs" => sep > 0)                         \* title continuation
  /\ (kind = "html7" /\ ParaLike(prev) => sep > 0)                       \* 4.6 type 7
  /\ (prev \in {"html6", "html7"} => sep > 0)                            \* they end at a blank line

InItemTight == Top.kind = "item" /\ stack[Len(stack) - 1].tight

\* after an unclosed fence its container is closed first, and no blank line follows (a blank
\* line inside a list item would still belong to the fence)
OfdOk(sep) == ofd = 0 \/ (Len(stack) < ofd /\ sep = 0)
\* the blank lines and the lines of a leaf block, written in the current container
Write(sep, blockLines, kind, newToks, off) ==
  LET st1 == MarkSaw(stack, sep)
      n == Len(stack)
      seps == [i \in 1..sep |-> BlankLine]
  IN /\ \A i \in 1..Len(blockLines) : WellFormed(blockLines[i])
     /\ OfdOk(sep)
     /\ ofd' = IF kind = "openfence" /\ n > 1 /\ budget > 1 THEN n ELSE 0
     /\ stack' = [ClearPend(st1) EXCEPT ![n].prev = kind, ![n].prevOff = off]
     /\ lines' = lines \o seps \o [i \in 1..Len(blockLines) |-> NonZero(blockLines[i])]
     /\ toks' = toks \o newToks \o <<"\n">>   \* every block ends its line (matters next to raw HTML and tight text)
     /\ budget' = budget - 1
     /\ UNCHANGED fin

CanLeaf == ~fin /\ budget > 0 /\ Top.kind \in {"doc", "quote", "item"}
\* extra leading indentation of a block: none for the first block of a list item (the white
\* space after the marker is the item's content offset, 5.2), and less than the content
\* offset of a list that precedes it (it would be absorbed by the last item)
Indents == {j \in 0..3 : /\ (Top.kind = "item" /\ Top.prev = "none" /\ Top.start # "empty" => j = 0)
                         /\ (Top.prev = "list" => j < Top.prevOff)
                         /\ (Full \/ j \in {0, 3})}
Seps == IF Full THEN 0..2 ELSE 0..1

----------------------------------------------------------------------------
\* leaf blocks

\* 4.8 paragraph: first line with full prefix, continuation lines with their own laziness
\* and indentation
ParaLines(f, j, keeps, ind2) ==
  [i \in 1..Len(f.ls) |->
     IF i = 1 THEN FullPrefix \o NonZero(<<I(j)>>) \o f.ls[1]
     ELSE ContPrefix(keeps) \o NonZero(<<I(ind2)>>) \o f.ls[i]]
Para ==
  /\ CanLeaf
  /\ \E sep \in Pick(Seps), j \in Pick(Indents), multi \in Pick(BOOLEAN) :
     \E fi \in Pick(IF multi THEN FillsN ELSE Fills1) :
     \E keeps \in Pick(IF multi THEN 0..Len(stack) ELSE {Len(stack)}), ind2 \in Pick(IF multi /\ Full THEN {0, 2, 5} ELSE {0}) :
       LET f == IF multi THEN FillN[fi] ELSE Fill1[fi]
           ls == ParaLines(f, j, keeps, ind2)
           body == Flatten(f.ts)
       IN /\ SepOk(Top.prev, "para", sep)
          /\ \A i \in 1..Len(ls) : WellFormed(ls[i])
          \* a lazy line that keeps the prefix of an item but drops an inner quote would need
          \* that item's indentation to be real; every dropped suffix is fine for plain text.
          \* A continuation line indented 4+ more than a kept LIST ITEM prefix is still text.
          /\ need' = (need \/ (~multi /\ fi = RefFill)) /\ UNCHANGED defd
          /\ Write(sep, ls, "para", IF InItemTight THEN body ELSE <<"<p>">> \o body \o <<"</p>">>, 0)

\* 4.2 ATX heading
Hashes(n) == SubSeq("######", 1, n)
Atx ==
  /\ CanLeaf
  /\ \E sep \in Pick(Seps), j \in Pick(Indents), lv \in Pick(IF Full THEN 1..6 ELSE {1, 6}), fi \in Pick(Fills1),
        closing \in Pick(IF Full THEN {"", " #", " ##########", "  #  ", " \\#"} ELSE {"", " ##"}), sp \in Pick(IF Full THEN {1, 3} ELSE {1}) :
       LET f == Fill1[fi]
           tag == "h" \o ToString(lv)
           extra == IF closing = " \\#" THEN <<" #">> ELSE <<>>    \* an escaped # is content (4.2)
           line == FullPrefix \o NonZero(<<I(j)>>) \o <<S(Hashes(lv)), S(SubSeq("   ", 1, sp))>> \o f.ls[1] \o <<S(closing)>>
       IN /\ SepOk(Top.prev, "atx", sep) /\ WellFormed(line)
          /\ need' = (need \/ fi = RefFill) /\ UNCHANGED defd
          /\ Write(sep, <<line>>, "atx", <<"<" \o tag \o ">">> \o f.ts[1] \o extra \o <<"</" \o tag \o ">">>, 0)

\* 4.3 Setext heading: paragraph lines plus an underline
Setext ==
  /\ CanLeaf
  /\ \E sep \in Pick(Seps), j \in Pick(Indents), lv \in Pick(1..2), fi \in Pick(Fills1), ulen \in Pick(IF Full THEN {1, 3, 9} ELSE {3}), uj \in Pick(IF Full THEN 0..3 ELSE {0}), trail \in Pick(IF Full THEN {"", "  "} ELSE {""}) :
       LET f == Fill1[fi]
           tag == "h" \o ToString(lv)
           ch == IF lv = 1 THEN "=========" ELSE "---------"
           l1 == FullPrefix \o NonZero(<<I(j)>>) \o f.ls[1]
           l2 == ContFull \o NonZero(<<I(uj)>>) \o <<S(SubSeq(ch, 1, ulen)), S(trail)>>
       IN /\ SepOk(Top.prev, "setext", sep) /\ WellFormed(l1) /\ WellFormed(l2)
          /\ (lv = 2 => ulen >= 2)      \* a lone '-' is left to the list rules
          \* in a list item the underline must not read as a bullet of its own: "-" + space
          /\ need' = (need \/ fi = RefFill) /\ UNCHANGED defd
          /\ Write(sep, <<l1, l2>>, "setext", <<"<" \o tag \o ">">> \o f.ts[1] \o <<"</" \o tag \o ">">>, 0)

\* 4.1 thematic break
HrSpell(ch, n, spaced) == IF spaced THEN SubSeq(CASE ch = "*" -> "* * * * *" [] ch = "-" -> "- - - - -" [] OTHER -> "_ _ _ _ _", 1, 2 * n - 1)
                          ELSE SubSeq(CASE ch = "*" -> "*****" [] ch = "-" -> "-----" [] OTHER -> "_____", 1, n)
Hr ==
  /\ CanLeaf
  /\ \E sep \in Pick(Seps), j \in Pick(Indents), ch \in Pick({"*", "-", "_"}), n \in Pick(IF Full THEN 3..5 ELSE {3}), spaced \in Pick(BOOLEAN), trail \in Pick(IF Full THEN {"", " "} ELSE {""}) :
       LET kind == IF ch = "-" /\ ~spaced THEN "hr-" ELSE "hr"
           line == FullPrefix \o NonZero(<<I(j)>>) \o <<S(HrSpell(ch, n, spaced)), S(trail)>>
       IN /\ SepOk(Top.prev, kind, sep) /\ WellFormed(line)
          \* as the first content of a bullet item written with the same character the whole
          \* line would itself be a thematic break (4.1 wins over 5.2)
          /\ ~(Top.kind = "item" /\ Top.prev = "none" /\ stack[Len(stack) - 1].ltype = ch)
          \* directly under a paragraph-like tip a spaced '-' break is fine, but the text of a
          \* list item must not turn it into a setext heading: covered by kind "hr-"
          /\ UNCHANGED <<need, defd>>
          /\ Write(sep, <<line>>, "hr", <<"<hr />">>, 0)

\* 4.5 fenced code block
FenceStr(ch, n) == SubSeq(IF ch = "`" THEN "``````" ELSE "~~~~~~", 1, n)
CodeBodies == <<
  [ls |-> <<>>, ts |-> ""],
  [ls |-> << <<S("x = 1")>> >>, ts |-> "x = 1\n"],
  [ls |-> << <<S("  *a* &amp; <b>")>>, <<>>, <<S("> - # q")>> >>, ts |-> "  *a* &amp;amp; &lt;b&gt;\n\n&gt; - # q\n"],
  [ls |-> << <<S("``` ~~~")>>, <<S("    ind")>> >>, ts |-> "``` ~~~\n    ind\n"]
>>
Fenced ==
  /\ CanLeaf
  /\ \E sep \in Pick(Seps), j \in Pick(Indents), ch \in Pick({"`", "~"}), n \in Pick(IF Full THEN 3..5 ELSE {3, 4}), more \in Pick(IF Full THEN 0..1 ELSE {0}),
        cj \in Pick(IF Full THEN {0, 3} ELSE {0}), info \in Pick(IF Full THEN {"", "go", " ruby startline=3 "} ELSE {"", "go"}),
        bi \in Pick(IF Full THEN 1..Len(CodeBodies) ELSE {2, 3}), closed \in Pick(BOOLEAN), bj \in Pick(IF Full THEN {0, 1} ELSE {0}) :
       LET b == CodeBodies[bi]
           \* content lines are written at the fence's own indentation plus bj; up to j columns
           \* are removed from each (4.5), so bj extra columns stay when bj > 0
           open == FullPrefix \o NonZero(<<I(j)>>) \o <<S(FenceStr(ch, n)), S(info)>>
           body == [i \in 1..Len(b.ls) |-> IF b.ls[i] = <<>> THEN BlankLine ELSE ContFull \o NonZero(<<I(j)>>) \o (IF bj = 1 THEN <<S(" ")>> ELSE <<>>) \o b.ls[i]]
           cl == IF closed THEN << ContFull \o NonZero(<<I(cj)>>) \o <<S(FenceStr(ch, n + more))>> >> ELSE <<>>
           lang == IF info = "" THEN "" ELSE IF info = "go" THEN " class=\"language-go\"" ELSE " class=\"language-ruby\""
           txt == IF bj = 1 THEN (CASE bi = 1 -> "" [] bi = 2 -> " x = 1\n" [] bi = 3 -> "   *a* &amp;amp; &lt;b&gt;\n\n &gt; - # q\n" [] OTHER -> " ``` ~~~\n     ind\n") ELSE b.ts
       IN /\ SepOk(Top.prev, "fence", sep)
          /\ \A i \in 1..Len(body) : WellFormed(body[i])
          /\ WellFormed(open)
          \* an unclosed fence runs to the end of its container: allowed only as the very last
          \* construct (budget 1) of the document part it is in; Finish/closing rules below
          /\ (closed \/ budget = 1 \/ Top.kind \in {"quote", "item"})
          /\ UNCHANGED <<need, defd>>
          \* a blank content line inside a block quote keeps its '>' (BlankLine); inside a list
          \* item an empty line is content as well
          /\ Write(sep, <<open>> \o body \o cl, IF closed THEN "fence" ELSE "openfence",
                   <<"<pre><code" \o lang \o ">", txt, "</code></pre>">>, 0)

\* 4.4 indented code block
ICode ==
  /\ CanLeaf
  /\ \E sep \in Pick(Seps), two \in Pick(BOOLEAN), more \in Pick(IF Full THEN {0, 2} ELSE {0}) :
       LET l1 == FullPrefix \o <<I(4)>> \o (IF more = 2 THEN <<S("  ")>> ELSE <<>>) \o <<S("a  b")>>
           l2 == ContFull \o <<I(4)>> \o <<S("  *c*")>>
           ls == IF two THEN <<l1, BlankLine, l2>> ELSE <<l1>>
           pad == IF more = 2 THEN "  " ELSE ""
           txt == IF two THEN pad \o "a  b\n\n  *c*\n" ELSE pad \o "a  b\n"
       IN /\ SepOk(Top.prev, "icode", sep)
          /\ ~(Top.kind = "item" /\ Top.prev = "none")   \* first block of an item: see 5.2
          /\ (Top.prev = "list" => FALSE)                \* would be absorbed by the item
          /\ (two /\ more = 2 => FALSE)
          /\ UNCHANGED <<need, defd>>
          /\ Write(sep, ls, "icode", <<"<pre><code>", txt, "</code></pre>">>, 0)

\* 4.6 HTML blocks: a few fixed shapes (types 6, 2 and 7)
Html ==
  /\ CanLeaf /\ Full
  /\ \E sep \in Pick(Seps), shape \in Pick(1..3) :
       LET ls == CASE shape = 1 -> << FullPrefix \o <<S("<div class=\"a\">")>>, ContFull \o <<S("*x*")>>, ContFull \o <<S("</div>")>> >>
                   [] shape = 2 -> << FullPrefix \o <<S("<!-- c")>>, BlankLine, ContFull \o <<S("d --> e")>> >>
                   [] OTHER -> << FullPrefix \o <<S("<span a=\"b\">")>> >>
           kind == CASE shape = 1 -> "html6" [] shape = 2 -> "html2" [] OTHER -> "html7"
           pad == ""
           out == CASE shape = 1 -> pad \o "<div class=\"a\">\n*x*\n</div>\n"
                    [] shape = 2 -> pad \o "<!-- c\n\nd --> e\n"
                    [] OTHER -> pad \o "<span a=\"b\">\n"
       IN /\ SepOk(Top.prev, kind, sep)
          /\ \A i \in 1..Len(ls) : WellFormed(ls[i])
          \* types 6 and 7 end at a blank line: the next sibling needs one (closing rule), so
          \* these blocks are followed by a blank line or the end (see NeedBlankAfter)
          /\ UNCHANGED <<need, defd>>
          /\ Write(sep, ls, kind, <<out>>, 0)

\* 4.7 link reference definitions (at document level or in a block quote; they apply to the
\* whole document from wherever they stand)
DefSpell == << << <<S("[ref 1]: /r1 'R'")>> >>,
              << <<S("[REF\t1]:")>>, <<I(2), S("</r1>")>>, <<S("\"R\"")>> >>,
              << <<I(3), S("[Ref 1]: /r1 (R)")>>, <<S("[ref 1]: /other")>> >> >>
Defs ==
  /\ CanLeaf /\ Top.kind \in {"doc", "quote"} /\ ~defd
  /\ \E sep \in Pick(Seps), v \in Pick(1..Len(DefSpell)) :
       LET d == DefSpell[v]
           ls == [i \in 1..Len(d) |-> (IF i = 1 THEN FullPrefix ELSE ContFull) \o d[i]]
       IN /\ SepOk(Top.prev, "defs", sep)
          /\ (v = 3 => Top.prev # "list")      \* its 3 columns of indentation would put it into the last item
          /\ defd' = TRUE /\ UNCHANGED need
          /\ Write(sep, ls, "defs", <<>>, 0)

----------------------------------------------------------------------------
\* containers

CanOpen == ~fin /\ budget > 1 /\ Depth < MaxDepth /\ Top.kind \in {"doc", "quote", "item"}

\* 5.1 block quote
OpenQuote ==
  /\ CanOpen
  /\ \E sep \in Pick(Seps), j \in Pick(Indents), sp \in Pick(BOOLEAN) :
       LET mk == IF sp THEN S("> ") ELSE S(">")
           st1 == MarkSaw(stack, sep)
           n == Len(stack)
           fr == [Frame("quote") EXCEPT !.cont = NonZero(<<I(j)>>) \o <<mk>>]
       IN /\ SepOk(Top.prev, "quote", sep) /\ OfdOk(sep) /\ ofd' = 0 /\ UNCHANGED <<need, defd>>
          /\ stack' = Append([st1 EXCEPT ![n].prev = "quote", ![n].prevOff = 0], fr)
          /\ lines' = lines \o [i \in 1..sep |-> BlankLine]
          /\ toks' = Append(toks, "<blockquote>")
          /\ budget' = budget - 1 /\ UNCHANGED fin

\* 5.2 / 5.3 lists
Bullets == {<<"", "-">>, <<"", "+">>, <<"", "*">>}
Ordered == IF Full THEN {<<"1", ".">>, <<"1", ")">>, <<"7", ".">>, <<"0", ")">>, <<"123456789", ".">>} ELSE {<<"1", ".">>, <<"7", ")">>}
LType(m) == m[2]
OpenList ==
  /\ CanOpen
  /\ \E sep \in Pick(Seps), j \in Pick(Indents), tight \in Pick(BOOLEAN), m \in Pick(Bullets \cup Ordered) :
       LET lt == LType(m)
           st1 == MarkSaw(stack, sep)
           n == Len(stack)
           isOrd == m[1] # ""
           start == IF isOrd THEN m[1] ELSE ""
           fr == [Frame("list") EXCEPT !.tight = tight, !.ltype = lt, !.off = j,
                    !.close = <<IF isOrd THEN "</ol>" ELSE "</ul>">>,
                    !.start = start, !.saw = FALSE, !.prev = IF ParaLike(Top.prev) /\ sep = 0 THEN "interrupt" ELSE "none"]
           tag == IF ~isOrd THEN "<ul>" ELSE IF start = "1" THEN "<ol>" ELSE "<ol start=\"" \o start \o "\">"
       IN /\ SepOk(Top.prev, "list", sep) /\ OfdOk(sep) /\ ofd' = 0 /\ UNCHANGED <<need, defd>>
          \* without a blank line after a paragraph-like tip only a bullet list or an ordered
          \* list starting with 1 can start (5.2: interrupting a paragraph)
          /\ (ParaLike(Top.prev) /\ sep = 0 => (~isOrd \/ start = "1"))
          \* directly after another list it must be of another type, or it continues that list
          /\ (Top.prev = "list" => Top.ltype # lt)
          /\ stack' = Append([st1 EXCEPT ![n].prev = "list", ![n].ltype = lt], fr)
          /\ lines' = lines \o [i \in 1..sep |-> BlankLine]
          /\ toks' = Append(toks, tag)
          /\ budget' = budget - 1 /\ UNCHANGED fin

\* the next item of the open list: marker indentation di (the first item's is the list's; a
\* sibling's is 0..3 and less than the previous item's content offset, or it would be its
\* child), marker, s columns after it - or nothing after the marker (the item begins with an
\* empty line; its content offset is then the marker width + 1)
OpenItem ==
  /\ ~fin /\ budget > 0 /\ Top.kind = "list"
  /\ \E sep \in Pick(IF Top.n = 0 THEN {0} ELSE Seps), s \in Pick(IF Full THEN 1..4 ELSE {1, 3}), empty \in Pick(BOOLEAN),
        di \in Pick(IF Top.n = 0 THEN {Top.off} ELSE {x \in 0..3 : x < Top.prevOff /\ (Full \/ x \in {Top.off, 0})}) :
       LET n == Len(stack)
           L == Top
           isOrd == L.ltype \in {".", ")"}
           num == IF ~isOrd THEN "" ELSE IF L.n = 0 THEN L.start ELSE ToString(L.n + 3)  \* later numbers are free
           mk == IF isOrd THEN num \o L.ltype ELSE L.ltype
           w == IF empty THEN Len(mk) + 1 ELSE Len(mk) + s
           st1 == MarkSaw(stack, sep)
           markerLine == NonZero(FullPrefix \o <<I(di), S(mk)>>)
           fr == IF empty
                 THEN [Frame("item") EXCEPT !.cont = <<I(di + w)>>, !.off = di + w, !.start = "empty"]
                 ELSE [Frame("item") EXCEPT !.pend = NonZero(<<I(di)>>) \o <<S(mk), I(s)>>, !.cont = <<I(di + w)>>, !.off = di + w]
       IN /\ (L.tight => sep = 0)
          /\ OfdOk(sep) /\ ofd' = 0 /\ UNCHANGED <<need, defd>>
          \* 5.2: an empty item cannot interrupt a paragraph
          /\ (empty /\ L.n = 0 => L.prev # "interrupt")
          /\ (empty => WellFormed(markerLine))
          /\ stack' = Append([(IF empty THEN ClearPend(st1) ELSE st1) EXCEPT ![n].n = L.n + 1], fr)
          /\ lines' = lines \o [i \in 1..sep |-> BlankLine] \o (IF empty THEN <<markerLine>> ELSE <<>>)
          /\ toks' = Append(toks, "<li>")
          /\ UNCHANGED <<budget, fin>>

\* closing the innermost container
NeedsContent(fr) == fr.prev = "none"
Close ==
  /\ ~fin /\ Len(stack) > 1
  /\ LET n == Len(stack) fr == Top IN
     /\ (fr.kind \in {"quote", "item"} => fr.prev # "none")        \* no empty containers here
     /\ (fr.kind = "list" => fr.n > 0)
     /\ (fr.kind = "list" => (fr.tight = ~fr.saw))                  \* 5.3: tightness as announced
     \* an item of a tight list holds no blank line between its children: checked through saw
     /\ stack' = IF fr.kind = "list"
                 THEN [SubSeq(stack, 1, n - 1) EXCEPT ![n - 1].prevOff = fr.prevOff]
                 ELSE IF fr.kind = "item"
                 THEN [SubSeq(stack, 1, n - 1) EXCEPT ![n - 1].prevOff = fr.off]
                 ELSE SubSeq(stack, 1, n - 1)
     /\ toks' = toks \o (CASE fr.kind = "quote" -> <<"</blockquote>">> [] fr.kind = "item" -> <<"</li>">> [] OTHER -> fr.close)
     /\ UNCHANGED <<lines, budget, fin, ofd, need, defd>>

\* the end of the document closes everything
RECURSIVE CloseAll(_, _)
CloseAll(st, ts) ==
  IF Len(st) = 1 THEN ts
  ELSE LET fr == st[Len(st)] IN
       CloseAll(SubSeq(st, 1, Len(st) - 1),
                ts \o (CASE fr.kind = "quote" -> <<"</blockquote>">> [] fr.kind = "item" -> <<"</li>">> [] OTHER -> fr.close))
Consistent == \A i \in 1..Len(stack) :
   /\ (stack[i].kind \in {"quote", "item"} => stack[i].prev # "none")
   /\ (stack[i].kind = "list" => stack[i].n > 0 /\ stack[i].tight = ~stack[i].saw)
Finish ==
  /\ ~fin /\ Consistent
  /\ Len(lines) > 0
  /\ fin' = TRUE
  /\ toks' = CloseAll(stack, toks)
  /\ (need => defd)
  /\ (Emit => PrintT(ToJson([lines |-> lines, toks |-> toks'])))
  /\ UNCHANGED <<stack, lines, budget, ofd, need, defd>>

Init == /\ stack = <<Frame("doc")>> /\ lines = <<>> /\ toks = <<>> /\ budget = Budget /\ fin = FALSE
        /\ ofd = 0 /\ need = FALSE /\ defd = FALSE
Next == Para \/ Atx \/ Setext \/ Hr \/ Fenced \/ ICode \/ Html \/ Defs \/ OpenQuote \/ OpenList \/ OpenItem \/ Close \/ Finish
Spec == Init /\ [][Next]_vars

\* model-level sanity: pieces are well formed, the stack starts with the document
TypeOK == /\ stack[1].kind = "doc"
          /\ \A i \in 1..Len(lines) : \A k \in 1..Len(lines[i]) : lines[i][k][1] >= 0
=============================================================================
