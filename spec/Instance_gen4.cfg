CONSTANTS
  Docs = {"d1","d2","d3","d4"}
  MaxLen = 4
  Emit = TRUE
  Mode = "spec"
INIT Init
NEXT Next
INVARIANT Pure
CHECK_DEADLOCK FALSE
