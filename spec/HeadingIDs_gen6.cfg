CONSTANTS
  Slugs = {"a", "a-1", "a-1-1", "a-2", "heading", "heading-1", ""}
  MaxHeadings = 6
  MaxDocs = 1
  Emit = TRUE
  Mode = "spec"
INIT Init
NEXT Next
INVARIANTS NonEmpty Distinct HistoryIndependent
CHECK_DEADLOCK FALSE
