CONSTANTS
  MaxCols = 2
  MaxRows = 1
  MaxCells = 2
  Aligns = {"none", "left", "right", "center"}
  Edges = {"both", "none", "lead", "trail"}
  CellKinds = {"plain", "escpipe", "codepipe", "emptycells", "lonepipe", "doubletrail", "spaces", "inline", "codepipe2", "escpipe2"}
  Containers = {"top", "quote", "list"}
  Emit = FALSE
  Mode = "PadHeader"
INIT Init
NEXT Next
INVARIANT Rectangular
CHECK_DEADLOCK FALSE
