------------------------------ MODULE Footnote ------------------------------
(***************************************************************************)
(* S9 -- footnote bookkeeping (property C16).                               *)
(* A document is a sequence of items:                                       *)
(*   [k |-> "def",  l |-> label, ref |-> label or "none"]  definition whose *)
(*                                       body may itself contain a reference *)
(*   [k |-> "para", l |-> label, place |-> placement]       a reference in  *)
(*                                       some inline / block context        *)
(* The module computes what the extension computes -- definitions collected *)
(* in block-phase order, index assigned at the first reference in inline-   *)
(* phase order, reference counts, back-links, removal of unreferenced       *)
(* definitions -- AND which references are actually rendered (a reference   *)
(* inside image alt text, or inside the body of a definition that is        *)
(* dropped, is not).                                                        *)
(* Mode "Intended": unrendered references do not count (fix point over live *)
(* definitions) -- the P-invariants hold.                                   *)
(* Mode "AsCoded": every parsed reference counts, as in footnote.go -- TLC  *)
(* exhibits the two classes of dangling back-links (known findings).        *)
(* Every document is also emitted for replay on the real code.              *)
(***************************************************************************)
EXTENDS Integers, Sequences, FiniteSets, TLC, Json
CONSTANTS Labels, Places, MaxItems, Emit, Mode
VARIABLES doc, done
vars == <<doc, done>>

Items == [k : {"def"}, l : Labels, ref : Labels \cup {"none"}] \cup [k : {"para"}, l : Labels, place : Places]
Docs == UNION {[1..n -> Items] : n \in 1..MaxItems}

\* ---- references in inline-phase (document) order ----
RefOf(d, i) == IF d[i].k = "para" THEN <<[l |-> d[i].l, at |-> i, img |-> d[i].place = "imagealt", indef |-> 0]>>
               ELSE IF d[i].ref # "none" THEN <<[l |-> d[i].ref, at |-> i, img |-> FALSE, indef |-> i]>> ELSE <<>>
RECURSIVE RefsFrom(_, _)
RefsFrom(d, i) == IF i > Len(d) THEN <<>> ELSE RefOf(d, i) \o RefsFrom(d, i + 1)
IsDef(d, i) == d[i].k = "def"
HasDef(d, l) == \E i \in 1..Len(d) : IsDef(d, i) /\ d[i].l = l
FirstDef(d, l) == CHOOSE i \in 1..Len(d) : IsDef(d, i) /\ d[i].l = l /\ \A j \in 1..(i-1) : ~(IsDef(d, j) /\ d[j].l = l)
Resolved(d) == SelectSeq(RefsFrom(d, 1), LAMBDA r : HasDef(d, r.l))
Target(d, r) == FirstDef(d, r.l)

\* ---- which definitions are live (rendered) and which references are rendered ----
RECURSIVE LiveFix(_, _)
LiveFix(d, L) == LET rs == Resolved(d)
                     L2 == L \cup {Target(d, rs[j]) : j \in {j \in 1..Len(rs) : ~rs[j].img /\ (rs[j].indef = 0 \/ rs[j].indef \in L)}}
                 IN IF L2 = L THEN L ELSE LiveFix(d, L2)
LiveIntended(d) == LiveFix(d, {})
\* as coded: a definition is kept iff ANY parsed reference targets it
LiveCoded(d) == LET rs == Resolved(d) IN {Target(d, rs[j]) : j \in 1..Len(rs)}
Live(d) == IF Mode = "AsCoded" THEN LiveCoded(d) ELSE LiveIntended(d)
\* references that count for numbering / back-links
Counted(d) == IF Mode = "AsCoded" THEN Resolved(d)
              ELSE SelectSeq(Resolved(d), LAMBDA r : ~r.img /\ (r.indef = 0 \/ r.indef \in LiveIntended(d)))
\* references that really appear in the output
Rendered(d) == SelectSeq(Resolved(d), LAMBDA r : ~r.img /\ (r.indef = 0 \/ r.indef \in Live(d)))

\* ---- numbering: index = rank of the first counted reference to the definition ----
RECURSIVE Order(_, _, _)
Order(d, rs, acc) == IF rs = <<>> THEN acc
                     ELSE LET t == Target(d, Head(rs)) IN
                          Order(d, Tail(rs), IF \E j \in 1..Len(acc) : acc[j] = t THEN acc ELSE Append(acc, t))
Numbered(d) == Order(d, Counted(d), <<>>)         \* definitions in index order
IndexOf(d, t) == CHOOSE k \in 1..Len(Numbered(d)) : Numbered(d)[k] = t
\* j-th counted reference to t (0-based), as used in ids fnref:k, fnref1:k, ...
RefNo(d, r) == Cardinality({j \in 1..Len(Counted(d)) : Target(d, Counted(d)[j]) = Target(d, r) /\ Counted(d)[j].at < r.at})
            + Cardinality({j \in 1..Len(Counted(d)) : Target(d, Counted(d)[j]) = Target(d, r) /\ Counted(d)[j].at = r.at /\ Counted(d)[j].indef < r.indef})
RefCount(d, t) == Cardinality({j \in 1..Len(Counted(d)) : Target(d, Counted(d)[j]) = t})

\* ---- predicted output ----
OutItems(d) == Numbered(d)
OutRefIds(d) == {<<IndexOf(d, Target(d, Rendered(d)[j])), RefNo(d, Rendered(d)[j])>> : j \in 1..Len(Rendered(d))}
OutBacklinks(d) == UNION {{<<k, n>> : n \in 0..(RefCount(d, Numbered(d)[k]) - 1)} : k \in 1..Len(Numbered(d))}

\* Order documents (configuration constant MaxItems = 0): every label is referenced once and defined once;
\* all orders of the references x all orders of the definitions x which group comes first.  The items
\* of the list must come out in the order of the FIRST REFERENCES whatever the order of the definitions.
Seqs(S) == {f \in [1..Cardinality(S) -> S] : \A i, j \in 1..Cardinality(S) : i # j => f[i] # f[j]}
PermDocs == {IF first THEN [i \in 1..Len(p) |-> [k |-> "para", l |-> p[i], place |-> "plain"]] \o [i \in 1..Len(q) |-> [k |-> "def", l |-> q[i], ref |-> "none"]]
                      ELSE [i \in 1..Len(q) |-> [k |-> "def", l |-> q[i], ref |-> "none"]] \o [i \in 1..Len(p) |-> [k |-> "para", l |-> p[i], place |-> "plain"]]
             : p \in Seqs(Labels), q \in Seqs(Labels), first \in BOOLEAN}
Init == doc \in (IF MaxItems = 0 THEN PermDocs ELSE Docs) /\ done = FALSE
Finish == /\ ~done /\ done' = TRUE /\ UNCHANGED doc
          /\ (Emit => PrintT(ToJson([items |-> doc, nitems |-> Len(OutItems(doc)), nrefs |-> Len(Rendered(doc)),
                                     dangling |-> Cardinality(OutBacklinks(doc) \ OutRefIds(doc))])))
Next == Finish

\* ---- P-invariants (the statement) on the predicted output ----
BacklinksMatchRefs == OutBacklinks(doc) = OutRefIds(doc)
EveryItemReferenced == \A k \in 1..Len(Numbered(doc)) : \E j \in 1..Len(Rendered(doc)) : Target(doc, Rendered(doc)[j]) = Numbered(doc)[k]
RefsResolve == \A j \in 1..Len(Rendered(doc)) : \E k \in 1..Len(Numbered(doc)) : Numbered(doc)[k] = Target(doc, Rendered(doc)[j])
=============================================================================
