CONSTANTS
  Sigma <- SigmaMove
  MaxLen = 3
  Kind = "source"
  MaxAdv = 3
  Pads <- Pads012
  Slots = 2
  HidOn = TRUE
  Emit = FALSE
  Mode = "spec"
INIT Init
NEXT Next
INVARIANTS InBounds PeekConsistent PeekTruth Normalised
CHECK_DEADLOCK FALSE
