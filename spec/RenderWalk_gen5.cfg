CONSTANTS
  N = 5
  Emit = TRUE
INIT Init
NEXT Next
INVARIANT Covered
CHECK_DEADLOCK FALSE
