------------------------------ MODULE Instance ------------------------------
(***************************************************************************)
(* S1/S3 -- a configured instance as seen through its API (property C06).   *)
(* An instance converts documents; all per-document state lives in a        *)
(* context created by each Parse, so the output for a document is a         *)
(* function of the (frozen) configuration and the document alone.           *)
(*   Convert(d)        parse + render in one call                           *)
(*   ParseRender(d)    Parse, keep the tree, Render it                      *)
(*   ReRender(d)       Render again the tree kept for d                     *)
(* each either on the long-lived instance or (fresh = TRUE) on a new one;   *)
(*   Foreign(d)        another instance, built from the same package-level  *)
(*                     extension values with every option flipped, converts *)
(*                     d - instances share nothing that a conversion writes.*)
(* The output is modelled as the pair (document, context the parse saw,     *)
(* number of earlier renders of that tree); in "spec" mode the context is   *)
(* empty and rendering leaves the tree as it was, so the pair depends on    *)
(* the document only.  Negative controls: "LeakyContext" (what earlier      *)
(* documents defined stays visible), "RenderMutates" (each render changes   *)
(* the tree it renders), "SharedSingleton" (an option set on one instance    *)
(* reaches the others through a shared extension object).                   *)
(* TLC also prints every history: they are replayed on real instances; the   *)
(* output of a call is what arrives in the destination the caller handed to  *)
(* it - in the replay every second call writes through one caller-owned     *)
(* buffered writer, the others into a buffer of their own, and a            *)
(* destination must receive the bytes of exactly the calls it was given to. *)
(***************************************************************************)
EXTENDS Integers, Sequences, FiniteSets, TLC, Json
CONSTANTS Docs, MaxLen, Emit, Mode
VARIABLES seen,    \* documents the long-lived instance has parsed so far
          kept,    \* kept[d] = number of times the tree kept for d has been rendered, or -1
          hist,    \* the history of calls
          outs,    \* outs[d] = set of outputs observed for d
          taint    \* a foreign instance has converted something
vars == <<seen, kept, hist, outs, taint>>

Ctx(fresh) == IF Mode = "LeakyContext" /\ ~fresh THEN seen ELSE {}
Wear(n) == IF Mode = "RenderMutates" THEN n ELSE 0
Output(d, ctx, n) == <<d, ctx, Wear(n), Mode = "SharedSingleton" /\ taint>>

Init == seen = {} /\ kept = [d \in Docs |-> -1] /\ hist = <<>> /\ outs = [d \in Docs |-> {}] /\ taint = FALSE

Log(op, d, fresh) == /\ hist' = Append(hist, <<op, d, fresh>>)
                     /\ (Emit => PrintT(ToJson(hist')))

Convert(d, fresh) ==
  /\ Len(hist) < MaxLen
  /\ outs' = [outs EXCEPT ![d] = @ \cup {Output(d, Ctx(fresh), 0)}]
  /\ seen' = IF fresh THEN seen ELSE seen \cup {d}
  /\ UNCHANGED <<kept, taint>>
  /\ Log("convert", d, fresh)

ParseRender(d, fresh) ==
  /\ Len(hist) < MaxLen
  /\ outs' = [outs EXCEPT ![d] = @ \cup {Output(d, Ctx(fresh), 0)}]
  /\ seen' = IF fresh THEN seen ELSE seen \cup {d}
  /\ kept' = [kept EXCEPT ![d] = 1]
  /\ UNCHANGED taint
  /\ Log("parse+render", d, fresh)

ReRender(d) ==
  /\ Len(hist) < MaxLen /\ kept[d] >= 1
  /\ outs' = [outs EXCEPT ![d] = @ \cup {Output(d, {}, kept[d])}]
  /\ kept' = [kept EXCEPT ![d] = @ + 1]
  /\ UNCHANGED <<seen, taint>>
  /\ Log("rerender", d, FALSE)

Foreign(d) ==
  /\ Len(hist) < MaxLen /\ hist # <<>> /\ hist[Len(hist)][1] # "foreign"
  /\ taint' = TRUE
  /\ UNCHANGED <<seen, kept, outs>>
  /\ Log("foreign", d, TRUE)

Next == \E d \in Docs : (\E f \in BOOLEAN : Convert(d, f) \/ ParseRender(d, f)) \/ ReRender(d) \/ Foreign(d)
Spec == Init /\ [][Next]_vars

\* the output is a pure function of the document (configuration is fixed)
Pure == \A d \in Docs : Cardinality(outs[d]) <= 1
=============================================================================
