CONSTANTS
  Sigma <- SigmaClos
  MaxLen = 3
  Kind = "source"
  MaxAdv = 2
  Pads <- Pads02
  Slots = 1
  HidOn = FALSE
  Emit = TRUE
  Mode = "spec"
INIT Init
NEXT Next
INVARIANTS InBounds
CHECK_DEADLOCK FALSE
