------------------------------ MODULE Registry ------------------------------
(***************************************************************************)
(* S1/S2 -- the priority registry and its freeze step (property C20).       *)
(* A configuration is a set of probe components of ONE class together with  *)
(* the built-in component of that class:                                    *)
(*   "inline"   inline parsers on one trigger byte ('*': built-in emphasis  *)
(*              parser sits at BuiltinRank and accepts);                    *)
(*   "block"    block parsers; trig[c] says whether c is registered for the *)
(*              trigger byte or trigger-less; the built-in paragraph parser *)
(*              is trigger-less, sits at BuiltinRank and accepts;           *)
(*   "para"     paragraph transformers (all run);                           *)
(*   "ast"      AST transformers (all run);                                 *)
(*   "render"   node renderer functions for one node kind (built-in HTML    *)
(*              renderer sits at BuiltinRank).                              *)
(* Mechanism as coded: components are appended to a list in registration    *)
(* order (whatever route they come by), the first use sorts the list by     *)
(* priority and builds the dispatch structure: a list tried front to back   *)
(* for parsers / transformers; for renderers the list is walked from the    *)
(* LARGEST priority down and each entry overwrites the table slot, so the   *)
(* smallest priority value ends up in the table.                            *)
(* Property: the invocation log and the winner depend on (rank, accept,     *)
(* trig) only -- not on registration order or route.                        *)
(***************************************************************************)
EXTENDS Integers, Sequences, FiniteSets, TLC, Json

CONSTANTS Probes, Ranks, BuiltinRank, Class, Emit, Mode
B == "builtin"
Comp == Probes \cup {B}

VARIABLES rank, accept, trig, route, registered, phase, table, log, winner
vars == <<rank, accept, trig, route, registered, phase, table, log, winner>>

Range(s) == {s[i] : i \in 1..Len(s)}
Injective(f) == \A a, b \in DOMAIN f : a # b => f[a] # f[b]

\* ---- what the statement prescribes, as a function of (rank, accept, trig) only ----
SortedBy(S, r) == CHOOSE s \in [1..Cardinality(S) -> S] : Range(s) = S /\ \A i, j \in 1..Len(s) : i < j => r[s[i]] < r[s[j]]
\* parsers: triggered ones in ascending priority, then trigger-less ones in ascending priority
TryOrder(r, tg) == SortedBy({c \in Comp : tg[c]}, r) \o SortedBy({c \in Comp : ~tg[c]}, r)
RECURSIVE UpToFirst(_, _)
UpToFirst(s, acc) == IF s = <<>> THEN <<>> ELSE IF acc[Head(s)] THEN <<Head(s)>> ELSE <<Head(s)>> \o UpToFirst(Tail(s), acc)
ExpectLog(r, acc, tg) ==
  CASE Class \in {"inline", "block"} -> UpToFirst(TryOrder(r, tg), acc)
    [] Class \in {"para", "ast"}     -> SortedBy(Comp, r)
    [] Class = "render"              -> <<>>
ExpectWinner(r, acc, tg) ==
  CASE Class \in {"inline", "block"} -> LET l == UpToFirst(TryOrder(r, tg), acc) IN l[Len(l)]
    [] Class = "render"              -> CHOOSE c \in Comp : \A d \in Comp : r[c] <= r[d]
    [] OTHER -> "none"

\* ---- the mechanism ----
Init == /\ rank \in {f \in [Comp -> Ranks] : Injective(f) /\ f[B] = BuiltinRank}
        /\ accept \in {f \in [Comp -> BOOLEAN] : f[B] /\ (Class \in {"para", "ast", "render"} => \A c \in Comp : f[c])}
        /\ trig \in {f \in [Comp -> BOOLEAN] : (Class = "block" => ~f[B]) /\ (Class # "block" => \A c \in Comp : f[c])}
        /\ route \in [Probes -> {"option", "extension"}]
        /\ registered = <<B>>            \* built-ins are registered by goldmark.New itself
        /\ phase = "configuring" /\ table = <<>> /\ log = <<>> /\ winner = "none"

Register(c) == /\ phase = "configuring" /\ c \in Probes /\ c \notin Range(registered)
               /\ registered' = Append(registered, c)
               /\ UNCHANGED <<rank, accept, trig, route, phase, table, log, winner>>

\* stable or not, a sort by distinct priorities has one result
SortedReg == IF Mode = "NoSort" THEN registered ELSE SortedBy(Range(registered), rank)
Rev(s) == [i \in 1..Len(s) |-> s[Len(s) + 1 - i]]
Freeze == /\ phase = "configuring" /\ Range(registered) = Comp
          /\ phase' = "frozen"
          /\ table' = CASE Class \in {"inline", "block"} ->
                             SelectSeq(SortedReg, LAMBDA c : trig[c]) \o SelectSeq(SortedReg, LAMBDA c : ~trig[c])
                        [] Class \in {"para", "ast"} -> SortedReg
                        [] Class = "render" ->
                             \* registered from the highest priority value down; the last write wins
                             LET order == IF Mode = "RendererAscending" THEN SortedReg ELSE Rev(SortedReg)
                             IN <<order[Len(order)]>>
          /\ UNCHANGED <<rank, accept, trig, route, registered, log, winner>>

Use == /\ phase = "frozen"
       /\ phase' = "used"
       /\ log' = CASE Class \in {"inline", "block"} -> UpToFirst(table, accept)
                   [] Class \in {"para", "ast"} -> table
                   [] OTHER -> <<>>
       /\ winner' = CASE Class \in {"inline", "block"} -> LET l == UpToFirst(table, accept) IN l[Len(l)]
                      [] Class = "render" -> table[1]
                      [] OTHER -> "none"
       /\ UNCHANGED <<rank, accept, trig, route, registered, table>>
       /\ (Emit => PrintT(ToJson([class |-> Class, rank |-> rank, accept |-> accept, trig |-> trig, route |-> route,
                                  order |-> Tail(registered), log |-> log', winner |-> winner'])))

Next == (\E c \in Probes : Register(c)) \/ Freeze \/ Use
Spec == Init /\ [][Next]_vars

ByPriorityAlone == phase = "used" => /\ log = ExpectLog(rank, accept, trig)
                                     /\ winner = ExpectWinner(rank, accept, trig)
=============================================================================
