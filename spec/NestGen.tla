------------------------------ MODULE NestGen ------------------------------
(***************************************************************************)
(* S5: nested inline containers (properties C02, C05; workload of C01).      *)
(* A nest is a sequence of constructors applied, outermost first, to the     *)
(* word "a":  L link  [x](/uN)   I image  ![x](/uN)   E emphasis  *x*        *)
(*            S strong  __x__.                                               *)
(* CommonMark 6.3: links may not contain other links at any level of         *)
(* nesting (through emphasis and through image descriptions alike): when a   *)
(* link has been found, every earlier '[' opener is deactivated, so the      *)
(* brackets of an enclosing link are literal text; an image description may  *)
(* contain links, and its alt text is the plain string content (6.4).        *)
(* TLC enumerates every nest of up to MaxDepth constructors (at most one E   *)
(* and one S, so that delimiter runs pair as the nest says)                  *)
(* and prints [src, html]; the tree property "no Link below a Link" (C05)    *)
(* is decided on the real AST of each of them.                               *)
(***************************************************************************)
EXTENDS Integers, Sequences, TLC, Json
CONSTANTS MaxDepth, Emit
Cons == {"L", "I", "E", "S"}
Dig(n) == CASE n = 1 -> "1" [] n = 2 -> "2" [] n = 3 -> "3" [] n = 4 -> "4" [] n = 5 -> "5" [] n = 6 -> "6" [] OTHER -> "7"
Url(i) == "/u" \o Dig(i)
\* at most one E and one S: two runs of the same delimiter character around LITERAL brackets are both
\* left- and right-flanking ('[' and ']' are punctuation) and would pair differently than the nest says
Count(q, c) == Len(SelectSeq(q, LAMBDA x : x = c))
WellFormed(q) == Count(q, "E") <= 1 /\ Count(q, "S") <= 1
Nests == {q \in UNION {[1..n -> Cons] : n \in 1..MaxDepth} : WellFormed(q)}

RECURSIVE Src(_, _)
Src(q, i) == IF i > Len(q) THEN "a"
             ELSE LET x == Src(q, i + 1) IN
               CASE q[i] = "L" -> "[" \o x \o "](" \o Url(i) \o ")"
                 [] q[i] = "I" -> "![" \o x \o "](" \o Url(i) \o ")"
                 [] q[i] = "E" -> "*" \o x \o "*"
                 [] OTHER -> "__" \o x \o "__"

\* [html, alt, hl]: rendering, plain string content, contains a (real) link
RECURSIVE Sem(_, _)
Sem(q, i) == IF i > Len(q) THEN [html |-> "a", alt |-> "a", hl |-> FALSE]
             ELSE LET x == Sem(q, i + 1) IN
               CASE q[i] = "E" -> [x EXCEPT !.html = "<em>" \o @ \o "</em>"]
                 [] q[i] = "S" -> [x EXCEPT !.html = "<strong>" \o @ \o "</strong>"]
                 [] q[i] = "I" -> [x EXCEPT !.html = "<img src=\"" \o Url(i) \o "\" alt=\"" \o x.alt \o "\" />"]
                 [] OTHER -> IF x.hl
                             THEN [html |-> "[" \o x.html \o "](" \o Url(i) \o ")", alt |-> "[" \o x.alt \o "](" \o Url(i) \o ")", hl |-> TRUE]
                             ELSE [html |-> "<a href=\"" \o Url(i) \o "\">" \o x.html \o "</a>", alt |-> x.alt, hl |-> TRUE]

\* model-level property: the prescribed rendering never nests anchors
RECURSIVE Depth(_, _)
\* number of real links on the chain from position i inwards
Depth(q, i) == IF i > Len(q) THEN 0 ELSE Depth(q, i + 1) + (IF q[i] = "L" /\ ~Sem(q, i + 1).hl THEN 1 ELSE 0)

VARIABLES nest, done
vars == <<nest, done>>
Init == nest \in Nests /\ done = FALSE
Next == /\ ~done /\ done' = TRUE /\ UNCHANGED nest
        /\ (Emit => PrintT(ToJson([src |-> Src(nest, 1), html |-> Sem(nest, 1).html])))
AtMostOneLink == Depth(nest, 1) <= 1
=============================================================================
