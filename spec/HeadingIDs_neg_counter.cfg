CONSTANTS
  Slugs = {"a", "a-1", "a-1-1", "a-2", "heading", "heading-1", ""}
  MaxHeadings = 3
  MaxDocs = 1
  Emit = FALSE
  Mode = "Counter"
INIT Init
NEXT Next
INVARIANTS NonEmpty Distinct HistoryIndependent
CHECK_DEADLOCK FALSE
