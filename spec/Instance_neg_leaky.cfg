CONSTANTS
  Docs = {"d1","d2"}
  MaxLen = 3
  Emit = FALSE
  Mode = "LeakyContext"
INIT Init
NEXT Next
INVARIANT Pure
CHECK_DEADLOCK FALSE
