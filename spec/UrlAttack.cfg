CONSTANTS
  Schemes = {"javascript", "vbscript", "file", "data", "datahtml", "dataimg"}
  Cases = {"lower", "upper", "mixed", "firstupper"}
  Obfuscations = {"none", "backslash", "named", "decimal", "hex", "hexupper", "decimalpad", "percent", "leadsp", "leadtab", "leadnl", "leadc0", "leadspent", "leadtabent", "leadnlent", "leadnbsp", "midtab", "midnl", "midtabent", "midnlent", "midcrent", "midzwsp", "doubleamp", "doublehash"}
  Positions = {"first", "middle", "colon"}
  Constructs = {"inline", "angle", "refdef", "refdefangle", "collapsed", "shortcut", "image", "imageref", "autolink", "linkify", "linktitle", "nestedimg", "footnote", "table", "deflist", "quote", "heading"}
  Tails = {"plain", "slashnl", "slashsp", "badport", "badv6", "badpct", "ctl", "userinfo", "colononly"}
  SimpleObf = {"none", "leadsp", "midtab", "named", "percent"}
INIT Init
NEXT Next
INVARIANT TypeOK
CHECK_DEADLOCK FALSE
