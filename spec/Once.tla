-------------------------------- MODULE Once --------------------------------
(***************************************************************************)
(* S1 + S13 under concurrency (property C07).  G goroutines use one shared  *)
(* Markdown / Parser / Renderer value at the same time, first uses          *)
(* included.  Three lazily built tables, each guarded by a sync.Once:       *)
(*    "P"  parser dispatch tables       parser/parser.go   Parse            *)
(*    "R"  renderer function table      renderer/renderer.go Render         *)
(*    "E"  HTML5 entity map             util/html5entities.go               *)
(* One action per hook event of the verif build (a GATE: the harness can    *)
(* hold a goroutine there) plus the two internal steps of sync.Once that    *)
(* have no hook: entering Do (DoOnce) and marking it done (Release).        *)
(* A location names the gate the goroutine is waiting at, or "Do:o" /       *)
(* "Rel:o" for the internal steps.  The effect of passing a gate is the     *)
(* code between that hook and the next location.                            *)
(*                                                                          *)
(*   parse call :  ParseEnter  Do:P [InitEnter InitStep InitDone Rel:P]     *)
(*                 TablesRead  work(W chunks, gates PWork2..)  ParseReturn  *)
(*   render call:  Start(render only)  Do:R [RInitEnter RInitDone Rel:R]    *)
(*                 RTablesRead work(W chunks, gates RWork2..)  Done         *)
(*   any work chunk may look up an entity: Do:E [EntInitEnter EntInitDone   *)
(*                 Rel:E] and then reads the entity table                   *)
(*                                                                          *)
(* What a call returns is modelled by what it read: seen[g] is the set      *)
(* of <<table, state of the table when read>>; run alone every read sees    *)
(* "built", so "returns what it would return alone" is ReadsBuilt.          *)
(*                                                                          *)
(* Mode = "spec" is sync.Once.  Negative controls:                          *)
(*   "OnceDisabled"  if !inited { build; inited = true }  without exclusion *)
(*   "FlagEarly"     the done flag is set before the tables are built       *)
(* Emit = TRUE prints every transition as JSON; the harness turns paths of  *)
(* gate steps (internal steps taken eagerly) into schedules.                *)
(***************************************************************************)
EXTENDS Integers, Sequences, FiniteSets, TLC, Json
CONSTANTS G,        \* goroutines
          Api,      \* [G -> {"convert","parse","render"}]
          W,        \* work chunks per phase (W-1 chunk-boundary gates)
          EntStart, \* "idle" | "done": the entity table is per process
          EntAt,    \* chunks <<phase, k>> that look up an entity
          EntAny,   \* TRUE: any chunk may or may not (EntAt is ignored)
          Mode, Emit
O == {"P", "R", "E"}
NoG == "none"
VARIABLES pc, once, owner, tab, ret, seen, inits, flag
vars == <<pc, once, owner, tab, ret, seen, inits, flag>>

State == [pc |-> pc, once |-> once, tab |-> tab, ret |-> ret]
Out(g, kind, ev, nxt) == Emit => PrintT(ToJson([from |-> State, g |-> g, kind |-> kind, ev |-> ev, to |-> nxt]))

WorkGate(ph, k) == ph \o "Work" \o ToString(k)          \* "PWork2", "RWork3", ...
\* location after chunk k (k = 1..W) of phase ph has run
AfterChunk(ph, k) == IF k < W THEN WorkGate(ph, k + 1) ELSE IF ph = "P" THEN "ParseReturn" ELSE "Done"
AfterParse(g) == IF Api[g] = "convert" THEN "Do:R" ELSE "Done"

Init ==
  /\ pc = [g \in G |-> IF Api[g] = "render" THEN "Start" ELSE "ParseEnter"]
  /\ once = [o \in O |-> IF o = "E" THEN EntStart ELSE "idle"]
  /\ owner = [o \in O |-> NoG]
  /\ tab = [o \in O |-> IF o = "E" /\ EntStart = "done" THEN "built" ELSE "unbuilt"]
  /\ ret = [g \in G |-> "Done"]
  /\ seen = [g \in G |-> {}]
  /\ inits = [o \in O |-> 0]
  /\ flag = [o \in O |-> (o = "E" /\ EntStart = "done")]

Body(o) == CASE o = "P" -> "InitEnter" [] o = "R" -> "RInitEnter" [] o = "E" -> "EntInitEnter"
AfterOnce(g, o) == CASE o = "P" -> "TablesRead" [] o = "R" -> "RTablesRead" [] o = "E" -> ret[g]
ReadE(g, o) == IF o = "E" THEN seen[g] \cup {<<"E", tab["E"]>>} ELSE seen[g]

----------------------------------------------------------------------------
\* internal steps of sync.Once (no hook)
DoOnce(g, o) ==
  /\ pc[g] = "Do:" \o o
  /\ IF Mode = "spec"
     THEN \/ /\ once[o] = "idle"
             /\ once' = [once EXCEPT ![o] = "running"] /\ owner' = [owner EXCEPT ![o] = g]
             /\ pc' = [pc EXCEPT ![g] = Body(o)] /\ UNCHANGED seen
          \/ /\ once[o] = "done"
             /\ pc' = [pc EXCEPT ![g] = AfterOnce(g, o)] /\ seen' = [seen EXCEPT ![g] = ReadE(g, o)]
             /\ UNCHANGED <<once, owner>>
          \* once[o] = "running": blocked on the once's mutex
     ELSE \* a plain flag test, no exclusion
          /\ UNCHANGED <<once, owner>>
          /\ IF flag[o] THEN /\ pc' = [pc EXCEPT ![g] = AfterOnce(g, o)]
                              /\ seen' = [seen EXCEPT ![g] = ReadE(g, o)]
                        ELSE /\ pc' = [pc EXCEPT ![g] = Body(o)] /\ UNCHANGED seen
  /\ UNCHANGED <<tab, ret, inits, flag>>
  /\ Out(g, "int", "Do:" \o o, [pc |-> pc', once |-> once', tab |-> tab', ret |-> ret'])

Release(g, o) ==
  /\ pc[g] = "Rel:" \o o
  /\ once' = [once EXCEPT ![o] = IF Mode = "spec" THEN "done" ELSE @]
  /\ owner' = [owner EXCEPT ![o] = NoG]
  /\ flag' = [flag EXCEPT ![o] = TRUE]
  /\ pc' = [pc EXCEPT ![g] = AfterOnce(g, o)]
  /\ seen' = [seen EXCEPT ![g] = ReadE(g, o)]
  /\ UNCHANGED <<tab, ret, inits>>
  /\ Out(g, "int", "Rel:" \o o, [pc |-> pc', once |-> once', tab |-> tab', ret |-> ret'])

----------------------------------------------------------------------------
\* gates
Pass(g, gate, nxt) == /\ pc[g] = gate /\ pc' = [pc EXCEPT ![g] = nxt]
                      /\ Out(g, "gate", gate, [pc |-> pc', once |-> once', tab |-> tab', ret |-> ret'])

ParseEnter(g) == UNCHANGED <<once, owner, tab, ret, seen, inits, flag>> /\ Pass(g, "ParseEnter", "Do:P")
Start(g)      == UNCHANGED <<once, owner, tab, ret, seen, inits, flag>> /\ Pass(g, "Start", "Do:R")

\* the init bodies: passing XInitEnter starts writing the tables
InitEnter(g) == /\ tab' = [tab EXCEPT !["P"] = "partial"] /\ inits' = [inits EXCEPT !["P"] = @ + 1]
                /\ flag' = [flag EXCEPT !["P"] = IF Mode = "FlagEarly" THEN TRUE ELSE @]
                /\ UNCHANGED <<once, owner, ret, seen>> /\ Pass(g, "InitEnter", "InitStep")
InitStep(g)  == /\ tab' = [tab EXCEPT !["P"] = "built"]
                /\ UNCHANGED <<once, owner, ret, seen, inits, flag>> /\ Pass(g, "InitStep", "InitDone")
InitDone(g)  == UNCHANGED <<once, owner, tab, ret, seen, inits, flag>> /\ Pass(g, "InitDone", "Rel:P")
RInitEnter(g) == /\ tab' = [tab EXCEPT !["R"] = "built"] /\ inits' = [inits EXCEPT !["R"] = @ + 1]
                 /\ flag' = [flag EXCEPT !["R"] = IF Mode = "FlagEarly" THEN TRUE ELSE @]
                 /\ UNCHANGED <<once, owner, ret, seen>> /\ Pass(g, "RInitEnter", "RInitDone")
RInitDone(g)  == UNCHANGED <<once, owner, tab, ret, seen, inits, flag>> /\ Pass(g, "RInitDone", "Rel:R")
EntInitEnter(g) == /\ tab' = [tab EXCEPT !["E"] = "built"] /\ inits' = [inits EXCEPT !["E"] = @ + 1]
                   /\ flag' = [flag EXCEPT !["E"] = IF Mode = "FlagEarly" THEN TRUE ELSE @]
                   /\ UNCHANGED <<once, owner, ret, seen>> /\ Pass(g, "EntInitEnter", "EntInitDone")
EntInitDone(g)  == UNCHANGED <<once, owner, tab, ret, seen, inits, flag>> /\ Pass(g, "EntInitDone", "Rel:E")

\* a work chunk either looks up an entity (Do:E, then continues) or does not
Chunk(g, gate, after, ph, k) ==
  \/ /\ (EntAny \/ <<ph, k>> \notin EntAt)
     /\ UNCHANGED ret /\ Pass(g, gate, after)
  \/ /\ (EntAny \/ <<ph, k>> \in EntAt)
     /\ ret' = [ret EXCEPT ![g] = after] /\ Pass(g, gate, "Do:E")

TablesRead(g)  == /\ seen' = [seen EXCEPT ![g] = @ \cup {<<"P", tab["P"]>>}]
                  /\ UNCHANGED <<once, owner, tab, inits, flag>>
                  /\ Chunk(g, "TablesRead", AfterChunk("P", 1), "P", 1)
RTablesRead(g) == /\ seen' = [seen EXCEPT ![g] = @ \cup {<<"R", tab["R"]>>}]
                  /\ UNCHANGED <<once, owner, tab, inits, flag>>
                  /\ Chunk(g, "RTablesRead", AfterChunk("R", 1), "R", 1)
Work(g, ph, k) == /\ UNCHANGED <<once, owner, tab, seen, inits, flag>>
                  /\ Chunk(g, WorkGate(ph, k), AfterChunk(ph, k), ph, k)
ParseReturn(g) == UNCHANGED <<once, owner, tab, ret, seen, inits, flag>> /\ Pass(g, "ParseReturn", AfterParse(g))

Step(g) ==
  \/ \E o \in O : DoOnce(g, o) \/ Release(g, o)
  \/ ParseEnter(g) \/ Start(g) \/ InitEnter(g) \/ InitStep(g) \/ InitDone(g)
  \/ RInitEnter(g) \/ RInitDone(g) \/ EntInitEnter(g) \/ EntInitDone(g)
  \/ TablesRead(g) \/ RTablesRead(g) \/ ParseReturn(g)
  \/ \E ph \in {"P", "R"}, k \in 2..W : Work(g, ph, k)
Next == \E g \in G : Step(g)
Spec == Init /\ [][Next]_vars /\ \A g \in G : WF_vars(Step(g))

----------------------------------------------------------------------------
AllDone == \A g \in G : pc[g] = "Done"
\* every read of a lazily built table sees the finished table: the call computes what it
\* would compute alone
ReadsBuilt == \A g \in G : \A x \in seen[g] : x[2] = "built"
\* each table is built at most once
InitOnce == \A o \in O : inits[o] <= 1
\* only the goroutine that owns the running once is inside the init body
InBody(g, o) == pc[g] \in (CASE o = "P" -> {"InitEnter", "InitStep", "InitDone", "Rel:P"}
                             [] o = "R" -> {"RInitEnter", "RInitDone", "Rel:R"}
                             [] o = "E" -> {"EntInitEnter", "EntInitDone", "Rel:E"})
OwnerExclusive == \A o \in O : \A g \in G : InBody(g, o) => (once[o] = "running" /\ owner[o] = g)
\* a finished table is never written again
NoWriteAfterDone == [][\A o \in O : once[o] = "done" => tab'[o] = tab[o]]_vars
\* what each finished call read is exactly what it reads when run alone
Alone(g) == LET p == IF Api[g] \in {"convert", "parse"} THEN {"P"} ELSE {}
                r == IF Api[g] \in {"convert", "render"} THEN {"R"} ELSE {}
            IN p \cup r
ResultSequential == \A g \in G : pc[g] = "Done" =>
    /\ {x[1] : x \in seen[g]} \ {"E"} = Alone(g)
    /\ \A x \in seen[g] : x[2] = "built"
Terminates == <>AllDone
=============================================================================
