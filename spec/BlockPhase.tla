----------------------------- MODULE BlockPhase -----------------------------
(***************************************************************************)
(* S4 as implemented: the line-driven open-block list of parser.parseBlocks *)
(* (parser/parser.go), one action per hook event of the verif build.        *)
(* Trace acceptor (mechanism level: breaches are CONTRACT-WARNINGs; they    *)
(* localise a failure to a parser and a line, they never decide a verdict). *)
(* File blocks.ndjson: one parse per line, evs = its events with node       *)
(* numbers renamed by first occurrence.                                     *)
(*   open    the opened-blocks list (pc.OpenedBlocks), outermost first      *)
(*   closed  nodes that have been closed                                    *)
(*   lastc   <<line, position>> of the last Continue on the current line    *)
(* Protocol (BlockParser contract, parser.go "type BlockParser"):           *)
(*   Open     returns nil or a node whose parent is the document or an open *)
(*            block; must not leave its line; a node that is already open   *)
(*            is the named deviation Reopen (definition lists)              *)
(*   Continue is asked of open blocks only, outermost first on each line;   *)
(*            must not leave its line                                       *)
(*   Close    names the position the block has in the list: blocks leave    *)
(*            the list from the position given (closeBlocks(from, to)       *)
(*            removes a range that need not be the tail, because blocks     *)
(*            opened on the current line are appended before the blocks     *)
(*            they replace are closed); every block is closed at most once  *)
(*   Discard  drops the newest block: it was opened with RequireParagraph    *)
(*            and its paragraph has been transformed away (named deviation) *)
(*   EndOfInput lists exactly the open blocks; at ParseReturn none is open  *)
(*   InlineTry (inline phase, successful parses only): the reader advanced  *)
(***************************************************************************)
EXTENDS Integers, Sequences, FiniteSets, TLC, Json, IOUtils
Parses == ndJsonDeserialize("blocks.ndjson")
VARIABLES r, i, open, closed, lastc, bad, reopen
vars == <<r, i, open, closed, lastc, bad, reopen>>

Pos(n) == IF \E k \in 1..Len(open) : open[k] = n THEN CHOOSE k \in 1..Len(open) : open[k] = n ELSE 0
Remove(k) == SubSeq(open, 1, k - 1) \o SubSeq(open, k + 1, Len(open))
Flag(why) == bad' = IF \E k \in 1..Len(bad) : bad[k].l = r THEN bad ELSE Append(bad, [l |-> r, why |-> why, fn |-> ToString(i), t |-> 0])

Init == r = 1 /\ i = 1 /\ open = <<>> /\ closed = {} /\ lastc = <<0, 0>> /\ bad = <<>> /\ reopen = 0

Step ==
  /\ r <= Len(Parses)
  /\ LET evs == Parses[r].evs IN
     IF i > Len(evs)
     THEN /\ r' = r + 1 /\ i' = 1 /\ open' = <<>> /\ closed' = {} /\ lastc' = <<0, 0>>
          /\ (IF open # <<>> THEN Flag("open-blocks-at-return") ELSE UNCHANGED bad)
          /\ UNCHANGED reopen
     ELSE LET e == evs[i] IN
          /\ r' = r /\ i' = i + 1
          /\ CASE e.ev = "Open" ->
                  IF e.node = 0
                  THEN /\ (IF ~e.same THEN Flag("declining-open-left-its-line") ELSE UNCHANGED bad)
                       /\ UNCHANGED <<open, closed, lastc, reopen>>
                  ELSE IF Pos(e.node) > 0
                  THEN \* named deviation Reopen (definition lists): a parser returns a block that is
                       \* still open; it is appended again and the list holds it twice for a while
                       /\ reopen' = reopen + 1 /\ open' = Append(open, e.node) /\ UNCHANGED <<closed, lastc, bad>>
                  ELSE IF e.node \in closed /\ e.kind = "DefinitionList"
                  THEN \* named deviation: the definition list parser continues a list it has closed
                       /\ reopen' = reopen + 1 /\ open' = Append(open, e.node) /\ closed' = closed \ {e.node}
                       /\ UNCHANGED <<lastc, bad>>
                  ELSE /\ open' = Append(open, e.node)
                       /\ (IF ~e.same THEN Flag("open-left-its-line")
                           ELSE IF e.node \in closed THEN Flag("closed-block-reopened")
                           ELSE IF ~(e.parent = Parses[r].root \/ Pos(e.parent) > 0) THEN Flag("parent-not-open")
                           ELSE UNCHANGED bad)
                       /\ UNCHANGED <<closed, lastc, reopen>>
               [] e.ev = "Continue" ->
                  LET from == IF lastc[1] = e.ln THEN lastc[2] ELSE 0
                      ks == {k \in (from + 1)..Len(open) : open[k] = e.node}
                      k == IF ks = {} THEN 0 ELSE CHOOSE x \in ks : \A y \in ks : x <= y
                  IN /\ lastc' = <<e.ln, IF k > 0 THEN k ELSE from>>
                     /\ (IF Pos(e.node) = 0 THEN Flag("continue-of-a-block-that-is-not-open")
                         ELSE IF k = 0 THEN Flag("continue-not-outermost-first")
                         ELSE IF ~e.same THEN Flag("continue-left-its-line")
                         ELSE UNCHANGED bad)
                     /\ UNCHANGED <<open, closed, reopen>>
               [] e.ev = "ParaContinue" ->
                  /\ (IF Pos(e.node) # Len(open) \/ Len(open) = 0 THEN Flag("paragraph-continuation-not-at-the-tip") ELSE UNCHANGED bad)
                  /\ UNCHANGED <<open, closed, lastc, reopen>>
               [] e.ev = "Close" ->
                  LET k == IF e.idx + 1 <= Len(open) /\ open[e.idx + 1] = e.node THEN e.idx + 1 ELSE Pos(e.node)
                      rest == IF k > 0 THEN Remove(k) ELSE open
                  IN /\ open' = rest
                     /\ closed' = IF \E x \in 1..Len(rest) : rest[x] = e.node THEN closed ELSE closed \cup {e.node}
                     /\ (IF k = 0 THEN (IF e.node \in closed THEN Flag("closed-twice") ELSE Flag("close-of-a-block-that-is-not-open"))
                         ELSE IF k # e.idx + 1 THEN Flag("close-position-mismatch")
                         ELSE UNCHANGED bad)
                     /\ UNCHANGED <<lastc, reopen>>
               [] e.ev = "Discard" ->
                  \* a block opened with RequireParagraph whose paragraph was transformed away is
                  \* dropped before it joins the list (the line is parsed again)
                  LET k == Pos(e.node) IN
                  /\ open' = IF k > 0 THEN Remove(k) ELSE open
                  /\ (IF k # Len(open) \/ k = 0 THEN Flag("discard-of-a-block-that-is-not-the-newest") ELSE UNCHANGED bad)
                  /\ UNCHANGED <<closed, lastc, reopen>>
               [] e.ev = "InlineTry" ->
                  \* S5 progress: an inline parser that returns a node has moved the block reader
                  \* forward (otherwise the retry loop of parseBlock would not terminate)
                  /\ (IF ~e.same THEN Flag("inline-parser-returned-a-node-without-advancing") ELSE UNCHANGED bad)
                  /\ UNCHANGED <<open, closed, lastc, reopen>>
               [] e.ev = "EndOfInput" ->
                  /\ (IF e.open # open THEN Flag("end-of-input-list-differs") ELSE UNCHANGED bad)
                  /\ UNCHANGED <<open, closed, lastc, reopen>>
               [] OTHER -> UNCHANGED <<open, closed, lastc, bad, reopen>>

Report == (r = Len(Parses) + 1) =>
   PrintT(ToJson([done |-> TRUE, consumed |-> r - 1, reopen |-> reopen,
                  bad |-> bad]))
=============================================================================
