------------------------------- MODULE AstTree -------------------------------
(***************************************************************************)
(* S6 -- the AST as a plain ordered forest (property C13, also the meaning  *)
(* of "structurally consistent" for C05).                                   *)
(*                                                                         *)
(* State: kids[n] is the ordered child list of n.  Everything the public    *)
(* accessors of ast.Node return is DERIVED from it (Parent, First/Last,     *)
(* Next/Prev, ChildCount, HasChildren).  One action per mutator of          *)
(* ast.BaseNode, with the documented meaning:                               *)
(*   - a moved node leaves its old parent first;                            *)
(*   - inserting relative to NIL or to a node that is not a child of the    *)
(*     receiver appends;                                                    *)
(*   - ReplaceChild(old not a child) appends; RemoveChild(not a child) is   *)
(*     a no-op;                                                             *)
(*   - SortChildren yields ANY ordering of the children that is sorted by   *)
(*     the comparator (ties unconstrained).                                 *)
(* Guards are exactly the property's proviso: the inserted node is neither  *)
(* the receiver nor one of its ancestors, and is not the reference itself.  *)
(***************************************************************************)
EXTENDS Naturals, Sequences, FiniteSets, TLC, Json

CONSTANTS Node,      \* pool of node names (strings)
          NIL,       \* the nil reference (a string not in Node)
          Key,       \* Key[n] \in Nat : sort key, with ties
          Emit,      \* BOOLEAN: print every transition as JSON (generator use)
          Mode       \* "spec" | "NoDetach" | "DoubleCount"  (negative controls)

VARIABLES kids,      \* [Node -> Seq(Node)]
          cnt        \* [Node -> Nat]  cached count; = Len(kids[n]) in the real spec.
                     \* It is a separate variable only so that the DoubleCount
                     \* negative control can express the shipped defect.

vars == <<kids, cnt>>

Range(s) == {s[i] : i \in 1..Len(s)}
Children(k, p) == Range(k[p])
ParentIn(k, c) == IF \E p \in Node : c \in Children(k, p)
                  THEN CHOOSE p \in Node : c \in Children(k, p) ELSE NIL
Parent(c) == ParentIn(kids, c)

\* ancestors-or-self of n
AncSelf(n) ==
  LET N == Cardinality(Node)
      up[i \in 0..N] == IF i = 0 THEN {n}
                        ELSE LET u == up[i-1] IN u \cup ({ParentIn(kids, x) : x \in u} \ {NIL})
  IN up[N]

Remove(s, c) == SelectSeq(s, LAMBDA x : x # c)
Detach(k, c) == IF Mode = "NoDetach" THEN k ELSE [p \in Node |-> Remove(k[p], c)]
IndexOf(s, x) == CHOOSE i \in 1..Len(s) : s[i] = x
InsertAt(s, i, c) == SubSeq(s, 1, i-1) \o <<c>> \o SubSeq(s, i, Len(s))
Counts(k) == [p \in Node |-> Len(k[p])]

IsSorted(s) == \A i \in 1..(Len(s)-1) : Key[s[i]] <= Key[s[i+1]]
Perms(s) == {t \in [1..Len(s) -> Range(s)] : Range(t) = Range(s)}
SortedPerms(s) == {t \in Perms(s) : IsSorted(t)}

Out(op) == IF Emit THEN PrintT(ToJson(op)) ELSE TRUE

\* ---- results as operators over an explicit forest k (shared by the actions below and by
\* ---- the trace monitor TraceAstTree, which evaluates them on the replayed state) ----
AncSelfIn(k, n) ==
  LET N == Cardinality(Node)
      up[i \in 0..N] == IF i = 0 THEN {n}
                        ELSE LET u == up[i-1] IN u \cup ({ParentIn(k, x) : x \in u} \ {NIL})
  IN up[N]
LegalIn(k, p, c) == c \notin AncSelfIn(k, p)      \* c # p and c is not an ancestor of p

AppendTo(k, p, c)        == LET d == Detach(k, c) IN [d EXCEPT ![p] = Append(@, c)]
InsertBeforeTo(k, p, r, c) == LET d == Detach(k, c) IN
                               IF r # NIL /\ r \in Range(d[p])
                               THEN [d EXCEPT ![p] = InsertAt(@, IndexOf(@, r), c)]
                               ELSE [d EXCEPT ![p] = Append(@, c)]
InsertAfterTo(k, p, r, c) == LET d == Detach(k, c) IN
                               IF r # NIL /\ r \in Range(d[p])
                               THEN [d EXCEPT ![p] = InsertAt(@, IndexOf(@, r) + 1, c)]
                               ELSE [d EXCEPT ![p] = Append(@, c)]
ReplaceTo(k, p, old, c)  == LET d == Detach(k, c) IN
                               IF old # NIL /\ old \in Range(d[p])
                               THEN [d EXCEPT ![p] = [@ EXCEPT ![IndexOf(@, old)] = c]]
                               ELSE [d EXCEPT ![p] = Append(@, c)]
RemoveTo(k, p, c)        == IF c \in Range(k[p]) THEN [k EXCEPT ![p] = Remove(@, c)] ELSE k
RemoveAllTo(k, p)        == [k EXCEPT ![p] = <<>>]
SortTo(k, p)             == {[k EXCEPT ![p] = t] : t \in SortedPerms(k[p])}
\* the same as a predicate (o \in SortTo(k, p) without enumerating permutations: long sibling lists)
SortAllows(k, p, o)      == /\ \A q \in Node \ {p} : o[q] = k[q]
                            /\ Len(o[p]) = Len(k[p]) /\ Range(o[p]) = Range(k[p]) /\ IsSorted(o[p])

\* guard (the property's proviso) and the set of allowed results of one call
OpOk(k, op, p, r, c) ==
  CASE op = "AppendChild"    -> LegalIn(k, p, c)
    [] op = "InsertBefore"   -> LegalIn(k, p, c) /\ c # r
    [] op = "InsertAfter"    -> LegalIn(k, p, c) /\ c # r
    [] op = "ReplaceChild"   -> LegalIn(k, p, c) /\ c # r
    [] op = "RemoveChild"    -> c # p
    [] op = "RemoveChildren" -> TRUE
    [] op = "SortChildren"   -> TRUE
    [] OTHER -> FALSE
OpTo(k, op, p, r, c) ==
  CASE op = "AppendChild"    -> {AppendTo(k, p, c)}
    [] op = "InsertBefore"   -> {InsertBeforeTo(k, p, r, c)}
    [] op = "InsertAfter"    -> {InsertAfterTo(k, p, r, c)}
    [] op = "ReplaceChild"   -> {ReplaceTo(k, p, r, c)}
    [] op = "RemoveChild"    -> {RemoveTo(k, p, c)}
    [] op = "RemoveChildren" -> {RemoveAllTo(k, p)}
    [] op = "SortChildren"   -> SortTo(k, p)

Init == /\ kids = [n \in Node |-> <<>>]
        /\ cnt  = [n \in Node |-> 0]

Do(op, p, r, c) ==
  /\ OpOk(kids, op, p, r, c)
  /\ kids' \in OpTo(kids, op, p, r, c)
  /\ cnt' = IF Mode = "DoubleCount" /\ op = "InsertBefore" /\ r = NIL
            THEN [Counts(kids') EXCEPT ![p] = @ + 1] ELSE Counts(kids')
  /\ Out([op |-> op, p |-> p, c |-> c, ref |-> r, from |-> kids, to |-> OpTo(kids, op, p, r, c)])

AppendChild(p, c)       == Do("AppendChild", p, NIL, c)
InsertBefore(p, r, c)   == Do("InsertBefore", p, r, c)
InsertAfter(p, r, c)    == Do("InsertAfter", p, r, c)
ReplaceChild(p, old, c) == Do("ReplaceChild", p, old, c)
RemoveChild(p, c)       == Do("RemoveChild", p, NIL, c)
RemoveChildren(p)       == Do("RemoveChildren", p, NIL, NIL)
SortChildren(p)         == Do("SortChildren", p, NIL, NIL)

Next ==
  \/ \E p, c \in Node : AppendChild(p, c)
  \/ \E p, c \in Node, r \in Node \cup {NIL} : InsertBefore(p, r, c)
  \/ \E p, c \in Node, r \in Node \cup {NIL} : InsertAfter(p, r, c)
  \/ \E p, c \in Node, r \in Node \cup {NIL} : ReplaceChild(p, r, c)
  \/ \E p, c \in Node : RemoveChild(p, c)
  \/ \E p \in Node : RemoveChildren(p)
  \/ \E p \in Node : SortChildren(p)

Spec == Init /\ [][Next]_vars

----------------------------------------------------------------------------
\* Invariants: the state is a forest and the cached count agrees.
NoDuplicates == \A p \in Node : \A i, j \in 1..Len(kids[p]) : i # j => kids[p][i] # kids[p][j]
OneParent    == \A c \in Node : Cardinality({p \in Node : c \in Range(kids[p])}) <= 1
Acyclic      == \A n \in Node : n \notin Range(kids[n]) /\
                   \A c \in Range(kids[n]) : n \notin
                       (LET N == Cardinality(Node)
                            down[i \in 0..N] == IF i = 0 THEN {c}
                                 ELSE down[i-1] \cup UNION {Range(kids[x]) : x \in down[i-1]}
                        IN down[N])
Forest       == NoDuplicates /\ OneParent /\ Acyclic
CountAgrees  == \A p \in Node : cnt[p] = Len(kids[p])
TypeOK       == kids \in [Node -> Seq(Node)]
=============================================================================
