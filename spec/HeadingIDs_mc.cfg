CONSTANTS
  Slugs = {"a", "a-1", "a-1-1", "a-2", "heading", "heading-1", ""}
  MaxHeadings = 3
  MaxDocs = 2
  Emit = FALSE
  Mode = "spec"
INIT Init
NEXT Next
INVARIANTS NonEmpty Distinct HistoryIndependent
CHECK_DEADLOCK FALSE
