CONSTANTS
  Cap = 4
  Sizes = {1, 2, 4, 5, 9}
  MaxTotal = 8
  MaxWrites = 3
  FailKinds = {"short", "zero"}
  Emit = FALSE
  Mode = "FlushErrorDropped"
SPECIFICATION Spec
INVARIANTS Prefix ErrorSurfaces
PROPERTY Terminates
CHECK_DEADLOCK FALSE
