------------------------------ MODULE HtmlOut ------------------------------
(***************************************************************************)
(* Acceptor for safe-mode output (properties C03 and C04), file             *)
(* outputs.ndjson: one record per distinct abstract output                  *)
(*   toks = the token sequence cut by the harness's strict tokenizer, each   *)
(*          <<kind, tag, attrs, flag>> with                                 *)
(*            kind  "open" | "close" | "void" (self-closing syntax) |       *)
(*                  "text" | "comment" | "bad"                              *)
(*            attrs sequence of <<name, isData, badAmp>>                    *)
(*            flag  text: badAmp (an '&' that starts no well-formed         *)
(*                  reference); comment: isPlaceholder; bad: reason         *)
(*   urls = for every href / src value, its first code points after         *)
(*          decoding character references (what the browser's URL parser    *)
(*          receives); classified here by the front end of the WHATWG URL   *)
(*          parser                                                          *)
(*   xhtml, xmlok = XHTML output was requested / the strict XML decoder     *)
(*          accepted it (TRUE when not applicable)                          *)
(* Guards are the clauses of the statements; nothing about HTML's content   *)
(* model (li in ul, a inside a, ...) is required.                           *)
(***************************************************************************)
EXTENDS Integers, Sequences, FiniteSets, TLC, Json, IOUtils

Global == {"accesskey", "autocapitalize", "autofocus", "class", "contenteditable", "dir", "draggable", "enterkeyhint",
           "hidden", "id", "inert", "inputmode", "is", "itemid", "itemprop", "itemref", "itemscope", "itemtype", "lang",
           "part", "role", "slot", "spellcheck", "style", "tabindex", "title", "translate"}
Cell == {"abbr", "align", "axis", "bgcolor", "char", "charoff", "colspan", "headers", "height", "rowspan", "scope", "valign", "width"}
Extra == [p |-> {}, h1 |-> {}, h2 |-> {}, h3 |-> {}, h4 |-> {}, h5 |-> {}, h6 |-> {},
          blockquote |-> {"cite"}, pre |-> {}, code |-> {}, ul |-> {"start", "reversed", "type"}, ol |-> {"start", "reversed", "type"},
          li |-> {"value"}, hr |-> {"align", "color", "noshade", "size", "width"}, br |-> {}, em |-> {}, strong |-> {}, del |-> {},
          a |-> {"href", "download", "hreflang", "media", "ping", "referrerpolicy", "rel", "shape", "target"},
          img |-> {"src", "alt", "align", "border", "crossorigin", "decoding", "height", "importance", "intrinsicsize", "ismap",
                   "loading", "referrerpolicy", "sizes", "srcset", "usemap", "width"},
          table |-> {"align", "bgcolor", "border", "cellpadding", "cellspacing", "frame", "rules", "summary", "width"},
          thead |-> {"align", "bgcolor", "char", "charoff", "valign"}, tbody |-> {}, tr |-> {"align", "bgcolor", "char", "charoff", "valign"},
          th |-> Cell, td |-> Cell, input |-> {"checked", "disabled", "type"}, dl |-> {}, dt |-> {}, dd |-> {}, sup |-> {}, div |-> {}]
Vocabulary == DOMAIN Extra
VoidTags == {"br", "hr", "img", "input"}

\* ---- WHATWG URL parser front end over code points ----
RECURSIVE DropLead(_)
DropLead(s) == IF s # <<>> /\ Head(s) <= 32 THEN DropLead(Tail(s)) ELSE s
NoTabNl(s) == SelectSeq(s, LAMBDA c : c # 9 /\ c # 10 /\ c # 13)
Lower(c) == IF c >= 65 /\ c <= 90 THEN c + 32 ELSE c
Norm(s) == LET t == NoTabNl(DropLead(s)) IN [i \in 1..Len(t) |-> Lower(t[i])]
HasPre(s, p) == Len(s) >= Len(p) /\ SubSeq(s, 1, Len(p)) = p
JS   == <<106, 97, 118, 97, 115, 99, 114, 105, 112, 116, 58>>
VB   == <<118, 98, 115, 99, 114, 105, 112, 116, 58>>
FILE == <<102, 105, 108, 101, 58>>
DATA == <<100, 97, 116, 97, 58>>
DIMG == <<100, 97, 116, 97, 58, 105, 109, 97, 103, 101, 47>>
OkImg == {<<112, 110, 103, 59>>, <<103, 105, 102, 59>>, <<106, 112, 101, 103, 59>>, <<119, 101, 98, 112, 59>>, <<115, 118, 103, 43, 120, 109, 108, 59>>}
Class(u) == LET n == Norm(u) IN
  IF HasPre(n, JS) THEN "javascript" ELSE IF HasPre(n, VB) THEN "vbscript" ELSE IF HasPre(n, FILE) THEN "file"
  ELSE IF HasPre(n, DIMG) /\ (\E p \in OkImg : HasPre(SubSeq(n, 12, Len(n)), p)) THEN "dataImageOk"
  ELSE IF HasPre(n, DATA) THEN "dataOther" ELSE "safe"
Dangerous(u) == Class(u) \in {"javascript", "vbscript", "file", "dataOther"}

\* ---- token acceptor ----
AttrOk(tag, a) == (a[1] \in Global \cup Extra[tag] \/ a[2]) /\ ~a[3]
RECURSIVE Scan(_, _, _)
\* returns "ok" or the reason of the first rejected token
Scan(toks, i, stack) ==
  IF i > Len(toks) THEN (IF stack = <<>> THEN "ok" ELSE "unclosed-element")
  ELSE LET t == toks[i] IN
    CASE t[1] = "bad"     -> t[4]
      [] t[1] = "text"    -> IF t[4] THEN "bare-ampersand-in-text" ELSE Scan(toks, i + 1, stack)
      [] t[1] = "comment" -> IF t[4] THEN Scan(toks, i + 1, stack) ELSE "foreign-comment"
      [] t[1] \in {"open", "void"} ->
           IF t[2] \notin Vocabulary THEN "tag-outside-vocabulary"
           ELSE IF \E k \in 1..Len(t[3]) : ~(t[3][k][1] \in Global \cup Extra[t[2]] \/ t[3][k][2]) THEN "attribute-outside-vocabulary"
           ELSE IF \E k \in 1..Len(t[3]) : t[3][k][3] THEN "bare-ampersand-in-attribute"
           ELSE IF \E j, k \in 1..Len(t[3]) : j # k /\ t[3][j][1] = t[3][k][1] THEN "duplicate-attribute"
           ELSE IF t[1] = "void" /\ t[2] \notin VoidTags THEN "self-closing-non-void"
           ELSE IF t[2] \in VoidTags THEN Scan(toks, i + 1, stack)
           ELSE Scan(toks, i + 1, <<t[2]>> \o stack)
      [] t[1] = "close"   -> IF stack # <<>> /\ Head(stack) = t[2] THEN Scan(toks, i + 1, Tail(stack)) ELSE "improper-nesting"
      [] OTHER -> "unknown-token"

Outputs == ndJsonDeserialize("outputs.ndjson")
VARIABLES l, bad
Why(e) ==
  LET s == Scan(e.toks, 1, <<>>) IN
  IF s # "ok" THEN s
  ELSE IF e.xhtml /\ ~e.xmlok THEN "xhtml-not-well-formed"
  ELSE IF \E k \in 1..Len(e.urls) : Dangerous(e.urls[k]) THEN "dangerous-url"
  ELSE "ok"
PInit == l = 1 /\ bad = <<>>
PNext == /\ l <= Len(Outputs) /\ l' = l + 1
         /\ bad' = IF Why(Outputs[l]) = "ok" THEN bad ELSE Append(bad, [l |-> l, why |-> Why(Outputs[l])])
Report == (l = Len(Outputs) + 1) => PrintT(ToJson([done |-> TRUE, consumed |-> l - 1, bad |-> bad]))
=============================================================================
