CONSTANTS
  Labels = {"a", "b", "c", "d"}
  Places = {"plain"}
  MaxItems = 0
  Emit = TRUE
  Mode = "Intended"
INIT Init
NEXT Next
INVARIANTS BacklinksMatchRefs EveryItemReferenced RefsResolve
CHECK_DEADLOCK FALSE
