CONSTANTS
  Docs = {"d1","d2"}
  MaxLen = 3
  Emit = FALSE
  Mode = "SharedSingleton"
INIT Init
NEXT Next
INVARIANT Pure
CHECK_DEADLOCK FALSE
