----------------------------- MODULE RenderWalk -----------------------------
(***************************************************************************)
(* S11 (dispatch part) -- rendering a tree in which some node kinds have no *)
(* renderer function (last clause of C20): such a node is skipped, without  *)
(* failing, while its children are still rendered.                          *)
(* Trees over nodes 1..N (1 = root, parent[n] < n); kind of each non-root:  *)
(*   "K" renderer writes <n> ... </n>, returns Continue                     *)
(*   "S" renderer writes <n/> on entering and returns SkipChildren          *)
(*   "L" like K but returns SkipChildren when LEAVING (as the built-in raw  *)
(*       HTML renderer does; a status returned on leaving has no effect)    *)
(*   "U" no renderer function; kind existed before the renderer's first use *)
(*   "V" no renderer function; kind created after the renderer's first use  *)
(* Every finished configuration is emitted with the expected output.        *)
(***************************************************************************)
EXTENDS Integers, Sequences, FiniteSets, TLC, Json
CONSTANTS N, Emit
VARIABLES parent, kind, done
vars == <<parent, kind, done>>
Nodes == 1..N
Kinds == {"K", "S", "L", "U", "V"}

Kids(p, n) == {c \in Nodes : c > 1 /\ p[c] = n}
SortedSeq(S) == CHOOSE s \in [1..Cardinality(S) -> S] : \A i, j \in 1..Len(s) : i < j => s[i] < s[j]
RECURSIVE Out(_, _, _), OutAll(_, _, _)
OutAll(p, k, s) == IF s = <<>> THEN <<>> ELSE Out(p, k, Head(s)) \o OutAll(p, k, Tail(s))
Out(p, k, n) ==
  LET inner == OutAll(p, k, SortedSeq(Kids(p, n))) IN
  IF n = 1 THEN inner
  ELSE CASE k[n] \in {"K", "L"} -> <<[t |-> "open", n |-> n]>> \o inner \o <<[t |-> "close", n |-> n]>>
         [] k[n] = "S"          -> <<[t |-> "void", n |-> n]>>
         [] OTHER               -> inner                 \* no renderer: skipped, children rendered

Init == /\ parent \in {f \in [Nodes -> 0..N] : f[1] = 0 /\ \A n \in Nodes : n > 1 => (f[n] >= 1 /\ f[n] < n)}
        /\ kind \in {f \in [Nodes -> Kinds \cup {"root"}] : f[1] = "root" /\ \A n \in Nodes : n > 1 => f[n] \in Kinds}
        /\ done = FALSE
Finish == /\ ~done /\ done' = TRUE /\ UNCHANGED <<parent, kind>>
          /\ (Emit => PrintT(ToJson([parent |-> parent, kind |-> kind, expect |-> Out(parent, kind, 1)])))
Next == Finish
\* every node with a renderer appears exactly once as open/void, unless below an "S" node
Covered == done => \A n \in Nodes : n > 1 /\ kind[n] \in {"K", "L", "S"} /\
                      (\A a \in Nodes : ~(a > 1 /\ kind[a] = "S" /\ a # n /\
                           (LET RECURSIVE anc(_) anc(x) == IF x <= 1 THEN {} ELSE {parent[x]} \cup anc(parent[x]) IN a \in anc(n))))
                   => Cardinality({i \in 1..Len(Out(parent, kind, 1)) : Out(parent, kind, 1)[i].n = n /\ Out(parent, kind, 1)[i].t \in {"open", "void"}}) = 1
=============================================================================
