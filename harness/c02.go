package main

// C02 — CommonMark conformance on constructed documents and rewritten spec examples.
//
//  Spec   CMGen.tla: a printer state machine that writes a document construct by construct
//         together with the HTML CommonMark prescribes for the structure (oracle by
//         construction: every guard is the side condition under which the emitted lines have
//         exactly the intended meaning). InlineGen.tla does the same for inline content.
//  M2C    every (lines, tokens) pair TLC enumerates (exhaustive for small budgets, -simulate
//         for larger ones) is concretised under every indentation spelling (spaces / tabs
//         reaching the same columns) and final-newline variant, converted by the real
//         library (unsafe, XHTML), and compared with the expectation up to inter-block
//         white space (a port of the normaliser of the specification's own test runner).
//  C2M    the 652 examples of spec.json under the spec-licensed rewrites (final newline
//         removed, a blank line added, an unrelated closed block placed before / after);
//         law ConcatLaw of Meta.tla evaluated by TLC on the normalised outputs; side
//         conditions read from the real parse through the hook EndOfInput.

import (
	"encoding/json"
	"fmt"
	"os"
	"regexp"
	"strconv"
	"strings"
	"sync"
	"sync/atomic"
	"time"

	"github.com/yuin/goldmark"
)

func init() {
	register(&Check{ID: "C02", Level: "model_checking", Run: runC02, Replay: replayC02})
}

// ---------------------------------------------------------------------------------
// the specification's own comparison (normalize.py of commonmark-spec, white-space part)

var blockTags = map[string]bool{}

func init() {
	for _, t := range strings.Fields("article header aside hgroup blockquote hr iframe body li map button object canvas ol caption output col p colgroup pre dd progress div section dl table td dt tbody embed textarea fieldset tfoot figcaption th figure thead footer tr form ul h1 h2 h3 h4 h5 h6 video script style") {
		blockTags[t] = true
	}
}

type cmTok struct {
	kind string // text | start | end | startend | other
	tag  string
	raw  string
}

// cmTokens cuts HTML into tags and text the way a lenient HTML parser does.
func cmTokens(s string) []cmTok {
	var out []cmTok
	text := func(t string) {
		if t == "" {
			return
		}
		if n := len(out); n > 0 && out[n-1].kind == "text" {
			out[n-1].raw += t
			return
		}
		out = append(out, cmTok{kind: "text", raw: t})
	}
	i := 0
	for i < len(s) {
		if s[i] != '<' {
			j := strings.IndexByte(s[i:], '<')
			if j < 0 {
				j = len(s) - i
			}
			text(s[i : i+j])
			i += j
			continue
		}
		rest := s[i:]
		switch {
		case strings.HasPrefix(rest, "<!--"):
			if j := strings.Index(rest[4:], "-->"); j >= 0 {
				out = append(out, cmTok{kind: "other", raw: rest[:4+j+3]})
				i += 4 + j + 3
				continue
			}
		case strings.HasPrefix(rest, "<?"):
			if j := strings.Index(rest[2:], "?>"); j >= 0 {
				out = append(out, cmTok{kind: "other", raw: rest[:2+j+2]})
				i += 2 + j + 2
				continue
			}
		case strings.HasPrefix(rest, "<![CDATA["):
			if j := strings.Index(rest, "]]>"); j >= 0 {
				out = append(out, cmTok{kind: "other", raw: rest[:j+3]})
				i += j + 3
				continue
			}
		case strings.HasPrefix(rest, "<!") && len(rest) > 2 && isAlpha(rest[2]):
			if j := strings.IndexByte(rest, '>'); j >= 0 {
				out = append(out, cmTok{kind: "other", raw: rest[:j+1]})
				i += j + 1
				continue
			}
		}
		// tag
		j := 1
		end := false
		if j < len(rest) && rest[j] == '/' {
			end = true
			j++
		}
		st := j
		for j < len(rest) && (isAlpha(rest[j]) || (j > st && (isDigit(rest[j]) || rest[j] == '-'))) {
			j++
		}
		if j == st {
			text("<")
			i++
			continue
		}
		name := strings.ToLower(rest[st:j])
		// to the closing '>' outside quotes
		q := byte(0)
		k := j
		for k < len(rest) {
			c := rest[k]
			if q != 0 {
				if c == q {
					q = 0
				}
			} else if c == '"' || c == '\'' {
				q = c
			} else if c == '>' {
				break
			}
			k++
		}
		if k >= len(rest) {
			text("<")
			i++
			continue
		}
		raw := rest[:k+1]
		kind := "start"
		if end {
			kind = "end"
		} else if strings.HasSuffix(raw, "/>") {
			kind = "startend"
		}
		out = append(out, cmTok{kind: kind, tag: name, raw: raw})
		i += k + 1
	}
	return out
}

func collapseWS(s string) string {
	var b strings.Builder
	in := false
	for i := 0; i < len(s); i++ {
		c := s[i]
		if c == ' ' || c == '\t' || c == '\n' || c == '\r' || c == '\f' || c == '\v' {
			if !in {
				b.WriteByte(' ')
				in = true
			}
			continue
		}
		in = false
		b.WriteByte(c)
	}
	return b.String()
}

const wsChars = " \t\n\r\f\v"

// normHTML ignores exactly the white space the specification's comparison ignores: runs
// of white space outside <pre> count as one space, white space next to block-level tags is
// dropped, a newline after <br> is dropped.
func normHTML(s string) string {
	var out strings.Builder
	cur := ""
	flush := func() { out.WriteString(cur); cur = "" }
	last, lastTag := "starttag", ""
	inPre := false
	for _, t := range cmTokens(s) {
		switch t.kind {
		case "text":
			data := t.raw
			afterTag := last == "endtag" || last == "starttag"
			afterBlock := afterTag && blockTags[lastTag]
			if afterTag && lastTag == "br" {
				data = strings.TrimLeft(data, "\n")
			}
			if !inPre {
				data = collapseWS(data)
			}
			if afterBlock && !inPre {
				if last == "starttag" {
					data = strings.TrimLeft(data, wsChars)
				} else {
					data = strings.Trim(data, wsChars)
				}
			}
			last = "data"
			cur += data
		case "start", "startend":
			if t.tag == "pre" {
				inPre = true
			}
			if blockTags[t.tag] {
				cur = strings.TrimRight(cur, wsChars)
			}
			cur += t.raw
			lastTag = t.tag
			last = "starttag"
			if t.kind == "startend" {
				last = "endtag"
			}
		case "end":
			if t.tag == "pre" {
				inPre = false
			} else if blockTags[t.tag] {
				cur = strings.TrimRight(cur, wsChars)
			}
			cur += t.raw
			lastTag = t.tag
			last = "endtag"
		default:
			cur += t.raw
			last = "comment"
		}
		if len(cur) > 4096 {
			// keep the tail that a later TrimRight may still touch
			flush()
		}
	}
	flush()
	return strings.Trim(out.String(), wsChars)
}

// ---------------------------------------------------------------------------------
// generated documents

type cmPiece struct {
	N int
	S string
}

func (p *cmPiece) UnmarshalJSON(b []byte) error {
	var t []json.RawMessage
	if err := json.Unmarshal(b, &t); err != nil || len(t) != 2 {
		return fmt.Errorf("bad piece %s", b)
	}
	if err := json.Unmarshal(t[0], &p.N); err != nil {
		return err
	}
	return json.Unmarshal(t[1], &p.S)
}

type cmDoc struct {
	Lines [][]cmPiece `json:"lines"`
	Toks  []string    `json:"toks"`
}

// spellLines writes the abstract lines; structural white space is spelled with spaces, or
// with tabs wherever a tab stop (every 4 columns) lies inside the run.
func spellLines(lines [][]cmPiece, tabs bool) string {
	return spellLinesSel(lines, func(int, int) bool { return tabs })
}

// spellLinesSel: tabsOn(line, run) decides for every structural white space run (numbered per
// line) whether it is spelled with tabs.
func spellLinesSel(lines [][]cmPiece, tabsOn func(line, run int) bool) string {
	var b strings.Builder
	for li, l := range lines {
		run := -1
		col := 0
		for i := 0; i < len(l); i++ {
			p := l[i]
			if p.N > 0 {
				n := p.N
				for i+1 < len(l) && l[i+1].N > 0 {
					i++
					n += l[i].N
				}
				target := col + n
				run++
				if tabsOn(li, run) {
					for (col/4+1)*4 <= target {
						b.WriteByte('\t')
						col = (col/4 + 1) * 4
					}
				}
				for col < target {
					b.WriteByte(' ')
					col++
				}
				continue
			}
			b.WriteString(p.S)
			for k := 0; k < len(p.S); k++ {
				if p.S[k] == '\t' {
					col = (col/4 + 1) * 4
				} else if p.S[k]&0xC0 != 0x80 {
					col++
				}
			}
		}
		b.WriteByte('\n')
	}
	return b.String()
}

type c02Case struct {
	Kind    string      `json:"kind"` // gen | rewrite
	Source  rawDoc      `json:"source"`
	Expect  string      `json:"expect"`
	Variant string      `json:"variant"`
	Example int         `json:"example,omitempty"`
	From    string      `json:"from,omitempty"`  // generator configuration
	Lines   [][]cmPiece `json:"lines,omitempty"` // gen: the abstract lines (for cause analysis)
	// BlockSem documents with tabs: the same document with the tabs next to list markers written
	// as spaces (same columns), and its prescribed rendering (for cause analysis)
	AltSource rawDoc `json:"alt_source,omitempty"`
	AltExpect string `json:"alt_expect,omitempty"`
}

func (p cmPiece) MarshalJSON() ([]byte, error) { return json.Marshal([]interface{}{p.N, p.S}) }

var c02Config = mdConfig{Ext: "core", Unsafe: true, XHTML: true}

func c02Check(md goldmark.Markdown, cs c02Case) (ok bool, detail string) {
	out, err := convertWith(md, []byte(cs.Source))
	if err != nil {
		return false, fmt.Sprintf("conversion failed: %v", err)
	}
	got, want := normHTML(string(out)), normHTML(cs.Expect)
	if got == want {
		return true, ""
	}
	return false, fmt.Sprintf("source %q\n renders (normalised)  %q\n CommonMark prescribes %q\n (raw output %q)", clip(string(cs.Source), 400), clip(got, 600), clip(want, 600), clip(string(out), 600))
}

func replayC02(c *Ctx, raw json.RawMessage) (bool, string) {
	var cs c02Case
	if err := json.Unmarshal(raw, &cs); err != nil {
		return false, err.Error()
	}
	ok, d := c02Check(c02Config.build(), cs)
	return !ok, d
}

var (
	reListMarker = regexp.MustCompile(`^(\d+[.)]|[-+*])$`)
	reHrLike     = regexp.MustCompile(`^([*_-] ?){3,}$`)
)

// c02TabCause: for a generated document that fails only in its tab spelling, the lines that
// must keep their tabs for the failure to persist are found by respelling one line at a time
// with spaces; the first such line gives the cause: what precedes its first tab (line start,
// block quote marker, list marker) and which construct follows the indentation.
func c02TabCause(md goldmark.Markdown, cs c02Case) (string, bool) {
	if cs.Kind != "gen" || !strings.HasPrefix(cs.Variant, "tabs") || len(cs.Lines) == 0 {
		return "", false
	}
	trim := strings.HasSuffix(cs.Variant, "no-final-newline")
	mk := func(sel func(int, int) bool) c02Case {
		src := spellLinesSel(cs.Lines, sel)
		if trim {
			src = strings.TrimSuffix(src, "\n")
		}
		return c02Case{Kind: "gen", Source: rawDoc(src), Expect: cs.Expect}
	}
	if ok, _ := c02Check(md, mk(func(int, int) bool { return false })); !ok {
		return "", false // the spaces spelling fails as well: not a tab cause
	}
	// the runs that are spelled with a tab at all
	type runID struct{ line, run int }
	var runs []runID
	for i, l := range cs.Lines {
		col, run := 0, -1
		for k := 0; k < len(l); k++ {
			if l[k].N > 0 {
				n := l[k].N
				for k+1 < len(l) && l[k+1].N > 0 {
					k++
					n += l[k].N
				}
				run++
				if (col/4+1)*4 <= col+n {
					runs = append(runs, runID{i, run})
				}
				col += n
				continue
			}
			col += len(l[k].S)
		}
	}
	need := map[runID]bool{}
	for _, r := range runs {
		need[r] = true
	}
	for _, r := range runs {
		need[r] = false
		if ok, _ := c02Check(md, mk(func(l, k int) bool { return need[runID{l, k}] })); ok {
			need[r] = true // without this tab the document conforms: it is needed for the failure
		}
	}
	for _, r := range runs {
		if !need[r] {
			continue
		}
		l := cs.Lines[r.line]
		before, run := "line-start", -1
		for k := 0; k < len(l); k++ {
			p := l[k]
			if p.N > 0 {
				j := k
				for j+1 < len(l) && l[j+1].N > 0 {
					j++
				}
				run++
				if run == r.run {
					after := "end-of-line"
					if j+1 < len(l) {
						after = c02Construct(l[j+1].S)
					}
					return c02TabClass(before, after), true
				}
				k = j
				continue
			}
			t := strings.TrimSpace(p.S)
			switch {
			case t == ">":
				before = "quote-marker"
				if strings.HasSuffix(p.S, " ") {
					before = "quote-marker-space"
				}
			case reListMarker.MatchString(t):
				before = "list-marker"
			default:
				before = "text"
			}
		}
	}
	return "", false
}

var reOnlyQuoteMarkers = regexp.MustCompile(`^[ >]*>[ ]?$`)

// c02EOFCause: a document that fails only without its final line ending, whose last line
// consists of block quote markers and nothing else. After the markers are consumed the reader is
// at the end of the source, which parseBlocks cannot tell from "no more lines" (PeekLine returns
// nil): the empty remainder of that line is not handed to the open leaf block.
func c02EOFCause(md goldmark.Markdown, cs c02Case) (string, bool) {
	src := string(cs.Source)
	if strings.HasSuffix(src, "\n") || src == "" {
		return "", false
	}
	last := src[strings.LastIndexByte(src, '\n')+1:]
	if !reOnlyQuoteMarkers.MatchString(last) {
		return "", false
	}
	with := cs
	with.Source = rawDoc(src + "\n")
	if ok, _ := c02Check(md, with); !ok {
		return "", false
	}
	return "C02/eof/last-line-of-only-quote-markers-without-line-ending", true
}

// c02TabClass maps (what precedes the tab, which construct follows the white space) to the
// place in goldmark that measures this indentation in bytes instead of columns.
func c02TabClass(before, after string) string {
	switch {
	case before == "list-marker" || after == "list-marker":
		return "C02/tabs/list-marker-columns"
	case after == "setext-underline" || after == "dashes":
		return "C02/tabs/setext-underline-columns"
	case after == "fence":
		return "C02/tabs/fence-columns"
	}
	return "C02/tabs/after-" + before + "/before-" + after
}

func c02Construct(s string) string {
	t := strings.TrimSpace(s)
	switch {
	case t == "":
		return "space"
	case reListMarker.MatchString(t):
		return "list-marker"
	case strings.HasPrefix(t, "```") || strings.HasPrefix(t, "~~~"):
		return "fence"
	case strings.HasPrefix(t, "#"):
		return "atx"
	case strings.Trim(t, "=") == "":
		return "setext-underline"
	case strings.Trim(t, "-") == "":
		return "dashes"
	case reHrLike.MatchString(t):
		return "thematic-break"
	case strings.HasPrefix(t, ">"):
		return "quote-marker"
	case strings.HasPrefix(t, "<"):
		return "html"
	}
	return "text"
}

// c02Signature names the construct mix of a failing generated document.
func c02Signature(cs c02Case) string {
	if cs.Kind == "rewrite" {
		return fmt.Sprintf("C02/rewrite/%s", cs.Variant)
	}
	// the set of block tags in the expectation
	seen := map[string]bool{}
	var tags []string
	for _, t := range cmTokens(cs.Expect) {
		if (t.kind == "start" || t.kind == "startend") && !seen[t.tag] {
			seen[t.tag] = true
			tags = append(tags, t.tag)
		}
	}
	if len(tags) > 5 {
		tags = tags[:5]
	}
	return "C02/gen/" + strings.Join(tags, "+") + "/" + cs.Variant
}

// ---- InlineGen documents: the body of one paragraph
type igDoc struct {
	Lines []string `json:"lines"`
	Toks  []string `json:"toks"`
	Used  []string `json:"used"`
}

var rePlaceholder = regexp.MustCompile(`@@([0-9A-F]+)@@`)

func unplace(s string) string {
	return rePlaceholder.ReplaceAllStringFunc(s, func(m string) string {
		v, _ := strconv.ParseInt(m[2:len(m)-2], 16, 32)
		return string(rune(v))
	})
}

// definitions for the labels InlineGen references: every spelling defines the same
// destination and title (4.7); a later duplicate must lose
var igDefs = map[string][]string{
	"fb": {"[foo bar]: /fb 'T fb'", "[FOO BAR]:\n    /fb\n  \"T fb\"", "   [Foo\n  bar]: </fb> (T fb)", "[foo bar]: /fb 'T fb'\n[foo bar]: /other", "[foo\tBAR]: /fb\n'T fb'"},
	"bz": {"[baz]: </bz x>", "[BAZ]: /bz%20x", "[baz]:\n/bz%20x\n\n[baz]: /no 'x'", "  [bAz]: </bz x>  "},
	"ao": {"[@@C4@@@@D6@@]: /ao", "[@@E4@@@@F6@@]: /ao", "[@@C4@@@@F6@@]: </ao>"},
}

// igCases wraps the paragraph body in block contexts.
func igCases(d igDoc, idx int, from string) []c02Case {
	lines := make([]string, len(d.Lines))
	for i, l := range d.Lines {
		lines[i] = unplace(l)
	}
	body := unplace(strings.Join(d.Toks, ""))
	var defs []string
	for _, k := range d.Used {
		v := igDefs[k]
		defs = append(defs, unplace(v[(idx/3)%len(v)]))
	}
	withDefs := func(src string, n int) string {
		if len(defs) == 0 {
			return src
		}
		ds := strings.Join(defs, "\n") + "\n"
		if n%2 == 0 {
			return src + "\n" + ds
		}
		return ds + "\n" + src
	}
	var out []c02Case
	add := func(ctx, src, exp string, n int) {
		out = append(out, c02Case{Kind: "gen", Source: rawDoc(withDefs(src, idx+n)), Expect: exp, Variant: "inline/" + ctx, From: from})
	}
	add("para", strings.Join(lines, "\n")+"\n", "<p>"+body+"</p>", 0)
	// block quote: continuation lines marked or lazy
	var q strings.Builder
	for i, l := range lines {
		if i == 0 || (idx+i)%2 == 0 {
			q.WriteString("> ")
		}
		q.WriteString(l + "\n")
	}
	add("quote", q.String(), "<blockquote><p>"+body+"</p></blockquote>", 1)
	var it strings.Builder
	for i, l := range lines {
		if i == 0 {
			it.WriteString("1.  ")
		} else if (idx+i)%3 != 0 {
			it.WriteString("    ")
		}
		it.WriteString(l + "\n")
	}
	add("item", it.String(), "<ol><li>"+body+"</li></ol>", 0)
	if len(lines) == 1 {
		add("atx", "### "+lines[0]+"\n", "<h3>"+body+"</h3>", 1)
	}
	add("setext", strings.Join(lines, "\n")+"\n---\n", "<h2>"+body+"</h2>", 0)
	return out
}

func igCfg(budget int, sim, small bool, atoms string) string {
	b := func(v bool) string {
		if v {
			return "TRUE"
		}
		return "FALSE"
	}
	return fmt.Sprintf("CONSTANTS\n  Budget = %d\n  Sim = %s\n  Small = %s\n  Emit = TRUE\n  Atoms = %s\nINIT Init\nNEXT Next\nINVARIANT TypeOK\nCHECK_DEADLOCK FALSE\n", budget, b(sim), b(small), atoms)
}

const igAll = `{"word","esc","emph","code","link","ref","auto","raw","break"}`

func nestCfg(depth int) string {
	return fmt.Sprintf("CONSTANTS\n  MaxDepth = %d\n  Emit = TRUE\nINIT Init\nNEXT Next\nINVARIANT AtMostOneLink\nCHECK_DEADLOCK FALSE\n", depth)
}

// nestCases: a nest alone in a paragraph, after a word, between words, and inside a block quote.
func nestCases(n [2]string, from string) []c02Case {
	mk := func(v, src, exp string) c02Case {
		return c02Case{Kind: "gen", Source: rawDoc(src), Expect: exp, Variant: "nest/" + v, From: from}
	}
	return []c02Case{
		mk("para", n[0]+"\n", "<p>"+n[1]+"</p>"),
		mk("after-word", "x "+n[0]+"\n", "<p>x "+n[1]+"</p>"),
		mk("between", "x "+n[0]+" y\n", "<p>x "+n[1]+" y</p>"),
		mk("quote-item", "> - "+n[0]+"\n", "<blockquote><ul><li>"+n[1]+"</li></ul></blockquote>"),
	}
}

type bsConfig struct {
	alpha string
	lines int
	laws  bool
	num   int
}

// bsConfigs: the exhaustive BlockSem runs (alphabet, maximal number of lines); the model-level
// laws (quote prefix = C08, concatenation = C09) are evaluated by TLC where laws is set.
func bsConfigs(c *Ctx) []bsConfig {
	if v := os.Getenv("C02_BS"); v != "" { // development aid: one exhaustive configuration "alphabet:lines"
		var a string
		var n int
		if _, err := fmt.Sscanf(strings.Replace(v, ":", " ", 1), "%s %d", &a, &n); err == nil {
			return []bsConfig{{a, n, false, 0}}
		}
	}
	if c.Thorough() {
		return []bsConfig{{"tiny", 6, true, 0}, {"small", 4, false, 0}, {"small", 3, true, 0}, {"lists", 4, false, 0}, {"lists", 3, true, 0}, {"quotes", 3, true, 0}, {"leaves", 3, false, 0}, {"leaves", 2, true, 0}, {"wide", 2, true, 0}, {"html", 3, true, 0}, {"tabs", 2, false, 0}, {"tabs2", 3, false, 0}, {"refs", 3, true, 0}, {"scaled", -1, false, 0}, {"fencetabs", 4, false, 0}}
	}
	return []bsConfig{{"tiny", 4, true, 0}, {"small", 3, false, 0}, {"small", 2, true, 0}, {"lists", 3, false, 0}, {"quotes", 2, true, 0}, {"leaves", 2, false, 0}, {"html", 2, true, 0}, {"tabs2", 2, false, 0}, {"refs", 2, true, 0}, {"scaled", 0, false, 0}, {"fencetabs", 3, false, 0}}
}

func bsSimConfigs(c *Ctx) []bsConfig {
	if os.Getenv("C02_BS") != "" {
		return nil
	}
	return []bsConfig{{"wide", 6, false, c.Pick(16000, 400000)}, {"lists", 8, false, c.Pick(8000, 400000)}, {"small", 7, false, c.Pick(6000, 200000)}, {"html", 6, false, c.Pick(8000, 300000)}, {"tabs", 5, false, c.Pick(12000, 400000)}, {"refs", 6, false, c.Pick(12000, 300000)}}
}

func bsCfg(alpha string, lines int, sim, laws bool) string {
	b := func(v bool) string {
		if v {
			return "TRUE"
		}
		return "FALSE"
	}
	inv := ""
	if !sim && alpha != "scaled" {
		inv = "INVARIANT Incremental\n"
	}
	if laws {
		inv += "INVARIANT QuoteLaw\nINVARIANT ConcatLaw\n"
	}
	return fmt.Sprintf("CONSTANTS\n  MaxLines = %d\n  AlphaName = %q\n  Emit = TRUE\n  Sim = %s\n  Laws = %s\nINIT Init\nNEXT Next\nINVARIANT StackOK\n%sCONSTRAINT EmitDoc\nCHECK_DEADLOCK FALSE\n", lines, alpha, b(sim), b(laws), inv)
}

type c02Gen struct {
	name     string
	module   string
	cfg      string
	simulate string
	depth    int
	timeout  time.Duration
}

func cmCfg(budget, depth int, full, sim bool) string {
	b := func(v bool) string {
		if v {
			return "TRUE"
		}
		return "FALSE"
	}
	return fmt.Sprintf("CONSTANTS\n  Budget = %d\n  MaxDepth = %d\n  Full = %s\n  Sim = %s\n  Emit = TRUE\nINIT Init\nNEXT Next\nINVARIANT TypeOK\nCHECK_DEADLOCK FALSE\n", budget, depth, b(full), b(sim))
}

func runC02(c *Ctx) {
	ev := c.Ev
	ev.Assumptions = []string{
		"TLC/SANY, Json; the guards of CMGen.tla / InlineGen.tla are the side conditions under which CommonMark 0.31.2 gives the emitted lines the intended structure (each annotated with its section)",
		"comparison = the white-space part of the specification's own normaliser (normalize.py): white space runs outside <pre> collapse, white space next to block-level tags and a newline after <br> are dropped; everything else is compared byte for byte",
		"_test/spec.json is CommonMark 0.31.2; rewrite side conditions (the example does not end inside an open fenced/indented code or HTML block) are read from the real parse through the hook EndOfInput; the added blocks contain no link syntax and the label-free word zq",
		"structural white space is spelled with spaces or with tabs wherever a tab stop lies inside the run (same columns)",
	}
	ev.Set("rule", "case = one (document, spelling variant) conversion compared with the prescribed HTML; distinct = distinct source bytes; non-trivial = every generated document (at least one block) and every rewritten example")
	md := c02Config.build()
	var evals, bad int64
	var mu sync.Mutex
	report := func(cs c02Case, detail string) {
		atomic.AddInt64(&bad, 1)
		sig := c02Signature(cs)
		if s, ok := c02TabCause(c02Config.build(), cs); ok {
			sig = s
		} else if s, ok := c02EOFCause(c02Config.build(), cs); ok {
			sig = s
		} else if len(cs.AltSource) > 0 {
			// fails as written, conforms once the tabs next to list markers are spaces: the list
			// parser's byte-based measurement of the white space around a marker
			if ok, _ := c02Check(c02Config.build(), c02Case{Kind: "gen", Source: cs.AltSource, Expect: cs.AltExpect}); ok {
				sig = "C02/tabs/list-marker-columns"
			}
		}
		c.Report(Violation{Signature: sig, Detail: detail, Replay: cs})
	}
	var dump *os.File
	if p := os.Getenv("C02_DUMP"); p != "" {
		dump, _ = os.Create(p)
	}
	judge := func(cs c02Case) {
		atomic.AddInt64(&evals, 1)
		ev.Distinct(string(cs.Source))
		ok, d := c02Check(md, cs)
		if dump != nil {
			mu.Lock()
			fmt.Fprintf(dump, "%v\t%s\t%q\n", ok, cs.Variant, string(cs.Source))
			mu.Unlock()
		}
		if !ok {
			// reproduce on a fresh instance before reporting
			if ok2, d2 := c02Check(c02Config.build(), cs); !ok2 {
				report(cs, d2)
			} else {
				_ = d
				infra("C02: a difference did not reproduce on a fresh instance: %s", d)
			}
		}
	}

	// ---- generated documents
	gens := []c02Gen{
		{"CMGen budget 2, reduced spellings, exhaustive", "CMGen", cmCfg(2, 2, false, false), "", 0, 20 * time.Minute},
		{"CMGen budget 2, all spellings, simulation", "CMGen", cmCfg(2, 2, true, true), fmt.Sprintf("num=%d", c.Pick(24000, 300000)/4), 12, 20 * time.Minute},
		{"CMGen budget 5 depth 3, all spellings, simulation", "CMGen", cmCfg(5, 3, true, true), fmt.Sprintf("num=%d", c.Pick(48000, 600000)/4), 40, 30 * time.Minute},
	}
	gens = append(gens,
		c02Gen{"InlineGen 2 atoms, every atom table, exhaustive", "InlineGen", igCfg(2, false, false, igAll), "", 0, 20 * time.Minute},
		c02Gen{"InlineGen 7 atoms, simulation", "InlineGen", igCfg(7, true, false, igAll), fmt.Sprintf("num=%d", c.Pick(60000, 800000)/4), 30, 30 * time.Minute},
		c02Gen{"InlineGen 5 atoms without words, simulation", "InlineGen", igCfg(5, true, false, `{"esc","emph","code","link","ref","auto","raw","break"}`), fmt.Sprintf("num=%d", c.Pick(30000, 400000)/4), 30, 30 * time.Minute},
	)
	gens = append(gens, c02Gen{fmt.Sprintf("InlineSem every line of up to %d tokens (reference delimiter-run algorithm)", c.Pick(5, 6)), "InlineSem",
		fmt.Sprintf("CONSTANTS\n  MaxLen = %d\n  MaxRun = 3\n  Emit = TRUE\nINIT Init\nNEXT Next\nINVARIANT Balanced\nCHECK_DEADLOCK FALSE\n", c.Pick(5, 6)), "", 0, 60 * time.Minute})
	gens = append(gens, c02Gen{fmt.Sprintf("NestGen every nest of up to %d inline containers (links never contain links)", c.Pick(5, 7)), "NestGen", nestCfg(c.Pick(5, 7)), "", 0, 30 * time.Minute})
	for _, b := range bsConfigs(c) {
		gens = append(gens, c02Gen{fmt.Sprintf("BlockSem alphabet %s, every document of up to %d lines (reference block-structure semantics)", b.alpha, b.lines), "BlockSem", bsCfg(b.alpha, b.lines, false, b.laws), "", 0, 60 * time.Minute})
	}
	for _, b := range bsSimConfigs(c) {
		gens = append(gens, c02Gen{fmt.Sprintf("BlockSem alphabet %s, random documents of %d lines, simulation", b.alpha, b.lines), "BlockSem", bsCfg(b.alpha, b.lines, true, false), fmt.Sprintf("num=%d", b.num/4), b.lines + 1, 30 * time.Minute})
	}
	if c.Thorough() {
		gens = append(gens, c02Gen{"CMGen budget 3, reduced spellings, exhaustive", "CMGen", cmCfg(3, 2, false, false), "", 0, 60 * time.Minute})
	}
	only := os.Getenv("C02_ONLY") // development aid: run only the generators of one module (no evidence is kept from such a run)
	for gi, g := range gens {
		if only != "" && g.module != only {
			continue
		}
		var docs []cmDoc
		var idocs []igDoc
		var sems, nests [][2]string
		var bsems [][4]string
		var bsOpen []string // BlockSem: the model's open-block stack after the last line
		nskip := 0
		seen := map[string]bool{}
		workers := 8
		if g.simulate != "" {
			workers = 4
		}
		r := RunTLC(TLCOpts{Module: g.module, Cfg: "gen.cfg", CfgText: g.cfg, Workers: workers, Timeout: g.timeout, Simulate: g.simulate, Depth: g.depth, Seed: c.Seed*131 + int64(gi),
			OnJSON: func(raw []byte) {
				k := string(raw)
				if seen[k] {
					return
				}
				seen[k] = true
				if g.module == "BlockSem" {
					var d struct {
						Src    string   `json:"src"`
						HTML   string   `json:"html"`
						Skip   bool     `json:"skip"`
						SrcSp  string   `json:"srcsp"`
						HTMLSp string   `json:"htmlsp"`
						Open   []string `json:"open"`
					}
					if err := json.Unmarshal(raw, &d); err != nil {
						infra("bad BlockSem document: %v: %s", err, clip(k, 300))
					}
					if d.Skip {
						nskip++
						return
					}
					bsems = append(bsems, [4]string{d.Src, d.HTML, d.SrcSp, d.HTMLSp})
					bsOpen = append(bsOpen, strings.Join(d.Open, " "))
					return
				}
				if g.module == "NestGen" {
					var d struct {
						Src  string `json:"src"`
						HTML string `json:"html"`
					}
					if err := json.Unmarshal(raw, &d); err != nil {
						infra("bad NestGen line: %v: %s", err, clip(k, 300))
					}
					nests = append(nests, [2]string{d.Src, d.HTML})
					return
				}
				if g.module == "InlineSem" {
					var d struct {
						Src  string `json:"src"`
						HTML string `json:"html"`
					}
					if err := json.Unmarshal(raw, &d); err != nil {
						infra("bad InlineSem line: %v: %s", err, clip(k, 300))
					}
					sems = append(sems, [2]string{d.Src, d.HTML})
					return
				}
				if g.module == "InlineGen" {
					var d igDoc
					if err := json.Unmarshal(raw, &d); err != nil {
						infra("bad generated inline document: %v: %s", err, clip(k, 300))
					}
					idocs = append(idocs, d)
					return
				}
				var d cmDoc
				if err := json.Unmarshal(raw, &d); err != nil {
					infra("bad generated document: %v: %s", err, clip(k, 300))
				}
				docs = append(docs, d)
			}})
		if g.simulate == "" {
			r.MustOK(g.name)
		} else if r.TimedOut || (r.Exit != 0 && r.ErrorText != "") {
			infra("%s: TLC failed (exit %d)\n%s\n%s", g.name, r.Exit, r.ErrorText, r.Tail)
		}
		ev.TLC(g.name, r)
		parallelFor(len(sems), func(i int) {
			// "x " in front: the line start counts as white space for flanking and nothing can be
			// taken for a list marker or a thematic break
			judge(c02Case{Kind: "gen", Source: rawDoc("x " + sems[i][0] + "\n"), Expect: "<p>x " + sems[i][1] + "</p>", Variant: "emphasis/para", From: g.name})
			if i%4 == 0 {
				judge(c02Case{Kind: "gen", Source: rawDoc("> x " + sems[i][0] + "\n"), Expect: "<blockquote><p>x " + sems[i][1] + "</p></blockquote>", Variant: "emphasis/quote", From: g.name})
				judge(c02Case{Kind: "gen", Source: rawDoc("## x " + sems[i][0] + "\n"), Expect: "<h2>x " + sems[i][1] + "</h2>", Variant: "emphasis/atx", From: g.name})
			}
		})
		// state-level conformance: the blocks the real parser still holds open when the input ends
		// (hook EndOfInput) against the model's stack. Which leaf is open decides whether following
		// lines are swallowed (the side condition of C09), so a difference there is reported; WHEN a
		// container or paragraph is closed (on the blank line or on the next line) is the
		// implementation's choice and only counted.
		if g.module == "BlockSem" {
			bsStateConformance(c, bsems, bsOpen)
		}
		parallelFor(len(bsems), func(i int) {
			judge(c02Case{Kind: "gen", Source: rawDoc(bsems[i][0]), Expect: bsems[i][1], Variant: "blocksem", From: g.name, AltSource: rawDoc(bsems[i][2]), AltExpect: bsems[i][3]})
			// without the final line ending: only when the last line is not empty (else a line would disappear)
			if i%5 == 0 && strings.HasSuffix(bsems[i][0], "\n") && !strings.HasSuffix(bsems[i][0], "\n\n") && bsems[i][0] != "\n" {
				judge(c02Case{Kind: "gen", Source: rawDoc(strings.TrimSuffix(bsems[i][0], "\n")), Expect: bsems[i][1], Variant: "blocksem/no-final-newline", From: g.name,
					AltSource: rawDoc(strings.TrimSuffix(bsems[i][2], "\n")), AltExpect: bsems[i][3]})
			}
		})
		parallelFor(len(nests), func(i int) {
			for _, cs := range nestCases(nests[i], g.name) {
				judge(cs)
			}
		})
		if g.module == "BlockSem" {
			ev.Add("blocksem_documents", int64(len(bsems)))
			ev.Add("blocksem_documents_skipped_as_not_literal", int64(nskip))
		}
		if len(docs)+len(idocs)+len(sems)+len(bsems)+len(nests) == 0 {
			infra("%s: no documents generated\n%s", g.name, r.Tail)
		}
		ev.Add("generated_documents", int64(len(docs)+len(idocs)+len(sems)+len(bsems)+len(nests)))
		parallelFor(len(idocs), func(i int) {
			cases := igCases(idocs[i], i, g.name)
			for k, cs := range cases {
				if g.simulate == "" && len(idocs) > 20000 && k > 0 && (i+k)%4 != 0 {
					continue // the exhaustive product is judged in every context on a quarter of the documents
				}
				judge(cs)
			}
			if i < 3 {
				mu.Lock()
				c.Sample("generated-inline", 6, map[string]interface{}{"source": string(cases[0].Source), "expect": cases[0].Expect})
				mu.Unlock()
			}
		})
		parallelFor(len(docs), func(i int) {
			d := docs[i]
			exp := strings.Join(d.Toks, "")
			for _, tabs := range []bool{false, true} {
				src := spellLines(d.Lines, tabs)
				if tabs && !strings.Contains(src, "\t") {
					continue
				}
				v := "spaces"
				if tabs {
					v = "tabs"
				}
				judge(c02Case{Kind: "gen", Source: rawDoc(src), Expect: exp, Variant: v, From: g.name, Lines: d.Lines})
				if i%3 == 0 {
					judge(c02Case{Kind: "gen", Source: rawDoc(strings.TrimSuffix(src, "\n")), Expect: exp, Variant: v + "/no-final-newline", From: g.name, Lines: d.Lines})
				}
			}
			if i < 3 {
				mu.Lock()
				c.Sample("generated", 6, map[string]interface{}{"source": spellLines(d.Lines, false), "expect": exp})
				mu.Unlock()
			}
		})
	}

	// ---- spec examples under licensed rewrites
	if only == "" {
		c02Rewrites(c, md, judge)
	}

	ev.Set("evaluations", atomic.LoadInt64(&evals))
	ev.Set("exhaustive", true)
}

var c02Blocks = []struct{ name, md, html string }{
	{"para", "zq zq\n", "<p>zq zq</p>\n"},
	{"hr", "***\n", "<hr />\n"},
	{"atx", "## zq\n", "<h2>zq</h2>\n"},
	{"fence", "```\nzq\n```\n", "<pre><code>zq\n</code></pre>\n"},
}

func c02Rewrites(c *Ctx, md goldmark.Markdown, judge func(c02Case)) {
	loadCorpus()
	installHooks()
	var skipped int64
	parallelFor(len(specExamples), func(i int) {
		e := specExamples[i]
		m := e.Markdown
		// the unchanged example anchors the oracle
		judge(c02Case{Kind: "rewrite", Source: rawDoc(m), Expect: e.HTML, Variant: "identity", Example: e.Example})
		if strings.HasSuffix(m, "\n") {
			judge(c02Case{Kind: "rewrite", Source: rawDoc(strings.TrimSuffix(m, "\n")), Expect: e.HTML, Variant: "missing-final-newline", Example: e.Example})
		}
		kinds, _ := openKindsAtEOF(md.Parser(), []byte(m))
		closed := true
		for _, k := range kinds {
			if k == "FencedCodeBlock" || k == "CodeBlock" || k == "HTMLBlock" {
				closed = false
			}
		}
		withNL := m
		if !strings.HasSuffix(withNL, "\n") {
			withNL += "\n"
			judge(c02Case{Kind: "rewrite", Source: rawDoc(withNL), Expect: e.HTML, Variant: "extra-final-newline", Example: e.Example})
		}
		for _, b := range c02Blocks {
			// before: the block, a blank line, the example
			judge(c02Case{Kind: "rewrite", Source: rawDoc(b.md + "\n" + m), Expect: b.html + e.HTML, Variant: "before/" + b.name, Example: e.Example})
		}
		if !closed {
			atomic.AddInt64(&skipped, 1)
			return
		}
		judge(c02Case{Kind: "rewrite", Source: rawDoc(withNL + "\n"), Expect: e.HTML, Variant: "extra-blank-line", Example: e.Example})
		for _, b := range c02Blocks {
			judge(c02Case{Kind: "rewrite", Source: rawDoc(withNL + "\n" + b.md), Expect: e.HTML + b.html, Variant: "after/" + b.name, Example: e.Example})
			judge(c02Case{Kind: "rewrite", Source: rawDoc(b.md + "\n" + withNL + "\n" + b.md), Expect: b.html + e.HTML + b.html, Variant: "around/" + b.name, Example: e.Example})
		}
	})
	c.Ev.Set("spec_examples", int64(len(specExamples)))
	c.Ev.Set("examples_open_at_end_of_input", skipped)
}

var bsKindName = map[string]string{"quote": "Blockquote", "list": "List", "item": "ListItem", "para": "Paragraph", "fence": "FencedCodeBlock", "icode": "CodeBlock", "html": "HTMLBlock"}

// bsStateConformance compares, for a sample of the BlockSem documents, the open-block stack of the
// model after the last line with the blocks the real parser holds open at the end of the input.
func bsStateConformance(c *Ctx, bsems [][4]string, open []string) {
	installHooks()
	p := c02Config.build().Parser()
	var mu sync.Mutex
	var same, leafDiff, otherDiff, lateHTML int64
	var wit []string
	cls := map[string]int{}
	step := len(bsems)/c.Pick(40000, 400000) + 1
	var idx []int
	for i := 0; i < len(bsems); i += step {
		// documents with tabs are left out: for them the rendering itself differs in a recorded
		// way (known finding list-marker-columns), and the open leaf with it
		if !strings.Contains(bsems[i][0], "\t") {
			idx = append(idx, i)
		}
	}
	parallelFor(len(idx), func(k int) {
		i := idx[k]
		kinds, _ := openKindsAtEOF(p, []byte(bsems[i][0]))
		var want []string
		for _, m := range strings.Fields(open[i]) {
			want = append(want, bsKindName[m])
		}
		leaf := func(ks []string) string {
			if n := len(ks); n > 0 && (ks[n-1] == "FencedCodeBlock" || ks[n-1] == "CodeBlock" || ks[n-1] == "HTMLBlock") {
				return ks[n-1]
			}
			return ""
		}
		mu.Lock()
		defer mu.Unlock()
		switch {
		case strings.Join(kinds, " ") == strings.Join(want, " "):
			same++
		case leaf(kinds) != leaf(want):
			// named deviation: an HTML block (types 1-5) whose end condition is met on its FIRST
			// line is closed by the real parser one line late (html_block.go Continue looks at the
			// first line when the second arrives) - nothing follows, so nothing is swallowed
			if leaf(want) == "" && leaf(kinds) == "HTMLBlock" && htmlClosedOnFirstLine(bsems[i][0]) {
				lateHTML++
				return
			}
			leafDiff++
			cls[leaf(kinds)+"/"+leaf(want)]++
			if len(wit) < 5 {
				wit = append(wit, fmt.Sprintf("%q: parser holds %v open, BlockSem.tla %v", bsems[i][0], kinds, want))
			}
		default:
			otherDiff++
		}
	})
	c.Ev.Add("blocksem_state_same_open_blocks", same)
	c.Ev.Add("blocksem_state_closing_time_differs", otherDiff)
	c.Ev.Add("blocksem_state_open_leaf_differs", leafDiff)
	c.Ev.Add("blocksem_state_one_line_html_block_closed_late", lateHTML)
	if leafDiff > 0 {
		c.Warn("BlockSem/open-leaf-at-end-of-input-differs", fmt.Sprintf("%d documents %v, e.g. %s", leafDiff, cls, strings.Join(wit, "; ")))
	}
}

// htmlClosedOnFirstLine: the last non-blank line of the document both starts an HTML block of
// types 1-5 and holds its end marker.
func htmlClosedOnFirstLine(doc string) bool {
	lines := strings.Split(strings.TrimRight(doc, "\n"), "\n")
	last := strings.TrimLeft(lines[len(lines)-1], " >-+*1234567890.)\t")
	return (strings.HasPrefix(last, "<!--") && strings.Contains(last, "-->")) || (strings.HasPrefix(last, "<?") && strings.Contains(last, "?>")) ||
		(strings.HasPrefix(last, "<pre") && strings.Contains(last, "</pre>")) ||
		(strings.HasPrefix(last, "<![CDATA[") && strings.Contains(last, "]]>")) ||
		(strings.HasPrefix(last, "<!") && !strings.HasPrefix(last, "<!--") && !strings.HasPrefix(last, "<![") && strings.Contains(last, ">"))
}
