package main

// C03 — Safe mode emits only inert, well-nested markup from a fixed vocabulary.
// C04 — Safe mode never emits a script-capable or local-file URL.
//
// Both are decided by the TLA+ acceptor HtmlOut.tla over the token streams of safe-mode
// outputs: the harness cuts each output into tokens with its own strict tokenizer, decodes
// href/src values the way a browser does, and TLC evaluates the statements' clauses on every
// distinct abstract output.
//  M2C  C03: the whole Slots.tla product (slot x payload x ending) under every safe
//            configuration; C04: the whole UrlAttack.tla product under safe configurations.
//  C2M  the same acceptor over repository examples and mutated documents.

import (
	"bytes"
	"crypto/sha1"
	"encoding/json"
	"encoding/xml"
	"fmt"
	stdhtml "html"
	"strings"
	"sync"
	"time"
	"unicode/utf8"

	"github.com/yuin/goldmark"
)

func init() {
	register(&Check{ID: "C03", Level: "model_checking", Run: runC03, Replay: replaySafe})
	register(&Check{ID: "C04", Level: "model_checking", Run: runC04, Replay: replaySafe})
}

type safeRec struct {
	T     int             `json:"t"`
	Toks  [][]interface{} `json:"toks"`
	URLs  [][]int         `json:"urls"`
	XHTML bool            `json:"xhtml"`
	XMLOK bool            `json:"xmlok"`
}

// xmlRepresentable: all characters can appear in an XML 1.0 document.
func xmlRepresentable(b []byte) bool {
	if !utf8.Valid(b) {
		return false
	}
	for _, r := range string(b) {
		ok := r == 0x9 || r == 0xA || r == 0xD || (r >= 0x20 && r <= 0xD7FF) || (r >= 0xE000 && r <= 0xFFFD) || (r >= 0x10000 && r <= 0x10FFFF)
		if !ok {
			return false
		}
	}
	return true
}

// xmlNeutralColons rewrites every ':' that stands in a tag or attribute NAME (inside '<...>',
// outside quoted values) to "_x3A_". ':' is an ordinary name character of XML 1.0, and the
// statement asks for well-formed XML; Go's decoder additionally enforces the Namespaces
// constraint (at most one colon per name), which the statement does not.
func xmlNeutralColons(out []byte) []byte {
	var b bytes.Buffer
	inTag, q := false, byte(0)
	for _, c := range out {
		switch {
		case !inTag:
			if c == '<' {
				inTag = true
			}
		case q != 0:
			if c == q {
				q = 0
			}
		case c == '"' || c == '\'':
			q = c
		case c == '>':
			inTag = false
		case c == ':':
			b.WriteString("_x3A_")
			continue
		}
		b.WriteByte(c)
	}
	return b.Bytes()
}

func xmlWellFormed(out []byte) bool {
	out = xmlNeutralColons(out)
	d := xml.NewDecoder(bytes.NewReader(append(append([]byte("<root>"), out...), "</root>"...)))
	d.Strict = true
	d.Entity = xml.HTMLEntity
	for {
		_, err := d.Token()
		if err != nil {
			return err.Error() == "EOF"
		}
	}
}

// urlCodePoints: what the browser's URL parser receives for an attribute value.
func urlCodePoints(raw string) []int {
	dec := stdhtml.UnescapeString(raw)
	var out []int
	for _, r := range dec {
		out = append(out, int(r))
		if len(out) >= 96 {
			break
		}
	}
	if out == nil {
		out = []int{}
	}
	return out
}

// abstractOutput builds the record HtmlOut.tla judges.
func abstractOutput(out []byte, xhtml bool) safeRec {
	rec := safeRec{XHTML: xhtml, XMLOK: true, Toks: [][]interface{}{}, URLs: [][]int{}}
	for _, t := range tokenizeHTML(out) {
		attrs := [][]interface{}{}
		for _, a := range t.Attrs {
			attrs = append(attrs, []interface{}{a.Name, strings.HasPrefix(a.Name, "data-"), badAmpersand(a.Value)})
			if a.Name == "href" || a.Name == "src" {
				rec.URLs = append(rec.URLs, urlCodePoints(a.Value))
			}
		}
		var flag interface{}
		switch t.K {
		case "text":
			flag = badAmpersand(t.Text)
		case "comment":
			flag = t.Text == " raw HTML omitted "
		case "bad":
			flag = t.Why
		default:
			flag = false
		}
		rec.Toks = append(rec.Toks, []interface{}{t.K, t.Tag, attrs, flag})
	}
	if xhtml && xmlRepresentable(out) {
		rec.XMLOK = xmlWellFormed(out)
	}
	return rec
}

type safeCase struct {
	Config mdConfig `json:"config"`
	Doc    rawDoc   `json:"doc"`
	Prop   string   `json:"prop"`
}

func judgeSafeOne(cs safeCase) (string, []byte) {
	out, err := convertWith(cs.Config.build(), []byte(cs.Doc))
	if err != nil {
		return "conversion-failed", out
	}
	rec := abstractOutput(out, cs.Config.XHTML)
	bad, _ := tlcJudge("HtmlOut", "HtmlOut.cfg", "outputs.ndjson", []interface{}{rec})
	if len(bad) > 0 {
		return bad[0].Why, out
	}
	// accepted alone: the batch converts on shared instances from many goroutines (documented
	// use); the same document is converted again under that load and every distinct output judged
	md := cs.Config.build()
	other := [][]byte{[]byte("[a](http://ok/) ![i](/i.png) <http://x.y/z>\n"), []byte("# h\n\ntext *e* `c`\n"), []byte(cs.Doc)}
	var mu sync.Mutex
	outs := map[string]bool{}
	var wg sync.WaitGroup
	for g := 0; g < 16; g++ {
		wg.Add(1)
		go func(g int) {
			defer wg.Done()
			for k := 0; k < 2500; k++ {
				if g%2 == 0 {
					_, _ = convertWith(md, other[k%len(other)])
					continue
				}
				if o, e := convertWith(md, []byte(cs.Doc)); e == nil {
					mu.Lock()
					outs[string(o)] = true
					mu.Unlock()
				}
			}
		}(g)
	}
	wg.Wait()
	for o := range outs {
		if o == string(out) {
			continue
		}
		r := abstractOutput([]byte(o), cs.Config.XHTML)
		if b2, _ := tlcJudge("HtmlOut", "HtmlOut.cfg", "outputs.ndjson", []interface{}{r}); len(b2) > 0 {
			return b2[0].Why, []byte(o + "  (only while other goroutines convert on the same instance)")
		}
	}
	return "ok", out
}

func replaySafe(c *Ctx, raw json.RawMessage) (bool, string) {
	var cs safeCase
	if err := json.Unmarshal(raw, &cs); err != nil {
		return false, err.Error()
	}
	why, out := judgeSafeOne(cs)
	if why != "ok" && why != "conversion-failed" && safeWhyBelongs(c.ID, why) {
		return true, fmt.Sprintf("config %s, document %q -> %q: %s", cs.Config, clip(string(cs.Doc), 300), clip(string(out), 400), why)
	}
	return false, "accepted by HtmlOut (" + why + ")"
}

func safeWhyBelongs(prop, why string) bool {
	if prop == "C04" {
		return why == "dangerous-url"
	}
	return why != "dangerous-url"
}

// scanSafe converts every (document, configuration), dedups abstract outputs, has TLC judge
// them and reports violations of the given property. label(i) describes document i.
func scanSafe(c *Ctx, docs []string, cfgs []mdConfig, label func(i int) string) {
	ev := c.Ev
	mds := make([]goldmark.Markdown, len(cfgs))
	for i, cf := range cfgs {
		mds[i] = cf.build()
	}
	type wit struct {
		doc, cfg int
	}
	var mu sync.Mutex
	seen := map[[20]byte]int{}
	var recs []interface{}
	var wits []wit
	var nConv int64
	parallelFor(len(docs), func(i int) {
		src := []byte(docs[i])
		type item struct {
			h   [20]byte
			rec safeRec
			ci  int
		}
		var local []item
		for ci := range cfgs {
			out, err := convertWith(mds[ci], src)
			if err != nil {
				continue // totality is C01's business
			}
			rec := abstractOutput(out, cfgs[ci].XHTML)
			b, _ := json.Marshal(rec)
			local = append(local, item{sha1.Sum(b), rec, ci})
		}
		mu.Lock()
		nConv += int64(len(local))
		for _, it := range local {
			if _, ok := seen[it.h]; !ok {
				seen[it.h] = len(recs)
				it.rec.T = len(recs)
				recs = append(recs, it.rec)
				wits = append(wits, wit{i, it.ci})
			}
		}
		mu.Unlock()
	})
	ev.Add("evaluations", nConv)
	bad, tr := tlcJudge("HtmlOut", "HtmlOut.cfg", "outputs.ndjson", recs)
	ev.TLC("HtmlOut (acceptor over distinct abstract outputs)", tr)
	ev.Add("traces_validated_against_impl", int64(len(recs)))
	for i := range recs {
		ev.Distinct(fmt.Sprintf("%s#%d", c.ID, i+len(ev.distinct)))
		_ = i
	}
	perSig := map[string]int{}
	for _, b := range bad {
		if !safeWhyBelongs(c.ID, b.Why) {
			continue // the other property's clause; its own check reports it
		}
		w := wits[b.L-1]
		sig := fmt.Sprintf("%s/%s/%s", c.ID, b.Why, label(w.doc))
		if perSig[sig]++; perSig[sig] > 2 {
			continue
		}
		cs := safeCase{Config: cfgs[w.cfg], Doc: rawDoc(docs[w.doc]), Prop: c.ID}
		why, out := judgeSafeOne(cs)
		if why != b.Why {
			infra("output rejected in the batch (%s) but judged %s alone: %q under %s", b.Why, why, docs[w.doc], cfgs[w.cfg])
		}
		c.Report(Violation{Signature: sig, Detail: fmt.Sprintf("config %s, document %q -> %q: %s", cs.Config, clip(docs[w.doc], 300), clip(string(out), 400), why), Replay: cs})
	}
	for i := 0; i < len(wits); i += len(wits)/4 + 1 {
		c.Sample("output", 6, map[string]interface{}{"config": cfgs[wits[i].cfg].String(), "doc": clip(docs[wits[i].doc], 100), "tokens": len(recs[i].(safeRec).Toks)})
	}
}

func runC03(c *Ctx) {
	ev := c.Ev
	ev.Assumptions = []string{
		"TLC/SANY, Json/IOUtils; the strict tokenizer of the harness (refuses what it cannot classify); encoding/xml in strict mode with the HTML entity table for the XHTML clause; html.UnescapeString for URL decoding",
		"Vocabulary / attribute vocabulary constants in HtmlOut.tla are transcribed from the renderers' attribute filters and the tags the renderers write",
	}
	ev.Set("rule", "case = one (document, safe configuration) conversion; evaluations counts conversions; distinct = distinct abstract outputs (token kinds, tags, attribute names, flags) judged by TLC; all of them are non-trivial in the sense that each is a different token structure")
	ev.Set("exhaustive", true)
	t0 := time.Now()
	sd := slotDocs(c)
	var docs []string
	var labels []string
	for _, d := range sd {
		docs = append(docs, d.Doc)
		labels = append(labels, "slot-"+d.Slot)
	}
	loadCorpus()
	for _, d := range repoDocs {
		docs = append(docs, d)
		labels = append(labels, "repo")
	}
	g := newDocGen(c.Rand("mut"))
	for i := 0; i < c.Pick(2500, 60000); i++ {
		docs = append(docs, g.next())
		labels = append(labels, "mutated")
	}
	for _, d := range attrNameDocs(c) {
		docs = append(docs, d)
		labels = append(labels, "attribute-names")
	}
	ev.Set("documents", len(docs))
	cfgs := safeConfigs()
	ev.Set("configurations", len(cfgs))
	scanSafe(c, docs, cfgs, func(i int) string { return labels[i] })
	_ = t0
}

// ---------------------------------------------------------------------------------
// C04

var attackURL = map[string]string{
	"javascript": "javascript:alert(1)", "vbscript": "vbscript:msgbox(1)", "file": "file:///etc/passwd",
	"data": "data:text/html,<script>alert(1)</script>", "datahtml": "data:text/html;base64,PHNjcmlwdD4=", "dataimg": "data:image/png;base64,AAAA",
}

func applyCase(s, pattern string) string {
	i := strings.Index(s, ":")
	sch := s[:i]
	switch pattern {
	case "upper":
		sch = strings.ToUpper(sch)
	case "firstupper":
		sch = strings.ToUpper(sch[:1]) + sch[1:]
	case "mixed":
		b := []byte(sch)
		for k := range b {
			if k%2 == 1 {
				b[k] = byte(strings.ToUpper(string(b[k]))[0])
			}
		}
		sch = string(b)
	}
	return sch + s[i:]
}

// attackTail: what follows "scheme:" (UrlAttack.tla, Tails); the data: URLs keep their own tail
var attackTail = map[string]string{
	"slashnl": "//%0aalert(1)", "slashsp": "// alert(1)", "badport": "//host:x/etc/passwd", "badv6": "//[::1/x", "badpct": "//%zz/%",
	"ctl": "//a\x7fb/\x01", "userinfo": "//u:p@h:99999999999/x", "colononly": "",
}

func concretiseAttack(scheme, cas, obf, pos, construct, tail string) string {
	base := attackURL[scheme]
	if t, ok := attackTail[tail]; ok && !strings.HasPrefix(scheme, "data") {
		base = base[:strings.Index(base, ":")+1] + t
	}
	u := applyCase(base, cas)
	colon := strings.Index(u, ":")
	p := 0
	switch pos {
	case "middle":
		p = colon / 2
	case "colon":
		p = colon
	}
	ch := u[p]
	rep := func(r string) string { return u[:p] + r + u[p+1:] }
	ins := func(r string) string { return u[:p] + r + u[p:] }
	switch obf {
	case "backslash":
		u = ins("\\")
	case "named":
		if ch == ':' {
			u = rep("&colon;")
		} else {
			u = rep(fmt.Sprintf("&#%d;", ch))
		}
	case "decimal":
		u = rep(fmt.Sprintf("&#%d;", ch))
	case "hex":
		u = rep(fmt.Sprintf("&#x%x;", ch))
	case "hexupper":
		u = rep(fmt.Sprintf("&#X%X;", ch))
	case "decimalpad":
		u = rep(fmt.Sprintf("&#%07d;", ch))
	case "percent":
		u = rep(fmt.Sprintf("%%%02x", ch))
	case "leadsp":
		u = " " + u
	case "leadtab":
		u = "\t" + u
	case "leadnl":
		u = "\n" + u
	case "leadc0":
		u = "\x01" + u
	case "leadspent":
		u = "&#32;" + u
	case "leadtabent":
		u = "&Tab;" + u
	case "leadnlent":
		u = "&NewLine;" + u
	case "leadnbsp":
		u = "&nbsp;" + u
	case "midtab":
		u = ins("\t")
	case "midnl":
		u = ins("\n")
	case "midtabent":
		u = ins("&Tab;")
	case "midnlent":
		u = ins("&#10;")
	case "midcrent":
		u = ins("&#13;")
	case "midzwsp":
		u = ins("&#8203;")
	case "doubleamp":
		if ch == ':' {
			u = rep("&amp;colon;")
		} else {
			u = rep(fmt.Sprintf("&amp;#%d;", ch))
		}
	case "doublehash":
		u = rep(fmt.Sprintf("&#38;#%d;", ch))
	}
	switch construct {
	case "inline":
		return "[a](" + u + ")\n"
	case "angle":
		return "[a](<" + u + ">)\n"
	case "refdef":
		return "[a][r]\n\n[r]: " + u + "\n"
	case "refdefangle":
		return "[a][r]\n\n[r]: <" + u + "> 't'\n"
	case "collapsed":
		return "[r][]\n\n[R]: " + u + "\n"
	case "shortcut":
		return "[r]\n\n[r]: " + u
	case "image":
		return "![a](" + u + ")\n"
	case "imageref":
		return "![a][r]\n\n[r]: " + u + "\n"
	case "autolink":
		return "<" + u + ">\n"
	case "linkify":
		return "see " + u + " now www." + u + "\n"
	case "linktitle":
		return "[a](/u \"" + u + "\")\n"
	case "nestedimg":
		return "[![a](" + u + ")](" + u + ")\n"
	case "footnote":
		return "x[^1]\n\n[^1]: [a](" + u + ") ![b](" + u + ")\n"
	case "table":
		return "| [a](" + u + ") |\n|---|\n| ![b](" + u + ") |\n"
	case "deflist":
		return "t\n: [a](" + u + ")\n"
	case "quote":
		return "> - [a](" + u + ")\n"
	case "heading":
		return "# [a](" + u + ") {#x}\n\n![b](" + u + ")\n---\n"
	}
	infra("unknown construct %s", construct)
	return ""
}

func runC04(c *Ctx) {
	ev := c.Ev
	ev.Assumptions = []string{
		"TLC/SANY, Json/IOUtils; strict tokenizer; html.UnescapeString (Go standard library) decodes character references in attribute values as a browser does",
		"the browser is modelled by the front end of the WHATWG URL parser (operator Class in HtmlOut.tla): strip leading C0 control or space, remove tab/LF/CR, ASCII-lower-case, compare the scheme; allowed data:image types are the five goldmark lists",
	}
	ev.Set("rule", "case = one (document, safe configuration) conversion; distinct = distinct abstract outputs with their decoded href/src values; non-trivial = outputs that carry at least one href/src value")
	ev.Set("exhaustive", true)
	var docs, labels []string
	r := RunTLC(TLCOpts{Module: "UrlAttack", Cfg: "UrlAttack.cfg", Workers: 8, Timeout: 20 * time.Minute, OnJSON: func(raw []byte) {
		var t []string
		if json.Unmarshal(raw, &t) != nil || len(t) != 6 {
			infra("bad attack element %s", raw)
		}
		docs = append(docs, concretiseAttack(t[0], t[1], t[2], t[3], t[4], t[5]))
		labels = append(labels, t[4]+"/"+t[2]+"/"+t[5])
	}})
	r.MustOK("UrlAttack generator")
	ev.TLC("UrlAttack (scheme x case x obfuscation x position x construct x tail)", r)
	nAttack := len(docs)
	if nAttack == 0 {
		infra("UrlAttack produced nothing")
	}
	// slot documents whose slot is a URL, repository examples, mutated documents with scheme fragments
	for _, d := range slotDocs(c) {
		switch d.Slot {
		case "linkdest", "linkdestangle", "refdest", "refdestangle", "imgsrc", "autolink", "autolinkpath", "linkify", "mailto", "nested":
			docs = append(docs, d.Doc)
			labels = append(labels, "slot-"+d.Slot)
		}
	}
	loadCorpus()
	for _, d := range repoDocs {
		docs = append(docs, d)
		labels = append(labels, "repo")
	}
	g := newDocGen(c.Rand("mut"))
	frag := []string{"javascript:", "JaVaScRiPt:", "vbscript:", "file:", "data:", "data:text/html,", "&colon;", "&#106;", "&#x6A;", "&Tab;", "&NewLine;", "java\tscript:", "\x01javascript:", "(", ")", "<", ">", "[a](", "![a](", "]: "}
	rng := c.Rand("frag")
	for i := 0; i < c.Pick(3000, 80000); i++ {
		d := g.next()
		for k := rng.Intn(3); k >= 0; k-- {
			p := rng.Intn(len(d) + 1)
			d = d[:p] + frag[rng.Intn(len(frag))] + d[p:]
		}
		docs = append(docs, d)
		labels = append(labels, "mutated")
	}
	ev.Set("documents", len(docs))
	ev.Set("attack_documents", nAttack)
	var cfgs []mdConfig
	for _, e := range []string{"core", "gfm", "all", "footnote", "deflist", "typographer"} {
		for _, x := range []bool{false, true} {
			cfgs = append(cfgs, mdConfig{Ext: e, XHTML: x, Attr: e == "all", AutoID: e == "gfm"})
		}
	}
	if c.Thorough() {
		cfgs = safeConfigs()
	}
	ev.Set("configurations", len(cfgs))
	scanSafe(c, docs, cfgs, func(i int) string { return labels[i] })
}

// ---------------------------------------------------------------------------------
// attribute names: the renderer keeps an author-supplied attribute only when its name is in the
// allow-list of the element (util.BytesFilter); the vocabulary of HtmlOut.tla is the oracle.
// Candidates are the names a filter is most likely to confuse: every name of one or two letters,
// every allowed name of ANY element (most are not allowed on a heading), and the neighbours of
// allowed names - one, two or (thorough) all three of the first three characters replaced by a
// character that some allowed name has at that position, tail kept; plus truncations and extensions.
var c03AllowedNames = strings.Fields(`accesskey autocapitalize autofocus class contenteditable dir draggable enterkeyhint hidden id inert inputmode is itemid itemprop itemref itemscope itemtype lang part role slot spellcheck style tabindex title translate
	abbr align axis bgcolor char charoff colspan headers height rowspan scope valign width cite start reversed type value color noshade size
	href download hreflang media ping referrerpolicy rel shape target src alt border crossorigin decoding importance intrinsicsize ismap loading sizes srcset usemap
	cellpadding cellspacing frame rules summary checked disabled onclick onerror onload formaction srcdoc`)

func attrNameDocs(c *Ctx) []string {
	seen := map[string]bool{}
	var names []string
	add := func(n string) {
		if n != "" && !seen[n] {
			seen[n] = true
			names = append(names, n)
		}
	}
	const az = "abcdefghijklmnopqrstuvwxyz"
	for i := 0; i < 26; i++ {
		add(az[i : i+1])
		for j := 0; j < 26; j++ {
			add(az[i:i+1] + az[j:j+1])
		}
	}
	var pos [3]map[byte]bool
	for k := range pos {
		pos[k] = map[byte]bool{}
	}
	for _, n := range c03AllowedNames {
		add(n)
		add(n[:len(n)-1])
		add(n + "x")
		add("x" + n)
		for k := 0; k < 3 && k < len(n); k++ {
			pos[k][n[k]] = true
		}
	}
	var alpha [3][]byte
	for k := range pos {
		for ch := byte('a'); ch <= 'z'; ch++ {
			if pos[k][ch] {
				alpha[k] = append(alpha[k], ch)
			}
		}
	}
	rng := c.Rand("attrnames")
	for _, n := range c03AllowedNames {
		if len(n) < 2 {
			continue
		}
		b := []byte(n)
		m := 3
		if len(b) < 3 {
			m = len(b)
		}
		// one and two positions replaced
		for k := 0; k < m; k++ {
			for _, ch := range alpha[k] {
				x := append([]byte{}, b...)
				x[k] = ch
				add(string(x))
				for k2 := k + 1; k2 < m; k2++ {
					for _, ch2 := range alpha[k2] {
						y := append([]byte{}, x...)
						y[k2] = ch2
						if c.Thorough() || rng.Intn(4) == 0 {
							add(string(y))
						}
					}
				}
			}
		}
		if m == 3 {
			for _, c0 := range alpha[0] {
				for _, c1 := range alpha[1] {
					for _, c2 := range alpha[2] {
						if c.Thorough() || rng.Intn(12) == 0 {
							x := append([]byte{}, b...)
							x[0], x[1], x[2] = c0, c1, c2
							add(string(x))
						}
					}
				}
			}
		}
	}
	if c.Thorough() {
		for i := 0; i < 26; i++ {
			for j := 0; j < 26; j++ {
				for k := 0; k < 26; k++ {
					add(az[i:i+1] + az[j:j+1] + az[k:k+1])
				}
			}
		}
	}
	c.Ev.Set("attribute_names_tried", len(names))
	var docs []string
	const per = 24
	for i := 0; i < len(names); i += per {
		j := i + per
		if j > len(names) {
			j = len(names)
		}
		var b strings.Builder
		b.WriteString("# h {")
		for _, n := range names[i:j] {
			b.WriteString(n + "=v ")
		}
		b.WriteString("}\n")
		if (i/per)%2 == 1 {
			docs = append(docs, "t "+strings.TrimPrefix(strings.TrimSuffix(b.String(), "\n"), "# h ")+"\n===\n")
		} else {
			docs = append(docs, b.String())
		}
	}
	return docs
}
