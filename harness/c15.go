package main

// C15 — Auto heading IDs are present, non-empty and unique within a document.
//
//  MC   HeadingIDs.tla: all heading sequences over 7 slug classes closed under the suffix
//       operation; NonEmpty, Distinct, HistoryIndependent; negative controls SharedTable
//       and Counter.
//  M2C  every TLC sequence concretised into documents (texts realising each slug class, ATX
//       and Setext spellings, inside block quotes / list items / nested), converted with
//       WithAutoHeadingID on a fresh and on a long-used instance; the observed id lists are
//       judged by TLC (TraceHeadingIDs.tla); equality with the model's ids is diagnostic.
//  C2M  the same acceptor over mutated / random documents and the repository's examples.

import (
	"encoding/json"
	"fmt"
	"math/rand"
	"os"
	"os/exec"
	"path/filepath"
	"strings"
	"time"

	"github.com/yuin/goldmark"
)

func init() {
	register(&Check{ID: "C15", Level: "model_checking", Run: runC15, Replay: replayC15})
}

var slugTexts = map[string][]string{
	"a":         {"a", "A", "a!", "*a*", "a ", "`a`"},
	"a-1":       {"a-1", "a 1", "A_1", "a\t1"},
	"a-1-1":     {"a-1-1", "a 1 1", "a-1 1"},
	"a-2":       {"a-2", "a 2", "A_2"},
	"heading":   {"heading", "Heading", "HEADING!"},
	"heading-1": {"heading-1", "heading 1", "Heading_1"},
	"":          {"", "!?", "日本語", "(.)", "é"},
}

type hdSpelling struct {
	Slug      string `json:"slug"`
	Text      string `json:"text"`
	Setext    bool   `json:"setext"`
	Level     int    `json:"level"`
	Closing   bool   `json:"closing"`
	Container string `json:"container"` // "" | "> " | "- " | "> - "
}

func concretiseHeadings(slugs []string, rng *rand.Rand) (string, []hdSpelling) {
	var b strings.Builder
	var sp []hdSpelling
	for _, s := range slugs {
		h := hdSpelling{Slug: s, Level: 1}
		texts := slugTexts[s]
		if rng == nil {
			h.Text = texts[0]
		} else {
			h.Text = texts[rng.Intn(len(texts))]
			h.Setext = rng.Intn(3) == 0
			h.Level = 1 + rng.Intn(6)
			h.Closing = rng.Intn(4) == 0
			h.Container = []string{"", "", "> ", "- ", "> - "}[rng.Intn(5)]
		}
		if strings.TrimSpace(h.Text) == "" || strings.HasPrefix(h.Text, "`") {
			h.Setext = h.Setext && h.Text != ""
		}
		if h.Text == "" {
			h.Setext = false
		}
		prefix := h.Container
		cont := strings.NewReplacer("-", " ").Replace(prefix) // continuation of a list item is indentation
		if prefix == "> - " {
			cont = ">   "
		} else if prefix == "> " {
			cont = "> "
		}
		if h.Setext {
			if h.Level > 2 {
				h.Level = 2
			}
			ul := "==="
			if h.Level == 2 {
				ul = "---"
			}
			b.WriteString(prefix + strings.TrimSpace(h.Text) + "\n" + cont + ul + "\n\n")
		} else {
			line := strings.Repeat("#", h.Level)
			if h.Text != "" {
				line += " " + h.Text
			}
			if h.Closing && h.Text != "" {
				line += " " + strings.Repeat("#", 1+h.Level%3)
			}
			b.WriteString(prefix + line + "\n\n")
		}
		sp = append(sp, h)
	}
	return b.String(), sp
}

type c15Obs struct {
	T       int      `json:"t"`
	IDs     []string `json:"ids"`
	IDsUsed []string `json:"idsUsed"`
}

type c15Replay struct {
	Config mdConfig `json:"config"`
	Prior  []rawDoc `json:"prior,omitempty"` // documents converted before on the same instance
	Doc    rawDoc   `json:"doc"`
}

func c15Observe(cfg mdConfig, prior []rawDoc, doc rawDoc) (c15Obs, error) {
	fresh := cfg.build()
	o1, err := convertWith(fresh, []byte(doc))
	if err != nil {
		return c15Obs{}, err
	}
	used := cfg.build()
	for _, p := range prior {
		convertWith(used, []byte(p))
	}
	o2, err := convertWith(used, []byte(doc))
	if err != nil {
		return c15Obs{}, err
	}
	return c15Obs{IDs: headingIDs(o1), IDsUsed: headingIDs(o2)}, nil
}

func replayC15(c *Ctx, raw json.RawMessage) (bool, string) {
	var r c15Replay
	if err := json.Unmarshal(raw, &r); err != nil {
		return false, err.Error()
	}
	o, err := c15Observe(r.Config, r.Prior, r.Doc)
	if err != nil {
		return false, "conversion failed: " + err.Error()
	}
	bad, _ := tlcJudge("TraceHeadingIDs", "TraceHeadingIDs.cfg", "obs.ndjson", []interface{}{o})
	if len(bad) > 0 {
		return true, fmt.Sprintf("config %s, document %q: ids %q (after history: %q): %s", r.Config, r.Doc, o.IDs, o.IDsUsed, bad[0].Why)
	}
	return false, "accepted"
}

func runC15(c *Ctx) {
	ev := c.Ev
	ev.Assumptions = []string{
		"TLC/SANY, Json/IOUtils modules; the strict HTML tokenizer of the harness",
		"AutoHeadingID on, Attribute syntax off (no explicit attribute syntax in play)",
		"exact equality with the model's ids is diagnostic only: the statement fixes presence, non-emptiness, distinctness and history independence, not a slug algorithm",
	}
	ev.Set("rule", "case = one document converted on a fresh and on a long-used instance; distinct = distinct (configuration, document) pairs; non-trivial = documents with at least two headings whose slug classes collide (equal base or suffix relation) or with an empty slug")
	cfgs := []mdConfig{{Ext: "core", AutoID: true}, {Ext: "gfm", AutoID: true}, {Ext: "all", AutoID: true, XHTML: true}, {Ext: "footnote", AutoID: true}}

	// ---- MC
	r := RunTLC(TLCOpts{Module: "HeadingIDs", Cfg: "HeadingIDs_mc.cfg", Workers: 8})
	r.MustOK("HeadingIDs MC")
	ev.TLC("HeadingIDs_mc (NonEmpty, Distinct, HistoryIndependent; 2 documents)", r)
	RunTLC(TLCOpts{Module: "HeadingIDs", Cfg: "HeadingIDs_neg_shared.cfg", Workers: 2}).MustViolate("neg SharedTable", "HistoryIndependent")
	RunTLC(TLCOpts{Module: "HeadingIDs", Cfg: "HeadingIDs_neg_counter.cfg", Workers: 2}).MustViolate("neg Counter", "Distinct")
	ev.Set("negative_controls", []string{"SharedTable => HistoryIndependent violated", "Counter (suffix without probing) => Distinct violated"})

	// ---- supplementary: the uniqueness argument as an inductive invariant (Apalache)
	c15Apalache(c)

	// ---- M2C
	type seq struct {
		Slugs []string `json:"slugs"`
		IDs   []string `json:"ids"`
	}
	var seqs []seq
	genCfg := "HeadingIDs_gen5.cfg"
	if c.Thorough() {
		genCfg = "HeadingIDs_gen6.cfg"
	}
	r = RunTLC(TLCOpts{Module: "HeadingIDs", Cfg: genCfg, Workers: 8, OnJSON: func(raw []byte) {
		var s seq
		if json.Unmarshal(raw, &s) != nil {
			infra("bad heading sequence %s", raw)
		}
		seqs = append(seqs, s)
	}})
	r.MustOK("HeadingIDs generator")
	ev.TLC(genCfg+" (sequence dump)", r)
	ev.Set("exhaustive", true)

	type item struct {
		cfg   mdConfig
		doc   string
		model []string
	}
	var items []item
	rng := c.Rand("spell")
	nvar := c.Pick(2, 6)
	for i, s := range seqs {
		d0, _ := concretiseHeadings(s.Slugs, nil)
		items = append(items, item{cfgs[i%len(cfgs)], d0, s.IDs})
		for v := 0; v < nvar; v++ {
			d, _ := concretiseHeadings(s.Slugs, rng)
			items = append(items, item{cfgs[(i+v+1)%len(cfgs)], d, s.IDs})
		}
	}
	// the same sequences with the word "a" scaled to every size around the powers of two (ids are
	// byte strings built in buffers; a cap or a truncation only shows at its boundary). The four
	// slug classes of "a" then share a prefix of that many bytes and differ only behind it.
	sizes := []int{31, 32, 33, 63, 64, 65, 127, 128, 129, 255, 256, 257, 511, 512, 513, 1023, 1024, 1025, 4095, 4096, 4097}
	for i, s := range seqs {
		if len(s.Slugs) < 2 || (!c.Thorough() && i%3 != 0) {
			continue
		}
		n := sizes[i%len(sizes)]
		for k, w := range []string{strings.Repeat("a", n), strings.Repeat("ab ", n/3+1)[:n], strings.Repeat("\u00e9", n/2) + "a"} {
			if k > 0 && (i/3+k)%4 != 0 && !c.Thorough() {
				continue
			}
			var b strings.Builder
			for hi, sl := range s.Slugs {
				t := slugTexts[sl][0]
				if strings.HasPrefix(sl, "a") {
					t = w + t[1:]
				}
				if hi%2 == 1 && strings.TrimSpace(t) != "" {
					b.WriteString("> " + strings.TrimSpace(t) + "\n> ===\n\n")
				} else if t == "" {
					b.WriteString("#\n\n")
				} else {
					b.WriteString("## " + t + "\n\n")
				}
			}
			items = append(items, item{cfgs[(i+k)%len(cfgs)], b.String(), nil})
		}
	}
	// headings whose texts differ only in separators and punctuation at their edges (what an id
	// algorithm trims or maps must not make two ids equal), all variants of a base in one document
	for bi, base := range []string{"a", "FAQ", "Release notes", "a-1", "x y"} {
		edges := []string{"", "_", " -", "-", "--", "!", " \u2728", ".", " _ ", "-1-", " 1"}
		var b strings.Builder
		for i, e := range edges {
			if i%2 == 0 {
				b.WriteString("## " + base + e + "\n\n")
			} else {
				b.WriteString(strings.TrimSpace(e+base) + "\n---\n\n## " + base + e + " #\n\n")
			}
		}
		b.WriteString("# " + base + "\n")
		for k := 0; k < len(cfgs); k++ {
			items = append(items, item{cfgs[(bi+k)%len(cfgs)], b.String(), nil})
		}
	}
	// ---- C2M workload
	g := newDocGen(c.Rand("docs"))
	for i := 0; i < c.Pick(6000, 100000); i++ {
		d := g.next()
		if !strings.Contains(d, "#") && !strings.Contains(d, "==") && !strings.Contains(d, "--") {
			d = "# a\n\n" + d + "\n\na\n===\n"
		}
		items = append(items, item{cfgs[i%len(cfgs)], d, nil})
	}
	// one long-used instance per configuration: the history is every earlier document
	used := map[string]goldmark.Markdown{}
	hist := map[string][]rawDoc{}
	var recs []interface{}
	var keep []item
	var priors [][]rawDoc
	warned := 0
	nDiffer := 0
	for _, it := range items {
		k := it.cfg.String()
		if used[k] == nil {
			used[k] = it.cfg.build()
		}
		o1, err1 := convertWith(it.cfg.build(), []byte(it.doc))
		o2, err2 := convertWith(used[k], []byte(it.doc))
		if err1 != nil || err2 != nil {
			continue // totality is C01's business
		}
		obs := c15Obs{T: len(recs), IDs: headingIDs(o1), IDsUsed: headingIDs(o2)}
		if it.model != nil {
			if len(obs.IDs) != len(it.model) {
				infra("concretiser: document %q has %d headings, intended %d", it.doc, len(obs.IDs), len(it.model))
			}
			if strings.Join(obs.IDs, "|") != strings.Join(it.model, "|") && warned < 3 {
				warned++
				c.Warn("C15/model-ids-differ", fmt.Sprintf("document %q: ids %q, HeadingIDs.tla predicts %q", it.doc, obs.IDs, it.model))
			}
		}
		recs = append(recs, obs)
		keep = append(keep, it)
		// remember a short history for the replay file
		h := hist[k]
		if len(h) > 3 {
			h = h[len(h)-3:]
		}
		priors = append(priors, append([]rawDoc{}, h...))
		hist[k] = append(h, rawDoc(it.doc))
		if len(obs.IDs) >= 2 {
			ev.Distinct(k + "|" + it.doc)
		}
		// once many documents have already come out differently on the long-used instance there
		// is enough for TLC to judge; an instance that keeps state across documents also gets
		// slower with every document, so the rest of the workload is not run
		if strings.Join(obs.IDs, "|") != strings.Join(obs.IDsUsed, "|") {
			if nDiffer++; nDiffer > 200 {
				ev.Set("workload_cut_short_after_differences", nDiffer)
				break
			}
		}
	}
	bad, tr := tlcJudge("TraceHeadingIDs", "TraceHeadingIDs.cfg", "obs.ndjson", recs)
	ev.TLC("TraceHeadingIDs (acceptor over observed id lists)", tr)
	ev.Add("traces_validated_against_impl", int64(len(recs)))
	ev.Add("evaluations", int64(2*len(recs)))
	perWhy := map[string]int{}
	for _, b := range bad {
		if perWhy[b.Why]++; perWhy[b.Why] > 4 {
			continue // each reproduction is a TLC run; a few witnesses per class are enough
		}
		it := keep[b.L-1]
		rp := c15Replay{Config: it.cfg, Prior: priors[b.L-1], Doc: rawDoc(it.doc)}
		if b.Why != "history-dependent" {
			rp.Prior = nil
		}
		o, err := c15Observe(rp.Config, rp.Prior, rp.Doc)
		rep := false
		if err == nil {
			b2, _ := tlcJudge("TraceHeadingIDs", "TraceHeadingIDs.cfg", "obs.ndjson", []interface{}{o})
			rep = len(b2) > 0
		}
		if !rep {
			// history dependence may need a longer history than the replay file keeps
			c.Warn("C15/unreproduced/"+b.Why, fmt.Sprintf("document %q under %s", it.doc, it.cfg))
			continue
		}
		c.Report(Violation{Signature: "C15/" + b.Why, Detail: fmt.Sprintf("config %s, document %q: ids %q, after history %q", it.cfg, it.doc, o.IDs, o.IDsUsed), Replay: rp})
	}
	for i, rc := range recs {
		if i%4001 == 7 {
			c.Sample("document", 4, map[string]interface{}{"config": keep[i].cfg.String(), "doc": keep[i].doc, "ids": rc.(c15Obs).IDs})
		}
	}
	if len(bad) > 0 && c.NumViolations() == 0 && len(c.known) == 0 {
		infra("TraceHeadingIDs rejected %d documents but none reproduced in isolation", len(bad))
	}
}

// c15Apalache discharges, with Apalache, that IndInv of spec/apalache/HeadingIDsInd.tla (every id
// handed out is in the table, no id handed out twice) holds initially and is preserved by every
// step from ANY table satisfying it - an argument that does not depend on TLC's bounds.
// Supplementary: a failure or a missing tool is a warning, never a verdict.
func c15Apalache(c *Ctx) {
	src, err := os.ReadFile(filepath.Join(verifRoot(), "spec", "apalache", "HeadingIDsInd.tla"))
	if err != nil {
		c.Warn("C15/apalache-not-run", err.Error())
		return
	}
	dir := newWorkDir("apalache")
	defer os.RemoveAll(dir)
	must(os.WriteFile(filepath.Join(dir, "HeadingIDsInd.tla"), src, 0o644))
	ok := true
	t0 := time.Now()
	for _, step := range [][]string{{"--init=Init", "--length=0"}, {"--init=IndInit", "--length=1"}} {
		args := append([]string{"180", "apalache-mc", "check", "--out-dir=" + filepath.Join(dir, "out"), "--cinit=CInit", "--inv=IndInv"}, step...)
		cmd := exec.Command("timeout", append(args, "HeadingIDsInd.tla")...)
		cmd.Dir = dir
		out, _ := cmd.CombinedOutput()
		if !strings.Contains(string(out), "EXITCODE: OK") {
			ok = false
			c.Warn("C15/apalache-inductive-step-not-discharged", fmt.Sprintf("%v: %s", step, lastN(string(out), 400)))
		}
	}
	if ok {
		c.Ev.Set("apalache_inductive_invariant", fmt.Sprintf("HeadingIDsInd.tla: Init => IndInv and IndInv /\\ Next => IndInv' discharged by Apalache in %.1f s (3 slug bases, suffixes up to 4, any table of up to 15 ids)", time.Since(t0).Seconds()))
	}
}
