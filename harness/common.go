package main

import (
	"crypto/sha1"
	"encoding/base64"
	"encoding/hex"
	"encoding/json"
	"fmt"
	"math/rand"
	"os"
	"path/filepath"
	"sort"
	"strconv"
	"strings"
	"sync"
	"time"
	"unicode/utf8"
)

// ---------------------------------------------------------------------------------
// run context

type Ctx struct {
	ID    string
	Tier  string // quick | thorough
	Seed  int64
	Start time.Time
	Ev    *Evidence

	mu         sync.Mutex
	violations []Violation
	known      map[string]int // signature -> count
	warnings   map[string]int
	samples    []interface{}
	sampleSeen map[string]bool
}

type Violation struct {
	Property  string      `json:"property"`
	Signature string      `json:"signature"`
	Detail    string      `json:"detail"`
	Replay    interface{} `json:"replay"` // whatever the check's --replay understands
	Path      string      `json:"-"`
}

func (c *Ctx) Thorough() bool { return c.Tier == "thorough" }

// Pick returns q for the quick tier and t for the thorough tier.
func (c *Ctx) Pick(q, t int) int {
	if c.Thorough() {
		return t
	}
	return q
}

func (c *Ctx) Rand(salt string) *rand.Rand {
	h := sha1.Sum([]byte(fmt.Sprintf("%d/%s/%s", c.Seed, c.ID, salt)))
	var s int64
	for i := 0; i < 8; i++ {
		s = s<<8 | int64(h[i])
	}
	return rand.New(rand.NewSource(s))
}

// Sample keeps up to n samples per key in the evidence.
func (c *Ctx) Sample(key string, max int, v interface{}) {
	c.mu.Lock()
	defer c.mu.Unlock()
	if c.sampleSeen == nil {
		c.sampleSeen = map[string]bool{}
	}
	cnt := 0
	for k := range c.sampleSeen {
		if strings.HasPrefix(k, key+"#") {
			cnt++
		}
	}
	if cnt >= max {
		return
	}
	c.sampleSeen[key+"#"+strconv.Itoa(cnt)] = true
	c.samples = append(c.samples, map[string]interface{}{"kind": key, "case": v})
}

// Warn records a mechanism-level contract breach (never changes the exit status).
func (c *Ctx) Warn(sig string, detail string) {
	c.mu.Lock()
	defer c.mu.Unlock()
	if c.warnings == nil {
		c.warnings = map[string]int{}
	}
	c.warnings[sig]++
	if c.warnings[sig] == 1 {
		fmt.Printf("CONTRACT-WARNING property=%s %s %s\n", c.ID, sig, detail)
	}
}

// Report records a violation observed on the real code. The caller must have
// re-executed it (reproduced) before calling. Signatures listed as "known" in
// known_findings.json become KNOWN-FINDING lines.
func (c *Ctx) Report(v Violation) {
	c.mu.Lock()
	defer c.mu.Unlock()
	v.Property = c.ID
	if kf := lookupKnown(c.ID, v.Signature); kf != nil {
		if c.known == nil {
			c.known = map[string]int{}
		}
		c.known[v.Signature]++
		return
	}
	// keep at most 5 per signature
	n := 0
	for _, o := range c.violations {
		if o.Signature == v.Signature {
			n++
		}
	}
	if n >= 5 {
		return
	}
	c.violations = append(c.violations, v)
}

func (c *Ctx) NumViolations() int {
	c.mu.Lock()
	defer c.mu.Unlock()
	return len(c.violations)
}

// ---------------------------------------------------------------------------------
// known findings

type Finding struct {
	Property  string `json:"property"`
	Signature string `json:"signature"`
	Status    string `json:"status"` // known | fixed
	Commit    string `json:"commit,omitempty"`
	Witness   string `json:"witness,omitempty"`
	What      string `json:"what,omitempty"`
}

var (
	findingsOnce sync.Once
	findings     []Finding
)

func loadFindings() {
	findingsOnce.Do(func() {
		b, err := os.ReadFile(filepath.Join(verifRoot(), "known_findings.json"))
		if err != nil {
			return
		}
		var f struct {
			Findings []Finding `json:"findings"`
		}
		if err := json.Unmarshal(b, &f); err != nil {
			infra("known_findings.json: %v", err)
		}
		findings = f.Findings
	})
}

func lookupKnown(prop, sig string) *Finding {
	loadFindings()
	for i := range findings {
		f := &findings[i]
		if f.Property == prop && f.Status == "known" && f.Signature == sig {
			return f
		}
	}
	return nil
}

// ---------------------------------------------------------------------------------
// evidence

type Evidence struct {
	PropertyID  string                 `json:"property_id"`
	Tier        string                 `json:"tier"`
	Seed        int64                  `json:"seed"`
	Level       string                 `json:"level"`
	Coverage    map[string]interface{} `json:"coverage"`
	Assumptions []string               `json:"assumptions"`
	WallS       float64                `json:"wall_s"`
	Violations  int                    `json:"violations"`

	mu       sync.Mutex
	distinct map[string]struct{}
}

func (e *Evidence) Add(key string, n int64) {
	e.mu.Lock()
	defer e.mu.Unlock()
	cur, _ := e.Coverage[key].(int64)
	e.Coverage[key] = cur + n
}

func (e *Evidence) Set(key string, v interface{}) {
	e.mu.Lock()
	defer e.mu.Unlock()
	e.Coverage[key] = v
}

// Distinct counts a non-trivial case once per distinct key.
func (e *Evidence) Distinct(key string) bool {
	h := sha1.Sum([]byte(key))
	k := string(h[:10])
	e.mu.Lock()
	defer e.mu.Unlock()
	if e.distinct == nil {
		e.distinct = map[string]struct{}{}
	}
	if _, ok := e.distinct[k]; ok {
		return false
	}
	e.distinct[k] = struct{}{}
	return true
}

// TLC folds a model-checking run's own summary into the evidence.
func (e *Evidence) TLC(name string, r TLCResult) {
	e.Add("states", r.Distinct)
	e.Add("transitions", r.Generated)
	e.mu.Lock()
	defer e.mu.Unlock()
	runs, _ := e.Coverage["tlc_runs"].([]interface{})
	runs = append(runs, map[string]interface{}{
		"name": name, "generated": r.Generated, "distinct": r.Distinct, "depth": r.Depth,
		"wall_s": round2(r.Wall), "json_values": r.JSONCount,
	})
	e.Coverage["tlc_runs"] = runs
}

func round2(f float64) float64 { return float64(int64(f*100)) / 100 }

func (c *Ctx) writeEvidence() {
	e := c.Ev
	e.mu.Lock()
	defer e.mu.Unlock()
	e.WallS = round2(time.Since(c.Start).Seconds())
	e.Violations = len(c.violations)
	e.Coverage["distinct_nontrivial"] = int64(len(e.distinct))
	if _, ok := e.Coverage["evaluations"]; !ok {
		e.Coverage["evaluations"] = int64(0)
	}
	for _, k := range []string{"states", "transitions", "traces_validated_against_impl"} {
		if _, ok := e.Coverage[k]; !ok {
			e.Coverage[k] = int64(0)
		}
	}
	smp := c.samples
	if len(smp) == 0 {
		smp = []interface{}{"(no samples recorded)"}
	}
	e.Coverage["samples"] = smp
	if len(c.warnings) > 0 {
		e.Coverage["contract_warnings"] = c.warnings
	}
	if len(c.known) > 0 {
		e.Coverage["known_findings_hit"] = c.known
	}
	b, err := json.MarshalIndent(e, "", " ")
	must(err)
	dir := filepath.Join(verifRoot(), "evidence")
	must(os.MkdirAll(dir, 0o755))
	tmp := filepath.Join(dir, fmt.Sprintf(".%s.%d.tmp", c.ID, os.Getpid()))
	must(os.WriteFile(tmp, b, 0o644))
	must(os.Rename(tmp, filepath.Join(dir, c.ID+".json")))
}

// finish prints the verdict lines and returns the exit status.
func (c *Ctx) finish() int {
	// write replay files
	for i := range c.violations {
		v := &c.violations[i]
		b, _ := json.MarshalIndent(v, "", " ")
		h := sha1.Sum(b)
		dir := filepath.Join(verifRoot(), "replay")
		must(os.MkdirAll(dir, 0o755))
		v.Path = filepath.Join(dir, fmt.Sprintf("%s-%s.json", c.ID, hex.EncodeToString(h[:6])))
		must(os.WriteFile(v.Path, b, 0o644))
	}
	c.writeEvidence()
	var ks []string
	for k := range c.known {
		ks = append(ks, k)
	}
	sort.Strings(ks)
	for _, k := range ks {
		fmt.Printf("KNOWN-FINDING: property=%s %s (%d occurrences this run)\n", c.ID, k, c.known[k])
	}
	if len(c.violations) == 0 {
		fmt.Printf("OK property=%s tier=%s seed=%d wall=%.1fs evaluations=%v distinct=%d\n", c.ID, c.Tier, c.Seed,
			time.Since(c.Start).Seconds(), c.Ev.Coverage["evaluations"], len(c.Ev.distinct))
		return 0
	}
	for _, v := range c.violations {
		fmt.Printf("VIOLATION property=%s replay=%s\n", c.ID, v.Path)
		fmt.Printf("  signature=%s\n  %s\n", v.Signature, firstLines(v.Detail, 12))
	}
	return 1
}

func firstLines(s string, n int) string {
	ls := strings.Split(s, "\n")
	if len(ls) > n {
		ls = append(ls[:n], "…")
	}
	return strings.Join(ls, "\n  ")
}

// infra: infrastructure failure, never a verdict.
func infra(format string, a ...interface{}) {
	fmt.Fprintf(os.Stderr, "INFRA-ERROR: "+format+"\n", a...)
	os.Exit(2)
}

func jstr(v interface{}) string {
	b, _ := json.Marshal(v)
	return string(b)
}

func envInt(name string, def int64) int64 {
	if s := os.Getenv(name); s != "" {
		if v, err := strconv.ParseInt(s, 10, 64); err == nil {
			return v
		}
	}
	return def
}

// ---------------------------------------------------------------------------------
// ndjson trace buffer

type traceBuf struct {
	buf []byte
	n   int
}

func (t *traceBuf) add(ev interface{}) {
	b, err := json.Marshal(ev)
	must(err)
	t.buf = append(t.buf, b...)
	t.buf = append(t.buf, '\n')
	t.n++
}
func (t *traceBuf) bytes() []byte { return t.buf }

// ---------------------------------------------------------------------------------
// rawDoc: a document as bytes; JSON form is a string when it is valid UTF-8, otherwise
// {"b64": ...} (encoding/json would replace invalid bytes by U+FFFD).

type rawDoc string

func (d rawDoc) MarshalJSON() ([]byte, error) {
	if utf8.ValidString(string(d)) {
		return json.Marshal(string(d))
	}
	return json.Marshal(map[string]string{"b64": base64.StdEncoding.EncodeToString([]byte(d)), "quoted": strconv.Quote(string(d))})
}

func (d *rawDoc) UnmarshalJSON(b []byte) error {
	var s string
	if json.Unmarshal(b, &s) == nil {
		*d = rawDoc(s)
		return nil
	}
	var m map[string]string
	if err := json.Unmarshal(b, &m); err != nil {
		return err
	}
	raw, err := base64.StdEncoding.DecodeString(m["b64"])
	if err != nil {
		return err
	}
	*d = rawDoc(raw)
	return nil
}
