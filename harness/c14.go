package main

// C14 — Writer failures surface as errors and never corrupt what was written.
//
//  MC   Writer.tla (bufio protocol with sticky error, renderer ignoring per-write results,
//       Flush result returned): Prefix, ErrorSurfaces, termination; negative controls
//       FlushErrorDropped and SkipFlushWhenEmpty.
//  M2C  every (write-size plan, fail offset K, failure kind) TLC enumerates is executed on the
//       real renderer: the plan becomes a tree of code String nodes whose values have exactly
//       the planned sizes (unit 1024 bytes = a quarter of the real 4096-byte buffer), the
//       destination fails exactly at K units; returned error and accepted byte count are
//       compared with the model.
//  C2M  real documents x EVERY byte offset k x failure kinds x destination kinds (plain
//       io.Writer, caller-supplied bufio.Writer of several sizes, custom BufWriter) x
//       Convert/Render: the calls the destination saw are recorded and judged by TLC
//       against TraceWriter.tla.

import (
	"bufio"
	"bytes"
	"encoding/json"
	"errors"
	"fmt"
	"io"
	"strings"

	"github.com/yuin/goldmark"
	"github.com/yuin/goldmark/ast"
	"github.com/yuin/goldmark/renderer"
	"github.com/yuin/goldmark/renderer/html"
	"github.com/yuin/goldmark/text"
	"github.com/yuin/goldmark/util"
)

func init() {
	register(&Check{ID: "C14", Level: "model_checking", Run: runC14, Replay: replayC14})
}

var errSentinel = errors.New("verif: destination failed")

// faultWriter accepts bytes up to offset k; the write crossing k is short ("short") or
// accepts nothing ("zero"); every later call fails. It records every call.
type faultWriter struct {
	k      int
	kind   string
	ref    []byte // fault-free output
	acc    int
	failed bool
	writes [][4]int // offered, accepted, contentOk, failed
}

func (f *faultWriter) Write(p []byte) (int, error) {
	ok := 1
	if f.acc+len(p) > len(f.ref) || !bytes.Equal(p, f.ref[f.acc:f.acc+len(p)]) {
		ok = 0
	}
	if f.failed {
		f.writes = append(f.writes, [4]int{len(p), 0, ok, 1})
		return 0, errSentinel
	}
	room := f.k - f.acc
	if room < 0 {
		room = 0
	}
	if len(p) <= room {
		f.acc += len(p)
		f.writes = append(f.writes, [4]int{len(p), len(p), ok, 0})
		return len(p), nil
	}
	n := 0
	if f.kind == "short" {
		n = room
	}
	f.acc += n
	f.failed = true
	f.writes = append(f.writes, [4]int{len(p), n, ok, 1})
	return n, errSentinel
}

// passThrough is a caller-supplied util.BufWriter without a buffer: it remembers the first
// error and reports it from Flush.
type passThrough struct {
	w   io.Writer
	err error
}

func (p *passThrough) Write(b []byte) (int, error) {
	if p.err != nil {
		return 0, p.err
	}
	n, err := p.w.Write(b)
	if err != nil {
		p.err = err
	}
	return n, err
}
func (p *passThrough) WriteByte(c byte) error { _, err := p.Write([]byte{c}); return err }
func (p *passThrough) WriteRune(r rune) (int, error) {
	return p.Write([]byte(string(r)))
}
func (p *passThrough) WriteString(s string) (int, error) { return p.Write([]byte(s)) }
func (p *passThrough) Available() int                    { return 0 }
func (p *passThrough) Buffered() int                     { return 0 }
func (p *passThrough) Flush() error                      { return p.err }

type c14Run struct {
	T        int      `json:"t"`
	Writes   [][4]int `json:"writes"`
	Total    int      `json:"total"`
	RetNil   bool     `json:"retNil"`
	RetIs    bool     `json:"retIs"`
	Panicked bool     `json:"panicked"`
	Calls    int      `json:"calls"`
}

type c14Case struct {
	Kind   string   `json:"kind"` // "doc" | "plan"
	Config mdConfig `json:"config"`
	Doc    rawDoc   `json:"doc,omitempty"`
	Plan   []int    `json:"plan,omitempty"` // units of 1024 bytes
	K      int      `json:"k"`
	Fail   string   `json:"fail"` // short | zero
	Dest   string   `json:"dest"` // plain | bufio16 | bufio4096 | bufio65536 | custom
	API    string   `json:"api"`  // convert | render
}

func planTree(plan []int) (ast.Node, []byte) {
	doc := ast.NewDocument()
	var ref []byte
	for i, u := range plan {
		v := bytes.Repeat([]byte{byte('a' + i%26)}, u*1024)
		s := ast.NewString(v)
		s.SetCode(true)
		doc.AppendChild(doc, s)
		ref = append(ref, v...)
	}
	return doc, ref
}

type c14Ent struct {
	md  goldmark.Markdown
	ref []byte
}

var c14Cache = map[string]c14Ent{}

// execC14 runs one case and returns the recorded run.
func execC14(cs c14Case) (run c14Run, err error) {
	var ref []byte
	var call func(w io.Writer) error
	if cs.Kind == "plan" {
		tree, r := planTree(cs.Plan)
		ref = r
		rd := renderer.NewRenderer(renderer.WithNodeRenderers(util.Prioritized(html.NewRenderer(), 1000)))
		call = func(w io.Writer) error { return rd.Render(w, nil, tree) }
	} else {
		key := cs.Config.String() + "|" + string(cs.Doc)
		ent, ok := c14Cache[key]
		if !ok {
			ent.md = cs.Config.build()
			var buf bytes.Buffer
			if e := ent.md.Convert([]byte(cs.Doc), &buf); e != nil {
				return run, fmt.Errorf("fault-free conversion failed: %v", e)
			}
			ent.ref = buf.Bytes()
			if len(c14Cache) > 64 {
				c14Cache = map[string]c14Ent{}
			}
			c14Cache[key] = ent
		}
		md := ent.md
		ref = ent.ref
		if cs.API == "render" {
			src := []byte(cs.Doc)
			tree := md.Parser().Parse(text.NewReader(src))
			call = func(w io.Writer) error { return md.Renderer().Render(w, src, tree) }
		} else {
			call = func(w io.Writer) error { return md.Convert([]byte(cs.Doc), w) }
		}
	}
	fw := &faultWriter{k: cs.K, kind: cs.Fail, ref: ref}
	var dest io.Writer = fw
	switch cs.Dest {
	case "bufio16":
		dest = bufio.NewWriterSize(fw, 16)
	case "bufio4096":
		dest = bufio.NewWriterSize(fw, 4096)
	case "bufio65536":
		dest = bufio.NewWriterSize(fw, 65536)
	case "custom":
		dest = &passThrough{w: fw}
	}
	run.Total = len(ref)
	func() {
		defer func() {
			if r := recover(); r != nil {
				run.Panicked = true
			}
		}()
		e := call(dest)
		run.RetNil = e == nil
		run.RetIs = e != nil && errors.Is(e, errSentinel)
	}()
	// consecutive fully accepted, content-correct calls are merged (the acceptor only sums them)
	for _, w := range fw.writes {
		if n := len(run.Writes); n > 0 && w[2] == 1 && w[3] == 0 && w[0] == w[1] &&
			run.Writes[n-1][2] == 1 && run.Writes[n-1][3] == 0 && run.Writes[n-1][0] == run.Writes[n-1][1] {
			run.Writes[n-1][0] += w[0]
			run.Writes[n-1][1] += w[1]
			continue
		}
		run.Writes = append(run.Writes, w)
	}
	run.Calls = len(fw.writes)
	if run.Writes == nil {
		run.Writes = [][4]int{}
	}
	return run, nil
}

func replayC14(c *Ctx, raw json.RawMessage) (bool, string) {
	var cs c14Case
	if err := json.Unmarshal(raw, &cs); err != nil {
		return false, err.Error()
	}
	return replayC14Case(cs)
}

// replayC14Case executes the case alone; when that run is accepted, the same call is repeated
// (a failed call followed by the same call is a history too: what a failing conversion leaves
// behind in the process - a pooled buffer, say - must not reach the next one).
func replayC14Case(cs c14Case) (bool, string) {
	for attempt := 0; attempt < 4; attempt++ {
		run, err := execC14(cs)
		if err != nil {
			return false, err.Error()
		}
		bad, _ := tlcJudge("TraceWriter", "TraceWriter.cfg", "runs.ndjson", []interface{}{run})
		if len(bad) > 0 && !c14Diagnostic(bad[0].Why) {
			note := ""
			if attempt > 0 {
				note = fmt.Sprintf(" (on repetition %d of the same call in one process)", attempt+1)
			}
			return true, fmt.Sprintf("%s: %s%s (destination saw %d calls, accepted %d of %d bytes, retNil=%v)", c14Desc(cs), bad[0].Why, note, run.Calls, sumAccepted(run), run.Total, run.RetNil)
		}
	}
	return false, "accepted"
}

func c14Diagnostic(why string) bool {
	return why == "error-without-writer-failure" || why == "output-incomplete"
}

func sumAccepted(r c14Run) int {
	n := 0
	for _, w := range r.Writes {
		n += w[1]
	}
	return n
}

func c14Desc(cs c14Case) string {
	if cs.Kind == "plan" {
		return fmt.Sprintf("Render of code strings of %v KiB into %s, destination fails (%s) at byte %d", cs.Plan, cs.Dest, cs.Fail, cs.K)
	}
	d := string(cs.Doc)
	if len(d) > 80 {
		d = d[:80] + "…"
	}
	return fmt.Sprintf("%s(%s) of %q (%d bytes) into %s, destination fails (%s) at byte %d", cs.API, cs.Config, d, len(cs.Doc), cs.Dest, cs.Fail, cs.K)
}

func runC14(c *Ctx) {
	ev := c.Ev
	ev.Assumptions = []string{
		"TLC/SANY, Json/IOUtils",
		"model unit = 1024 bytes (Cap 4 = the 4096-byte bufio buffer the renderer allocates)",
		"a caller-supplied BufWriter reports its first write error from Flush (bufio.Writer does; the harness's pass-through writer does)",
		"'error-without-writer-failure' and 'output-incomplete' are outside the statement and only reported as contract warnings",
	}
	ev.Set("rule", "case = one Convert/Render call with a destination failing at one offset; distinct = distinct (document or plan, configuration, API, destination kind, failure kind, offset); non-trivial = the destination actually fails (k < length of the fault-free output)")
	// ---- MC
	r := RunTLC(TLCOpts{Module: "Writer", Cfg: "Writer_mc.cfg", Workers: 8})
	r.MustOK("Writer MC")
	ev.TLC("Writer_mc (Prefix, ErrorSurfaces, Terminates)", r)
	RunTLC(TLCOpts{Module: "Writer", Cfg: "Writer_neg_dropped.cfg", Workers: 2}).MustViolate("neg FlushErrorDropped", "ErrorSurfaces")
	RunTLC(TLCOpts{Module: "Writer", Cfg: "Writer_neg_skip.cfg", Workers: 2}).MustViolate("neg SkipFlushWhenEmpty", "ErrorSurfaces")
	ev.Set("negative_controls", []string{"FlushErrorDropped => ErrorSurfaces violated", "SkipFlushWhenEmpty => ErrorSurfaces violated"})

	var cases []c14Case
	var expect []struct {
		ret string
		acc int
	}
	// ---- M2C: plans
	type planJ struct {
		Plan     []int  `json:"plan"`
		K        int    `json:"K"`
		Fk       string `json:"fk"`
		Ret      string `json:"ret"`
		Accepted int    `json:"accepted"`
		Total    int    `json:"total"`
	}
	var plans []planJ
	r = RunTLC(TLCOpts{Module: "Writer", Cfg: "Writer_gen.cfg", Workers: 8, OnJSON: func(raw []byte) {
		var p planJ
		if json.Unmarshal(raw, &p) != nil {
			infra("bad plan %s", raw)
		}
		plans = append(plans, p)
	}})
	r.MustOK("Writer generator")
	ev.TLC("Writer_gen (plan dump)", r)
	ev.Set("exhaustive", true)
	for _, p := range plans {
		cases = append(cases, c14Case{Kind: "plan", Plan: p.Plan, K: p.K * 1024, Fail: p.Fk, Dest: "plain", API: "render"})
		expect = append(expect, struct {
			ret string
			acc int
		}{p.Ret, p.Accepted * 1024})
	}
	nPlan := len(cases)
	// plans again at off-by-one offsets and through caller-supplied writers (invariants only)
	for i, p := range plans {
		if p.K > p.Total {
			continue
		}
		for _, d := range []int{-1, 1} {
			if k := p.K*1024 + d; k >= 0 {
				cases = append(cases, c14Case{Kind: "plan", Plan: p.Plan, K: k, Fail: p.Fk, Dest: []string{"plain", "bufio4096", "custom", "bufio16"}[i%4], API: "render"})
			}
		}
	}
	// ---- C2M: documents x every offset
	loadCorpus()
	rng := c.Rand("docs")
	g := newDocGen(c.Rand("mut"))
	var docs []string
	for i := 0; i < c.Pick(40, 400); i++ {
		docs = append(docs, repoDocs[rng.Intn(len(repoDocs))])
	}
	for i := 0; i < c.Pick(20, 200); i++ {
		docs = append(docs, g.next())
	}
	// large documents: outputs beyond the 4096-byte buffer, with long unbroken chunks
	docs = append(docs, strings.Repeat("a", 20000)+"\n", strings.Repeat("word *em* `code` [l](/u) \n", 400), "```\n"+strings.Repeat("x", 9000)+"\n```\n",
		strings.Repeat("| a | b |\n|---|:-:|\n| c | d |\n\n", 120), strings.Repeat("- item[^1]\n", 300)+"\n[^1]: note\n")
	cfgs := []mdConfig{{Ext: "all", AutoID: true, Attr: true}, {Ext: "core", Unsafe: true}, {Ext: "gfm", XHTML: true, HardWraps: true}, {Ext: "all", Unsafe: true, XHTML: true}}
	dests := []string{"plain", "bufio16", "bufio4096", "bufio65536", "custom"}
	for di, d := range docs {
		cfg := cfgs[di%len(cfgs)]
		out, err := convertWith(cfg.build(), []byte(d))
		if err != nil {
			continue
		}
		n := len(out)
		var ks []int
		if n <= c.Pick(600, 2500) {
			for k := 0; k <= n; k++ {
				ks = append(ks, k)
			}
		} else {
			for k := 0; k <= n; k += 1 + n/c.Pick(150, 1500) {
				ks = append(ks, k)
			}
			for _, b := range []int{16, 4096, 8192, 12288, 65536} {
				for dd := -2; dd <= 2; dd++ {
					if k := b + dd; k >= 0 && k <= n {
						ks = append(ks, k)
					}
				}
			}
			ks = append(ks, n-1, n)
		}
		for ki, k := range ks {
			cs := c14Case{Kind: "doc", Config: cfg, Doc: rawDoc(d), K: k, Fail: []string{"short", "zero"}[(ki+di)%2], Dest: dests[(ki+di)%len(dests)], API: []string{"convert", "render"}[(ki/2+di)%2]}
			cases = append(cases, cs)
		}
	}
	// execute everything
	var recs []interface{}
	var kept []int
	for i, cs := range cases {
		run, err := execC14(cs)
		if err != nil {
			continue
		}
		run.T = i
		recs = append(recs, run)
		kept = append(kept, i)
		if cs.K < run.Total {
			ev.Distinct(fmt.Sprintf("%s|%s|%v|%s|%s|%s|%d", cs.Config, cs.Doc, cs.Plan, cs.Dest, cs.Fail, cs.API, cs.K))
		}
		if i < nPlan && !run.Panicked {
			// exact agreement with the model on the plans it enumerated
			gotRet := "err"
			if run.RetNil {
				gotRet = "nil"
			}
			if gotRet != expect[i].ret || sumAccepted(run) != expect[i].acc {
				c.Warn("C14/model-disagrees", fmt.Sprintf("%s: returned %s with %d bytes accepted, Writer.tla predicts %s with %d", c14Desc(cs), gotRet, sumAccepted(run), expect[i].ret, expect[i].acc))
			}
		}
		if i%977 == 11 {
			c.Sample("fault-run", 4, map[string]interface{}{"case": c14Desc(cs), "destination_calls": run.Calls, "accepted": sumAccepted(run), "returned_nil": run.RetNil})
		}
	}
	bad, tr := tlcJudge("TraceWriter", "TraceWriter.cfg", "runs.ndjson", recs)
	ev.TLC("TraceWriter (acceptor over recorded runs)", tr)
	ev.Add("traces_validated_against_impl", int64(len(recs)))
	ev.Add("evaluations", int64(len(recs)))
	ev.Set("plans_replayed_exactly", nPlan)
	perWhy := map[string]int{}
	for _, b := range bad {
		cs := cases[kept[b.L-1]]
		if c14Diagnostic(b.Why) {
			c.Warn("C14/"+b.Why, c14Desc(cs))
			continue
		}
		sig := fmt.Sprintf("C14/%s/%s/%s", b.Why, cs.Dest, cs.API)
		if perWhy[sig]++; perWhy[sig] > 3 {
			continue
		}
		ok, detail := replayC14Case(cs)
		if !ok {
			infra("run rejected in the batch but accepted alone: %s", c14Desc(cs))
		}
		c.Report(Violation{Signature: sig, Detail: detail, Replay: cs})
	}
}
