package main

// C18 — Reader, BlockReader and Segment behave as a cursor over the source.
//
//  MC   Reader.tla model-checked for both reader kinds (positions in bounds, Peek/PeekLine
//       consistent, cursor normalised) + negative control StaleLineCache.
//  M2C  every transition TLC enumerates (all sources over a small alphabet x all segment
//       lists x all call sequences, as a graph over (src, segs, cur, saved, hid)) is executed
//       on a real text.Reader / text.BlockReader from the shortest path to its source state,
//       and again along random walks through the graph; the reply of every call is compared.
//  C2M  long random call sequences on larger sources, logged with the observed replies,
//       validated by TLC against TraceReader.tla (same operators as the model).

import (
	"encoding/json"
	"fmt"
	"math/rand"
	"strconv"
	"strings"
	"time"

	"github.com/yuin/goldmark/text"
)

func init() {
	register(&Check{ID: "C18", Level: "model_checking", Run: runC18, Replay: replayC18})
}

type rdCall struct {
	Op   string `json:"op"`
	N    int    `json:"n"`
	V    int    `json:"v"`
	Slot int    `json:"slot"`
}

type rdWorld struct {
	Kind string   `json:"kind"`
	Src  []string `json:"src"`
	Segs [][3]int `json:"segs"`
}

func (w rdWorld) key() string {
	return w.Kind + "|" + strings.Join(w.Src, "") + "|" + fmt.Sprint(w.Segs)
}
func (w rdWorld) bytes() []byte {
	return []byte(strings.Join(w.Src, ""))
}

type rdEdge struct {
	world  int
	from   string // state key within the world
	to     string
	call   rdCall
	reply  []string
	nondet bool
}

// a real reader with the two slots in which positions are saved
type rdReal struct {
	r     text.Reader
	src   []byte
	slotL [3]int
	slotS [3]text.Segment
	slotF [3]bool
}

func newRdReal(w rdWorld) *rdReal {
	src := w.bytes()
	x := &rdReal{src: src}
	if w.Kind == "source" {
		x.r = text.NewReader(src)
	} else {
		ss := text.NewSegments()
		for _, s := range w.Segs {
			ss.Append(text.NewSegmentPadding(s[0], s[1], s[2]))
		}
		x.r = text.NewBlockReader(src, ss)
	}
	return x
}

func bytesToSyms(b []byte) []string {
	out := make([]string, len(b))
	for i, c := range b {
		out[i] = string(rune(c))
	}
	return out
}

// call performs one call; the reply is normalised to a list of strings; inb reports whether
// every position the call exposed lies inside the source.
func (x *rdReal) call(c rdCall) (reply []string, inb bool, err error) {
	defer func() {
		if r := recover(); r != nil {
			err = fmt.Errorf("panic: %v", r)
		}
	}()
	reply = []string{}
	inb = true
	segOK := func(s text.Segment) bool {
		return 0 <= s.Start && s.Start <= s.Stop && s.Stop <= len(x.src) && s.Padding >= 0
	}
	switch c.Op {
	case "Peek":
		b := x.r.Peek()
		if b == text.EOF {
			reply = []string{"EOF"}
		} else {
			reply = []string{string(rune(b))}
		}
	case "PeekLine":
		line, seg := x.r.PeekLine()
		if line == nil {
			reply = []string{"nil"}
		} else {
			reply = bytesToSyms(line)
			if !segOK(seg) {
				inb = false
			} else if string(seg.Value(x.src)) != string(line) {
				// the segment PeekLine returns describes exactly the bytes it returns
				reply = append(reply, "<segment-value-differs>")
			}
		}
	case "Advance":
		x.r.Advance(c.N)
	case "AdvanceLine":
		x.r.AdvanceLine()
	case "Position":
		l, s := x.r.Position()
		x.slotL[c.Slot], x.slotS[c.Slot], x.slotF[c.Slot] = l, s, true
	case "SetPosition":
		x.r.SetPosition(x.slotL[c.Slot], x.slotS[c.Slot])
	case "SetPadding":
		x.r.SetPadding(c.V)
	case "AdvanceAndSetPadding":
		x.r.AdvanceAndSetPadding(c.N, c.V)
	case "LineOffset":
		reply = []string{strconv.Itoa(x.r.LineOffset())}
	case "Value":
		reply = bytesToSyms(x.r.Value(x.slotS[c.Slot]))
	case "FindClosureNoAdvance":
		x.r.FindClosure('[', ']', text.FindClosureOptions{CodeSpan: c.V&1 != 0, Nesting: c.V&2 != 0, Newline: c.V&4 != 0, Advance: false})
	case "ResetPosition":
		x.r.ResetPosition()
	default:
		return nil, true, fmt.Errorf("unknown op %s", c.Op)
	}
	if _, s := x.r.Position(); !segOK(s) {
		inb = false
	}
	return reply, inb, nil
}

func normReply(raw json.RawMessage) []string {
	var a []interface{}
	if err := json.Unmarshal(raw, &a); err != nil {
		infra("bad reply %s", raw)
	}
	out := make([]string, len(a))
	for i, v := range a {
		switch t := v.(type) {
		case string:
			out[i] = t
		case float64:
			out[i] = strconv.Itoa(int(t))
		default:
			out[i] = fmt.Sprint(t)
		}
	}
	return out
}

func sameReply(a, b []string) bool {
	if len(a) != len(b) {
		return false
	}
	for i := range a {
		if a[i] != b[i] {
			return false
		}
	}
	return true
}

type rdReplay struct {
	World rdWorld  `json:"world"`
	Path  []rdCall `json:"path"`
	Last  rdCall   `json:"last"`
	Want  []string `json:"want"`
	Trace bool     `json:"trace,omitempty"`
}

// runRdPath executes path then last on a fresh reader; returns the reply of last.
func runRdPath(w rdWorld, path []rdCall, last rdCall) ([]string, bool, error) {
	x := newRdReal(w)
	for _, c := range path {
		if _, _, err := x.call(c); err != nil {
			return nil, true, fmt.Errorf("while reaching the source state: %v", err)
		}
	}
	return x.call(last)
}

func judgeRd(reply []string, inb bool, err error, want []string) (bool, string) {
	if err != nil {
		return false, err.Error()
	}
	if !inb {
		return false, "a position outside the source was exposed"
	}
	if !sameReply(reply, want) {
		return false, fmt.Sprintf("reply %q, the cursor model says %q", reply, want)
	}
	return true, ""
}

func rdSig(w rdWorld, path []rdCall, last rdCall) string {
	prev := "start"
	if len(path) > 0 {
		prev = path[len(path)-1].Op
	}
	return fmt.Sprintf("C18/%s/%s/after-%s", w.Kind, last.Op, prev)
}

func replayC18(c *Ctx, raw json.RawMessage) (bool, string) {
	var r rdReplay
	if err := json.Unmarshal(raw, &r); err != nil {
		return false, err.Error()
	}
	if r.Trace {
		calls := append(append([]rdCall{}, r.Path...), r.Last)
		bad, _, _, _ := validateRdTraces(c, []rdWorld{r.World}, [][]rdCall{calls}, 0)
		if why, ok := bad[0]; ok {
			return true, "call sequence rejected by TraceReader: " + why
		}
		return false, "accepted by TraceReader"
	}
	reply, inb, err := runRdPath(r.World, r.Path, r.Last)
	ok, d := judgeRd(reply, inb, err, r.Want)
	return !ok, fmt.Sprintf("%s reader over %q segs %v, calls %v then %v: %s", r.World.Kind, strings.Join(r.World.Src, ""), r.World.Segs, r.Path, r.Last, d)
}

func runC18(c *Ctx) {
	ev := c.Ev
	ev.Assumptions = []string{
		"TLC/SANY and the CommunityModules Json module",
		"documented preconditions as encoded by CallOk in Reader.tla: Advance(n) with n <= remaining view bytes; SetPosition only to positions returned by Position; Value of a saved one-line position (block reader: unpadded line and position); LineOffset where the padding is the rest of a consumed tab and the line segment is unpadded; block-reader segments are non-empty, increasing, each inside one source line",
		"block-reader LineOffset is measured from the start of the current line segment",
		"FindClosure with Advance is not judged (the statement only fixes the no-Advance case)",
	}
	ev.Set("rule", "case = one (world, state, call) transition of Reader.tla executed on a real reader, or one logged call of a random sequence validated by TLC; distinct = distinct (source, segments, cursor, saved, cache flags, call) keys / distinct (source, segments, call prefix hash) for traces; non-trivial = every call other than a repeated pure query on the initial state")
	ev.Set("exhaustive", true)

	// ---- MC
	for _, m := range []struct{ cfg, what string }{
		{"Reader_src_mc3.cfg", "source reader (InBounds, PeekConsistent, PeekTruth, Normalised)"},
		{"Reader_blk_mc3.cfg", "block reader (InBounds, PeekConsistent, PeekTruth, Normalised)"},
	} {
		r := RunTLC(TLCOpts{Module: "ReaderMC", Cfg: m.cfg, Workers: 8})
		r.MustOK("Reader MC " + m.cfg)
		ev.TLC(m.cfg+" "+m.what, r)
	}
	RunTLC(TLCOpts{Module: "ReaderMC", Cfg: "Reader_neg_stale.cfg", Workers: 2}).MustViolate("neg StaleLineCache", "PeekTruth")
	ev.Set("negative_controls", []string{"StaleLineCache (line cache survives SetPosition) => PeekTruth violated"})

	// ---- M2C
	gens := []struct{ cfg, kind string }{{"Reader_src_gen3.cfg", "source"}, {"Reader_blk_gen2.cfg", "block"}, {"Reader_src_genS.cfg", "source"}}
	if c.Thorough() {
		gens = []struct{ cfg, kind string }{{"Reader_src_gen4.cfg", "source"}, {"Reader_blk_gen3.cfg", "block"}, {"Reader_src_genS.cfg", "source"}, {"Reader_blk_genS.cfg", "block"}}
	}
	var nEval int64
	for _, g := range gens {
		nEval += c18Graph(c, g.cfg, g.kind)
	}

	// ---- C2M
	nTr, tlen := c.Pick(400, 6000), 60
	rng := c.Rand("traces")
	var worlds []rdWorld
	var calls [][]rdCall
	for t := 0; t < nTr; t++ {
		worlds = append(worlds, randomRdWorld(rng))
		calls = append(calls, nil)
	}
	bad, nev, legal, r := validateRdTraces(c, worlds, calls, tlen)
	ev.TLC("TraceReader (trace validation)", r)
	ev.Add("traces_validated_against_impl", int64(nTr))
	ev.Set("trace_events", nev)
	ev.Set("trace_events_judged", legal)
	nEval += int64(legal)
	perWhy := map[string]int{}
	for t, why := range bad {
		if perWhy[worlds[t].Kind+why]++; perWhy[worlds[t].Kind+why] > 3 {
			continue // each reproduction is a TLC run
		}
		cs := calls[t]
		// the batch run names the line; reproduce alone with the prefix up to the rejected call
		b2, _, _, _ := validateRdTraces(c, []rdWorld{worlds[t]}, [][]rdCall{cs}, 0)
		if len(b2) == 0 {
			infra("trace %d rejected in the batch but accepted alone", t)
		}
		c.Report(Violation{Signature: fmt.Sprintf("C18/%s/trace/%s", worlds[t].Kind, why),
			Detail: fmt.Sprintf("%s reader over %q segs %v: random call sequence rejected by TraceReader (%s)", worlds[t].Kind, strings.Join(worlds[t].Src, ""), worlds[t].Segs, why),
			Replay: rdReplay{World: worlds[t], Path: cs[:len(cs)-1], Last: cs[len(cs)-1], Trace: true}})
	}
	ev.Add("evaluations", nEval)
}

// c18Graph runs one generator configuration and replays its whole transition graph.
func c18Graph(c *Ctx, cfg, kind string) int64 {
	ev := c.Ev
	var worlds []rdWorld
	widx := map[string]int{}
	var edges []rdEdge
	seen := map[string]bool{}
	r := RunTLC(TLCOpts{Module: "ReaderMC", Cfg: cfg, Workers: 8, Timeout: 30 * time.Minute, OnJSON: func(raw []byte) {
		var t []json.RawMessage
		if err := json.Unmarshal(raw, &t); err != nil || len(t) != 13 {
			infra("bad transition json: %v: %s", err, raw)
		}
		var w rdWorld
		w.Kind = kind
		must(json.Unmarshal(t[0], &w.Src))
		must(json.Unmarshal(t[1], &w.Segs))
		wk := w.key()
		wi, ok := widx[wk]
		if !ok {
			wi = len(worlds)
			widx[wk] = wi
			worlds = append(worlds, w)
		}
		var e rdEdge
		e.world = wi
		e.from = string(t[2]) + string(t[3])
		e.to = string(t[10]) + string(t[11])
		must(json.Unmarshal(t[5], &e.call.Op))
		must(json.Unmarshal(t[6], &e.call.N))
		must(json.Unmarshal(t[7], &e.call.V))
		must(json.Unmarshal(t[8], &e.call.Slot))
		e.reply = normReply(t[9])
		k := strconv.Itoa(wi) + "|" + e.from + "|" + fmt.Sprint(e.call)
		if seen[k] {
			return
		}
		seen[k] = true
		edges = append(edges, e)
	}})
	r.MustOK("Reader generator " + cfg)
	ev.TLC(cfg+" (transition dump)", r)
	if len(edges) == 0 {
		infra("no transitions emitted by %s", cfg)
	}
	// per world: adjacency and BFS shortest paths
	type sk struct {
		w int
		s string
	}
	out := map[sk][]int{}
	for i, e := range edges {
		out[sk{e.world, e.from}] = append(out[sk{e.world, e.from}], i)
	}
	initKey := func(w rdWorld) string {
		// cur = start position, saved = NoPos x2, hid = 0 : recomputed from the first edges emitted
		return ""
	}
	_ = initKey
	// the initial state of a world is the source of an edge that is not the target of any
	// edge reached earlier; TLC emits initial-state edges first, so the first edge seen for a
	// world starts at its initial state.
	first := map[int]string{}
	for _, e := range edges {
		if _, ok := first[e.world]; !ok {
			first[e.world] = e.from
		}
	}
	short := map[sk][]rdCall{}
	for wi := range worlds {
		s0 := sk{wi, first[wi]}
		short[s0] = []rdCall{}
		q := []sk{s0}
		for len(q) > 0 {
			s := q[0]
			q = q[1:]
			for _, ei := range out[s] {
				e := edges[ei]
				t := sk{wi, e.to}
				if _, ok := short[t]; !ok {
					short[t] = append(append([]rdCall{}, short[s]...), e.call)
					q = append(q, t)
				}
			}
		}
	}
	var nEval int64
	report := func(w rdWorld, path []rdCall, last rdCall, want []string) {
		reply, inb, err := runRdPath(w, path, last)
		if ok, d := judgeRd(reply, inb, err, want); !ok {
			c.Report(Violation{Signature: rdSig(w, path, last),
				Detail: fmt.Sprintf("%s reader over %q segs %v, calls %v then %v: %s", w.Kind, strings.Join(w.Src, ""), w.Segs, path, last, d),
				Replay: rdReplay{World: w, Path: path, Last: last, Want: want}})
		} else {
			infra("unreproducible reader mismatch")
		}
	}
	// The model's replies do not depend on what the reader has cached; the implementation's
	// could. So every transition X out of every state S is executed four times, after each
	// subset of the cache-filling pure queries {PeekLine, LineOffset} at S, and after X every
	// pure query enabled in the successor state is checked too (fill -> move -> query).
	isQuery := func(op string) bool { return op == "Peek" || op == "PeekLine" || op == "LineOffset" || op == "Value" }
	fills := [][]string{{}, {"PeekLine"}, {"LineOffset"}, {"LineOffset", "PeekLine"}}
	for st, path := range short {
		w := worlds[st.w]
		es := out[st]
		enabled := map[string]bool{}
		for _, ei := range es {
			enabled[edges[ei].call.Op] = true
		}
		for fi, fill := range fills {
			pre := append([]rdCall{}, path...)
			okFill := true
			for _, f := range fill {
				if !enabled[f] {
					okFill = false
				}
				pre = append(pre, rdCall{Op: f})
			}
			if !okFill {
				continue
			}
			for _, ei := range es {
				e := edges[ei]
				x := newRdReal(w)
				bad := false
				for _, cl := range pre {
					if _, _, err := x.call(cl); err != nil {
						bad = true
						break
					}
				}
				if bad {
					// the path itself fails: reported through the edge that fails on it
					continue
				}
				reply, inb, err := x.call(e.call)
				nEval++
				if fi == 0 && (len(path) > 0 || (e.call.Op != "Peek" && e.call.Op != "Position")) {
					ev.Distinct(w.key() + e.from + fmt.Sprint(e.call))
				}
				if ok, _ := judgeRd(reply, inb, err, e.reply); !ok {
					report(w, pre, e.call, e.reply)
					continue
				} else if fi == 3 && len(path) >= 3 && len(reply) > 0 {
					c.Sample("transition-"+kind, 2, map[string]interface{}{"source": strings.Join(w.Src, ""), "segments": w.Segs, "calls_before": pre, "call": e.call, "reply": reply})
				}
				if isQuery(e.call.Op) {
					continue
				}
				// queries in the successor state, in two orders
				to := sk{st.w, e.to}
				var qs []rdEdge
				for _, qi := range out[to] {
					if isQuery(edges[qi].call.Op) {
						qs = append(qs, edges[qi])
					}
				}
				done := append(append([]rdCall{}, pre...), e.call)
				for _, q := range qs {
					r2, inb2, err2 := x.call(q.call)
					nEval++
					if ok, _ := judgeRd(r2, inb2, err2, q.reply); !ok {
						report(w, done, q.call, q.reply)
						break
					}
					done = append(done, q.call)
				}
				if len(qs) > 1 {
					y := newRdReal(w)
					for _, cl := range pre {
						y.call(cl)
					}
					y.call(e.call)
					done = append(append([]rdCall{}, pre...), e.call)
					for i := len(qs) - 1; i >= 0; i-- {
						q := qs[i]
						r2, inb2, err2 := y.call(q.call)
						nEval++
						if ok, _ := judgeRd(r2, inb2, err2, q.reply); !ok {
							report(w, done, q.call, q.reply)
							break
						}
						done = append(done, q.call)
					}
				}
			}
		}
	}
	// random walks: the same edges from other paths (hidden caches depend on the path)
	rng := c.Rand("walks" + cfg)
	nWalks, walkLen := c.Pick(3000, 40000), 40
	for wk := 0; wk < nWalks; wk++ {
		wi := rng.Intn(len(worlds))
		w := worlds[wi]
		x := newRdReal(w)
		cur := sk{wi, first[wi]}
		var path []rdCall
		for s := 0; s < walkLen; s++ {
			os_ := out[cur]
			if len(os_) == 0 {
				break
			}
			e := edges[os_[rng.Intn(len(os_))]]
			reply, inb, err := x.call(e.call)
			nEval++
			if ok, _ := judgeRd(reply, inb, err, e.reply); !ok {
				report(w, path, e.call, e.reply)
				break
			}
			path = append(path, e.call)
			cur = sk{wi, e.to}
		}
	}
	ev.Add("graph_worlds", int64(len(worlds)))
	ev.Add("graph_states", int64(len(short)))
	ev.Add("graph_edges", int64(len(edges)))
	return nEval
}

var rdAlphabet = []string{"a", "b", " ", " ", "\t", "\t", "\n", "\n", "\r", "[", "]", "`", "\\"}

func randomRdWorld(rng *rand.Rand) rdWorld {
	n := rng.Intn(28)
	w := rdWorld{Kind: "source"}
	for i := 0; i < n; i++ {
		w.Src = append(w.Src, rdAlphabet[rng.Intn(len(rdAlphabet))])
	}
	if w.Src == nil {
		w.Src = []string{}
	}
	// line decomposition
	var lines [][2]int
	st := 0
	for i, s := range w.Src {
		if s == "\n" || i == len(w.Src)-1 {
			lines = append(lines, [2]int{st, i + 1})
			st = i + 1
		}
	}
	w.Segs = [][3]int{}
	if rng.Intn(2) == 0 {
		for _, l := range lines {
			w.Segs = append(w.Segs, [3]int{l[0], l[1], 0})
		}
		return w
	}
	w.Kind = "block"
	for _, l := range lines {
		if rng.Intn(5) == 0 {
			continue
		}
		a := l[0]
		if rng.Intn(2) == 0 {
			a += rng.Intn(l[1] - l[0])
		}
		b := l[1]
		if b-1 > a && rng.Intn(3) == 0 {
			b--
		}
		pad := 0
		if rng.Intn(3) == 0 {
			pad = 1 + rng.Intn(3)
		}
		w.Segs = append(w.Segs, [3]int{a, b, pad})
	}
	if len(w.Segs) == 0 { // a block reader has at least one segment
		w.Kind = "source"
		for _, l := range lines {
			w.Segs = append(w.Segs, [3]int{l[0], l[1], 0})
		}
	}
	return w
}

var rdOps = []string{"Peek", "PeekLine", "PeekLine", "Advance", "Advance", "Advance", "AdvanceLine", "Position", "Position", "SetPosition", "SetPosition",
	"SetPadding", "AdvanceAndSetPadding", "LineOffset", "LineOffset", "Value", "FindClosureNoAdvance", "ResetPosition"}

// validateRdTraces executes call sequences on real readers (generated at random when
// calls[t] is nil), logs each call with the observed reply and has TLC validate the log.
func validateRdTraces(c *Ctx, worlds []rdWorld, calls [][]rdCall, tlen int) (map[int]string, int, int, TLCResult) {
	var tr traceBuf
	for t, w := range worlds {
		tr.add(map[string]interface{}{"ev": "Reset", "t": t, "kind": w.Kind, "src": w.Src, "segs": w.Segs})
		x := newRdReal(w)
		var rg *rand.Rand
		steps := len(calls[t])
		if calls[t] == nil {
			rg = c.Rand(fmt.Sprintf("rdtrace%d", t))
			steps = tlen
		}
		var done []rdCall
		for s := 0; s < steps; s++ {
			var cl rdCall
			if rg != nil {
				cl = rdCall{Op: rdOps[rg.Intn(len(rdOps))]}
				switch cl.Op {
				case "Advance":
					cl.N = rg.Intn(5)
					if rg.Intn(6) == 0 {
						cl.N = rg.Intn(12)
					}
				case "AdvanceAndSetPadding":
					cl.N, cl.V = 1+rg.Intn(3), 1+rg.Intn(3)
				case "SetPadding":
					cl.V = rg.Intn(4)
				case "Position":
					cl.Slot = 1 + rg.Intn(2)
				case "SetPosition", "Value":
					cl.Slot = 1 + rg.Intn(2)
					if !x.slotF[cl.Slot] {
						cl = rdCall{Op: "PeekLine"}
					}
				case "FindClosureNoAdvance":
					cl.V = rg.Intn(8)
				}
			} else {
				cl = calls[t][s]
			}
			reply, inb, err := x.call(cl)
			done = append(done, cl)
			if err != nil {
				// a panic: logged as a call that exposed an out-of-bounds position, which no
				// specification behaviour allows (judged only if the call was legal)
				tr.add(map[string]interface{}{"ev": cl.Op, "t": t, "n": cl.N, "v": cl.V, "slot": cl.Slot, "reply": []string{}, "inbounds": false})
				break
			}
			var jr interface{} = reply
			if cl.Op == "LineOffset" {
				n, _ := strconv.Atoi(reply[0])
				jr = []int{n}
			}
			tr.add(map[string]interface{}{"ev": cl.Op, "t": t, "n": cl.N, "v": cl.V, "slot": cl.Slot, "reply": jr, "inbounds": inb})
		}
		calls[t] = done
	}
	var verdict struct {
		Done     bool `json:"done"`
		Consumed int  `json:"consumed"`
		Legal    int  `json:"legal"`
		Bad      []struct {
			L   int    `json:"l"`
			T   int    `json:"t"`
			Why string `json:"why"`
		} `json:"bad"`
	}
	got := false
	r := RunTLC(TLCOpts{Module: "TraceReader", Cfg: "TraceReader.cfg", Workers: 1, Timeout: 30 * time.Minute,
		Files: map[string][]byte{"trace.ndjson": tr.bytes()}, OnJSON: func(raw []byte) {
			if json.Unmarshal(raw, &verdict) == nil && verdict.Done {
				got = true
			}
		}})
	r.MustOK("TraceReader")
	if !got || verdict.Consumed != tr.n {
		infra("reader trace validation did not consume the whole trace (%d of %d)\n%s", verdict.Consumed, tr.n, r.Tail)
	}
	// line number -> position inside its trace, to cut the call list at the rejected call
	bad := map[int]string{}
	lineOfTrace := map[int]int{}
	ln := 0
	for t := range worlds {
		ln++ // Reset line
		lineOfTrace[t] = ln
		ln += len(calls[t])
	}
	for _, b := range verdict.Bad {
		if _, ok := bad[b.T]; !ok {
			bad[b.T] = b.Why
			idx := b.L - lineOfTrace[b.T] // 1-based index of the rejected call
			if idx >= 1 && idx <= len(calls[b.T]) {
				calls[b.T] = calls[b.T][:idx]
			}
		}
	}
	for t := range worlds {
		if tlen > 0 {
			c.Ev.Distinct(fmt.Sprintf("rdtrace|%s|%v", worlds[t].key(), calls[t]))
		}
	}
	return bad, tr.n, verdict.Legal, r
}
