package main

// C07 — A configured instance is safe for concurrent use.
//
//  Spec  Once.tla: G goroutines, three sync.Once-guarded tables (parser, renderer, entity
//        map), one action per hook event (gate) + the two internal steps of sync.Once.
//  MC    TLC: ReadsBuilt, InitOnce, OwnerExclusive, ResultSequential, NoWriteAfterDone,
//        Terminates for 2 and 3 goroutines; negative controls OnceDisabled / FlagEarly.
//  M2C   TLC prints every transition; paths of gate steps (internal steps eager) covering
//        every gate-level transition + seeded random paths are SCHEDULES: a -race build of
//        this harness holds the real goroutines at the hooks and releases them in that
//        order (gates spin on plain words in norace functions, so the scheduling itself
//        adds no happens-before edge), on shared Markdown / Parser / Renderer values.
//  C2M   unscheduled stress runs (GOMAXPROCS 1/2/16, injected yields) log per-goroutine
//        event sequences; TraceOnce.tla accepts a run iff some interleaving is a
//        behaviour of Once.tla (diagnostic: CONTRACT-WARNING).
//  Verdict: a race-detector report, a panic, or a call whose bytes differ from the bytes of
//        the same call run alone on a fresh instance — re-executed in a fresh process
//        before it is reported.

import (
	"bufio"
	"bytes"
	"encoding/json"
	"fmt"
	"math/rand"
	"os"
	"os/exec"
	"path/filepath"
	"regexp"
	"sort"
	"strconv"
	"strings"
	"sync"
	"time"

	"github.com/yuin/goldmark/text"
)

func init() {
	register(&Check{ID: "C07", Level: "model_checking", Run: runC07, Replay: replayC07})
}

// ---------------------------------------------------------------------------------
// documents: every lazily built table and every extension is touched

var c07Docs = []string{
	"&amp; &copy; x &#x41; [l](/u&amp;v \"t&quot;\") [n](/p&#8364;q&#x20AC; \"t&#8364;\") ![i](/i&#233;.png) <http://a.b/&#233;>\n\n[nr]: /r&#8364; 'n&#x41;'\n\n[nr] [NR][] \\&#35; &#0;\n\n# Heading one {#hid .cls}\n\nfoo *bar* **baz** `code` <span>raw</span>\n\n- a\n- b\n  - c\n\n1. x\n2. y\n\n> quote\n> more\n\n```go info&amp;\nfenced\n```\n\n    indented\n\n<div>\nhtml\n</div>\n\n[ref]: /url 'title'\n\n[REF] and [ẞ] ok\n\n[ss]: /fold\n",
	"&lt;tag&gt; text &hearts; [e](/e&#8364; '&#8364;') ![j](</j &#233;>)\n\n| a | b |\n|:--|--:|\n| 1 | 2 |\n| ~~s~~ | www.example.com |\n\n- [ ] todo\n- [x] done\n\nterm\n: definition &amp; more\n\nfoot[^1] note[^2] again[^1]\n\n[^1]: first\n[^2]: second `c`\n\n\"quoted\" -- dash... 'single'\n\nhttp://example.com/a_b?c=d&e=f and a@b.cd\n",
	"&copy; 日本語の\n文章 です [k](/k&#x20AC;z) ~~~\n\n``` i&#110;fo\nx\n```\n\n## Heading two\n\n## Heading two\n\nSetext\n======\n\n![img](/i.png \"t\") <http://auto.link> <me@x.yz>\n\n***\n\n* * *\n\n1) one\n2) two\n\n   para in item\n\nline one  \nline two\\\nline three\n\n<!-- comment -->\n\n<?php echo 1; ?>\n\n[Ünï]: /u\n\n[ünï] [ÜNÏ][]\n",
	"&amp; ![m](/m&#233; \"&#233;\") [o](<&#111;>)\n\n> - nested\n>   > deep `x`\n>\n> 1. n\n\n~~~~ info\n~~~\n~~~~\n\n| x |\n|---|\n\n*a **b** _c_* __d__ ~~e~~ \\* \\\\ &#0; &nosuch;\n\n[a][b] [b] [c]()\n\n[b]: <u v> (t)\n\nApple\n:   Pomaceous\n\n    para\n\nOrange\n:   Citrus\n\nx[^n]\n\n[^n]: n1\n\n    n2\n",
	"<DIV>\nd\n</DIV>\n\n<Table>\n<TR><TD>a</TD></TR>\n</Table>\n\n<SECTION>\n\n<Pre>\nx\n</Pre>\n\n<sCRIPT>\ny\n</sCRIPT>\n\n<Ul>\n<LI>z</LI>\n</Ul>\n\n<H1>t</H1>\n\n<BlockQuote>\nq\n</BlockQuote>\n\n<Details>\n<Summary>s</Summary>\n</Details>\n\n<?PHP x ?>\n\n<!DOCTYPE html>\n\n<![CDATA[\nc\n]]>\n\ntext <Span CLASS=\"x\">i</Span> <Br/> &AMP; &Aacute; &aacute;\n",
	"plain &amp; simple [p](/&#112;&#x71;)\n\n# T {.c k=v}\n\ntext\n\n## U {data-x=\"say \\\"hi\\\" \\\\ there\" title='it\\'s' lang=\"en\"}\n\nSetext {data-y=\"a \\\"b\\\" c\" .k}\n---\n\n### V {#v data-z=\"\\\"\\\"\" data-w=\"plain value\"}\n",
	// inline constructs that continue across line endings (labels, link text, titles, destinations in
	// angle brackets, code spans, raw HTML, emphasis), in paragraphs, quotes and list items
	"&amp; [text one][multi\nline label] and [second\ntext][multi line\nlabel] [multi\nline label][] [multi\n  line   label]\n\n[multi line label]: /mll 'ti\ntle'\n\n> [q text][quoted\n> label] `code\n> span` <b a='x\n> y'> *em\n> ph*\n\n[quoted label]:\n  /ql\n  \"t\"\n\n- [l\n  m](/u 't\n  u') [r][item\n  label] ![alt\n  text](/i)\n\n[item label]: </il> (t)\n\n[un\ndefined label] [x][no\nsuch]\n\n" +
		strings.Repeat("[a][long\nlabel number one] [b][long label\nnumber two] &lt;\n", 6) + "\n[long label number one]: /1\n[long label number two]: /2\n",
	"&quot;\n\n" + strings.Repeat("- item *e* `c` [l](/u&#8364;) &amp; &#8364;\n", 12) + "\n" + strings.Repeat("para with &lt; entity and \"quotes\" -- here\n\n", 6),
}

// documents whose first paragraph starts with an entity
var c07EntFirst []string

func init() {
	for _, d := range c07Docs {
		if strings.HasPrefix(d, "&") {
			c07EntFirst = append(c07EntFirst, d)
		}
	}
}

// ---------------------------------------------------------------------------------
// the gate-level graph of Once.tla

type onceState struct {
	Pc   map[string]string `json:"pc"`
	Once map[string]string `json:"once"`
	Tab  map[string]string `json:"tab"`
	Ret  map[string]string `json:"ret"`
}

type onceEdge struct {
	From onceState `json:"from"`
	G    string    `json:"g"`
	Kind string    `json:"kind"`
	Ev   string    `json:"ev"`
	To   onceState `json:"to"`
}

type gateEdge struct {
	from, to int // indices of settled states
	g        int
	gate     string
}

type onceClass struct {
	Name   string
	Gs     []string
	Api    []string // per goroutine
	ApiDef string   // operator of OnceMC
	W      int
	Ent    string // idle | done
	EntAt  string // TLA+ set
}

func (oc onceClass) cfg(emit bool, spec string) string {
	var gs []string
	for _, g := range oc.Gs {
		gs = append(gs, strconv.Quote(g))
	}
	e := "FALSE"
	if emit {
		e = "TRUE"
	}
	return fmt.Sprintf("CONSTANTS\n  G = {%s}\n  Api <- %s\n  W = %d\n  EntStart = %q\n  EntAt <- %s\n  EntAny = FALSE\n  Mode = \"spec\"\n  Emit = %s\n%s\nCHECK_DEADLOCK FALSE\n",
		strings.Join(gs, ","), oc.ApiDef, oc.W, oc.Ent, oc.EntAt, e, spec)
}

func stateKey(s onceState) string { return jstr(s) }

type onceGraph struct {
	class  onceClass
	states []onceState
	edges  []gateEdge
	out    map[int][]int // state -> gate edges
	init   int
	tlc    TLCResult
}

func buildOnceGraph(c *Ctx, oc onceClass) *onceGraph {
	var raw []onceEdge
	r := RunTLC(TLCOpts{Module: "OnceMC", Cfg: "once_gen.cfg", CfgText: oc.cfg(true, "INIT Init\nNEXT Next\nINVARIANTS ReadsBuilt InitOnce OwnerExclusive ResultSequential"),
		Workers: 8, Timeout: 20 * time.Minute, OnJSON: func(b []byte) {
			var e onceEdge
			if err := json.Unmarshal(b, &e); err != nil {
				infra("bad Once edge: %v: %s", err, b)
			}
			raw = append(raw, e)
		}})
	r.MustOK("Once generator " + oc.Name)
	c.Ev.TLC("Once "+oc.Name+" (transition dump)", r)
	g := &onceGraph{class: oc, out: map[int][]int{}, tlc: r}
	idx := map[string]int{}
	id := func(s onceState) int {
		k := stateKey(s)
		if i, ok := idx[k]; ok {
			return i
		}
		idx[k] = len(g.states)
		g.states = append(g.states, s)
		return len(g.states) - 1
	}
	type fe struct {
		to   int
		g    string
		kind string
		ev   string
	}
	fine := map[int][]fe{}
	seen := map[string]bool{}
	for _, e := range raw {
		a, b := id(e.From), id(e.To)
		k := fmt.Sprintf("%d|%s|%s|%d", a, e.G, e.Ev, b)
		if seen[k] {
			continue
		}
		seen[k] = true
		fine[a] = append(fine[a], fe{b, e.G, e.Kind, e.Ev})
	}
	for _, l := range fine {
		sort.Slice(l, func(i, j int) bool {
			if l[i].g != l[j].g {
				return l[i].g < l[j].g
			}
			if l[i].ev != l[j].ev {
				return l[i].ev < l[j].ev
			}
			return l[i].to < l[j].to
		})
	}
	settle := func(s int) int {
		for steps := 0; steps < 100; steps++ {
			moved := false
			for _, e := range fine[s] {
				if e.kind == "int" {
					s = e.to
					moved = true
					break
				}
			}
			if !moved {
				return s
			}
		}
		infra("Once graph: internal steps do not settle")
		return s
	}
	// the initial state: all goroutines at their first gate
	initS := -1
	for i, s := range g.states {
		ok := true
		for gi, gn := range oc.Gs {
			want := "ParseEnter"
			if oc.Api[gi] == "render" {
				want = "Start"
			}
			if s.Pc[gn] != want {
				ok = false
			}
		}
		if ok && s.Once["P"] == "idle" && s.Once["R"] == "idle" && s.Tab["P"] == "unbuilt" && s.Tab["R"] == "unbuilt" {
			initS = i
			break
		}
	}
	if initS < 0 {
		infra("Once graph: no initial state")
	}
	g.init = initS
	// explore the gate-level graph
	gi := map[string]int{}
	for i, n := range oc.Gs {
		gi[n] = i
	}
	visited := map[int]bool{initS: true}
	queue := []int{initS}
	for len(queue) > 0 {
		s := queue[0]
		queue = queue[1:]
		for _, e := range fine[s] {
			if e.kind != "gate" {
				continue
			}
			t := settle(e.to)
			g.out[s] = append(g.out[s], len(g.edges))
			g.edges = append(g.edges, gateEdge{from: s, to: t, g: gi[e.g], gate: e.ev})
			if !visited[t] {
				visited[t] = true
				queue = append(queue, t)
			}
		}
	}
	return g
}

func (g *onceGraph) done(s int) bool {
	for _, l := range g.states[s].Pc {
		if l != "Done" {
			return false
		}
	}
	return true
}

// schedules: for every gate-level edge, the shortest path to its source, the edge, and a
// seeded random completion; plus nRandom random walks.
func (g *onceGraph) schedules(rng *rand.Rand, nRandom int) [][]int {
	// BFS parents
	parent := map[int]int{} // state -> edge index reaching it
	dist := map[int]int{g.init: 0}
	queue := []int{g.init}
	for len(queue) > 0 {
		s := queue[0]
		queue = queue[1:]
		for _, ei := range g.out[s] {
			t := g.edges[ei].to
			if _, ok := dist[t]; !ok {
				dist[t] = dist[s] + 1
				parent[t] = ei
				queue = append(queue, t)
			}
		}
	}
	pathTo := func(s int) []int {
		var p []int
		for s != g.init {
			ei := parent[s]
			p = append(p, ei)
			s = g.edges[ei].from
		}
		for i, j := 0, len(p)-1; i < j; i, j = i+1, j-1 {
			p[i], p[j] = p[j], p[i]
		}
		return p
	}
	complete := func(p []int, s int) []int {
		for steps := 0; !g.done(s) && steps < 500; steps++ {
			o := g.out[s]
			if len(o) == 0 {
				infra("Once graph: stuck state %s", jstr(g.states[s]))
			}
			ei := o[rng.Intn(len(o))]
			p = append(p, ei)
			s = g.edges[ei].to
		}
		return p
	}
	var out [][]int
	for ei, e := range g.edges {
		p := append(pathTo(e.from), ei)
		out = append(out, complete(p, e.to))
	}
	for i := 0; i < nRandom; i++ {
		out = append(out, complete(nil, g.init))
	}
	return out
}

func (g *onceGraph) steps(path []int) []c07Step {
	var st []c07Step
	for _, ei := range path {
		e := g.edges[ei]
		pred := map[int]string{}
		for i, gn := range g.class.Gs {
			pred[i] = g.states[e.to].Pc[gn]
		}
		st = append(st, c07Step{G: e.g, Gate: e.gate, Pred: pred})
	}
	return st
}

// ---------------------------------------------------------------------------------
// expectations and work-event counts (computed in this process, sequentially)

type c07Prep struct {
	expect map[string][]byte // api -> bytes
	np, nr int
}

var (
	c07PrepMu    sync.Mutex
	c07PrepCache = map[string]*c07Prep{}
)

func c07Prepare(cf mdConfig, doc string) *c07Prep {
	key := cf.String() + "\x00" + doc
	c07PrepMu.Lock()
	defer c07PrepMu.Unlock()
	if p, ok := c07PrepCache[key]; ok {
		return p
	}
	installHooks()
	p := &c07Prep{expect: map[string][]byte{}}
	globalSinks.Store("c07count", hookSink(func(ev string, _ []interface{}) {
		switch ev {
		case "Open", "Continue", "InlineTry":
			p.np++
		case "RenderNode":
			p.nr++
		}
	}))
	md := cf.build()
	var buf bytes.Buffer
	if err := md.Convert([]byte(doc), &buf); err != nil {
		infra("C07 baseline conversion failed: %v", err)
	}
	globalSinks.Delete("c07count")
	p.expect["convert"] = append([]byte(nil), buf.Bytes()...)
	// parse / render alone on fresh instances
	md2 := cf.build()
	tree := md2.Parser().Parse(text.NewReader([]byte(doc)))
	var b2 bytes.Buffer
	if err := cf.build().Renderer().Render(&b2, []byte(doc), tree); err != nil {
		infra("C07 baseline render failed: %v", err)
	}
	p.expect["parse"] = b2.Bytes()
	p.expect["render"] = b2.Bytes()
	c07PrepCache[key] = p
	return p
}

func c07Bounds(n, w int) []int {
	var b []int
	for k := 1; k < w; k++ {
		v := n * k / w
		if v < k {
			v = k
		}
		b = append(b, v)
	}
	return b
}

func c07MakeRun(id int, mode string, cf mdConfig, api []string, docs []string, w int) c07Run {
	r := c07Run{ID: id, Mode: mode, Config: cf, Api: api}
	for i, d := range docs {
		p := c07Prepare(cf, d)
		r.Docs = append(r.Docs, rawDoc(d))
		r.Expect = append(r.Expect, rawDoc(p.expect[api[i]]))
		r.PBound = append(r.PBound, c07Bounds(p.np, w))
		r.RBound = append(r.RBound, c07Bounds(p.nr, w))
	}
	return r
}

// ---------------------------------------------------------------------------------
// child processes

var (
	c07BinOnce sync.Once
	c07Bin     string
)

func c07RaceBinary() string {
	c07BinOnce.Do(func() {
		bin := filepath.Join(verifRoot(), ".bin", fmt.Sprintf("vh-race.%d", os.Getpid()))
		dir := filepath.Join(verifRoot(), "harness")
		if repoRoot != "/repo" {
			// background run against a snapshot of the repository: a copy of the harness whose
			// replace directive points at the snapshot
			dir = newWorkDir("harness-race")
			defer os.RemoveAll(dir)
			files, _ := filepath.Glob(filepath.Join(verifRoot(), "harness", "*.go"))
			for _, f := range files {
				b, _ := os.ReadFile(f)
				must(os.WriteFile(filepath.Join(dir, filepath.Base(f)), b, 0o644))
			}
			gm, _ := os.ReadFile(filepath.Join(verifRoot(), "harness", "go.mod"))
			must(os.WriteFile(filepath.Join(dir, "go.mod"), bytes.ReplaceAll(gm, []byte("=> /repo"), []byte("=> "+repoRoot)), 0o644))
			if gs, err := os.ReadFile(filepath.Join(repoRoot, "go.sum")); err == nil {
				must(os.WriteFile(filepath.Join(dir, "go.sum"), gs, 0o644))
			}
		}
		cmd := exec.Command("go", "build", "-race", "-tags", "verif", "-o", bin, ".")
		cmd.Dir = dir
		cmd.Env = append(os.Environ(), "GOFLAGS=-mod=mod", "GOPROXY=off", "GOSUMDB=off", "GOTOOLCHAIN=local", "CGO_ENABLED=1")
		if out, err := cmd.CombinedOutput(); err != nil {
			infra("cannot build the -race harness: %v\n%s", err, out)
		}
		c07Bin = bin
	})
	return c07Bin
}

type c07Race struct {
	RunID int
	Text  string
	Sig   string
}

var reRaceFrame = regexp.MustCompile(`^\s+(github\.com/yuin/goldmark[^\s(]*(?:\([^)]*\))?[^\s(]*)\(`)

func raceSignature(block string) string {
	// first goldmark frame of each of the stacks in the report
	var tops []string
	inStack, taken := false, false
	for _, l := range strings.Split(block, "\n") {
		t := strings.TrimSpace(l)
		if strings.HasSuffix(t, ":") && (strings.Contains(t, " by ") || strings.HasPrefix(t, "Previous") || strings.HasPrefix(t, "Read") || strings.HasPrefix(t, "Write")) {
			inStack, taken = !strings.HasPrefix(t, "Goroutine"), false
			continue
		}
		if t == "" {
			inStack = false
			continue
		}
		if inStack && !taken && strings.Contains(t, "github.com/yuin/goldmark") && !strings.HasPrefix(t, "/") {
			f := t
			if i := strings.Index(f, "github.com/yuin/goldmark/"); i >= 0 {
				f = f[i+len("github.com/yuin/goldmark/"):]
			} else if i := strings.Index(f, "github.com/yuin/goldmark."); i >= 0 {
				f = "goldmark." + f[i+len("github.com/yuin/goldmark."):]
			}
			if i := strings.LastIndex(f, "("); i > 0 {
				f = f[:i]
			}
			tops = append(tops, f)
			taken = true
		}
	}
	if len(tops) == 0 {
		return "C07/race/unattributed"
	}
	if len(tops) > 2 {
		tops = tops[:2]
	}
	sort.Strings(tops)
	return "C07/race/" + strings.Join(tops, "|")
}

type c07ChildOut struct {
	Results []c07Result
	Races   []c07Race
	Stderr  string
	Exit    int
	Crash   string // Go runtime fatal error / unrecovered panic text, if the process died
	CrashID int    // run during which it died
}

var reFatal = regexp.MustCompile(`(?m)^(fatal error: .*|panic: .*)$`)

// runC07Child executes runs in one fresh -race process.
func runC07Child(runs []c07Run, timeout time.Duration) c07ChildOut {
	bin := c07RaceBinary()
	work := newWorkDir("c07")
	defer os.RemoveAll(work)
	jb, _ := json.Marshal(runs)
	jobs := filepath.Join(work, "jobs.json")
	resf := filepath.Join(work, "results.ndjson")
	must(os.WriteFile(jobs, jb, 0o644))
	cmd := exec.Command("timeout", "-k", "10", strconv.Itoa(int(timeout.Seconds())), bin, "c07child", jobs, resf)
	cmd.Env = append(os.Environ(), "GORACE=halt_on_error=0 exitcode=0 history_size=5 atexit_sleep_ms=0", "VERIF_ROOT="+verifRoot())
	var stderr bytes.Buffer
	cmd.Stderr = &stderr
	cmd.Stdout = &stderr
	err := cmd.Run()
	var out c07ChildOut
	if err != nil {
		if ee, ok := err.(*exec.ExitError); ok {
			out.Exit = ee.ExitCode()
		} else {
			out.Exit = 255
		}
	}
	out.Stderr = stderr.String()
	// race reports, attributed to the run whose markers surround them
	cur := -1
	var block []string
	in := false
	sc := bufio.NewScanner(bytes.NewReader(stderr.Bytes()))
	sc.Buffer(make([]byte, 1<<20), 1<<24)
	for sc.Scan() {
		l := sc.Text()
		if strings.HasPrefix(l, "@@RUN ") {
			f := strings.Fields(l)
			if len(f) == 3 {
				id, _ := strconv.Atoi(f[1])
				if f[2] == "BEGIN" {
					cur = id
				}
			}
			continue
		}
		if strings.HasPrefix(l, "WARNING: DATA RACE") {
			in = true
			block = []string{l}
			continue
		}
		if in {
			if strings.HasPrefix(l, "==================") {
				in = false
				t := strings.Join(block, "\n")
				out.Races = append(out.Races, c07Race{RunID: cur, Text: t, Sig: raceSignature(t)})
				continue
			}
			block = append(block, l)
		}
	}
	if out.Exit != 0 {
		if m := reFatal.FindString(out.Stderr); m != "" {
			i := strings.Index(out.Stderr, m)
			out.Crash = m + "\n" + firstLines(out.Stderr[i:], 40)
			out.CrashID = cur
		}
	}
	if b, err := os.ReadFile(resf); err == nil {
		dec := json.NewDecoder(bytes.NewReader(b))
		for dec.More() {
			var r c07Result
			if dec.Decode(&r) != nil {
				break
			}
			out.Results = append(out.Results, r)
		}
	}
	return out
}

// ---------------------------------------------------------------------------------

type c07Replay struct {
	Run c07Run `json:"run"`
	// History: the runs the process had executed before Run (state that lives in the process -
	// pools, caches, lazily built tables - can be what the failure needs)
	History []c07Run `json:"history,omitempty"`
}

// c07Judge turns what one run showed into (signature, detail) pairs.
func c07Judge(run *c07Run, res *c07Result, races []c07Race) (sigs []string, details []string) {
	for _, rc := range races {
		sigs = append(sigs, rc.Sig)
		details = append(details, fmt.Sprintf("race detector report during %s run on shared %s instance (apis %v):\n%s", run.Mode, run.Config, run.Api, firstLines(rc.Text, 40)))
	}
	if res == nil {
		return
	}
	if res.Panic != "" {
		sigs = append(sigs, "C07/panic")
		details = append(details, fmt.Sprintf("panic in a concurrent call on shared %s instance: %s", run.Config, res.Panic))
	}
	for _, m := range res.Mismatch {
		sigs = append(sigs, fmt.Sprintf("C07/output/%s", run.Api[m.G]))
		details = append(details, fmt.Sprintf("goroutine %d (%s, config %s, %s run) returned bytes that differ from the same call run alone (err=%q):\n got  %q\n want %q\n (%s)", m.G+1, run.Api[m.G], run.Config, run.Mode, m.Err,
			clip(string(m.Got), 300), clip(string(run.Expect[m.G]), 300), diffLines(outLines([]byte(run.Expect[m.G])), outLines([]byte(m.Got)))))
	}
	return
}

func replayC07(c *Ctx, raw json.RawMessage) (bool, string) {
	var rp c07Replay
	if err := json.Unmarshal(raw, &rp); err != nil {
		return false, err.Error()
	}
	if len(rp.History) > 0 {
		return c07ReproduceAfter(rp.History, rp.Run, 4)
	}
	ok, d := c07Reproduce(rp.Run, 6)
	return ok, d
}

// c07ReproduceAfter runs history and then run in one fresh -race process and judges run.
func c07ReproduceAfter(history []c07Run, run c07Run, attempts int) (bool, string) {
	batch := append(append([]c07Run{}, history...), run)
	batch[0].Fresh = true
	for i := 0; i < attempts; i++ {
		out := runC07Child(batch, 20*time.Minute)
		var res *c07Result
		for k := range out.Results {
			if out.Results[k].ID == run.ID {
				res = &out.Results[k]
			}
		}
		// the race runtime reports a racy pair once per process: in this process it may already
		// show in an earlier run of the history, so every report of the batch counts
		sigs, details := c07Judge(&run, res, out.Races)
		if out.Crash != "" && out.CrashID == run.ID {
			sigs = append(sigs, "C07/crash")
			details = append(details, fmt.Sprintf("the process died during concurrent calls on a shared %s instance (apis %v):\n%s", run.Config, run.Api, out.Crash))
		}
		if len(sigs) > 0 {
			return true, fmt.Sprintf("(after the %d runs the process had executed before)\n", len(history)) + strings.Join(details, "\n")
		}
	}
	return false, "no race report, no panic and no output difference after the same process history in " + strconv.Itoa(attempts) + " fresh processes"
}

// c07Reproduce runs one run alone in fresh -race processes (each attempt is a new process
// because the race runtime reports each racy pair once per process).
func c07Reproduce(run c07Run, attempts int) (bool, string) {
	run.Fresh = true
	for i := 0; i < attempts; i++ {
		out := runC07Child([]c07Run{run}, 5*time.Minute)
		var res *c07Result
		if len(out.Results) > 0 {
			res = &out.Results[0]
		}
		sigs, details := c07Judge(&run, res, out.Races)
		if out.Crash != "" {
			sigs = append(sigs, "C07/crash")
			details = append(details, fmt.Sprintf("the process died during concurrent calls on a shared %s instance (apis %v):\n%s", run.Config, run.Api, out.Crash))
		}
		if len(sigs) > 0 {
			return true, strings.Join(details, "\n")
		}
	}
	// what a process keeps between calls (pools) can be what the failure needs: the same calls
	// repeated in one process, free-running, with collections in between, on one and on two Ps
	for _, procs := range []int{1, 2} {
		r2 := run
		r2.Mode, r2.Sched, r2.Rounds, r2.Procs, r2.GC, r2.Yield = "stress", nil, 40, procs, true, 150
		out := runC07Child([]c07Run{r2}, 5*time.Minute)
		var res *c07Result
		if len(out.Results) > 0 {
			res = &out.Results[0]
		}
		sigs, details := c07Judge(&r2, res, out.Races)
		if len(sigs) > 0 {
			return true, "(the calls of the run repeated 40 times in one process with collections in between)\n" + strings.Join(details, "\n")
		}
	}
	return false, "no race report, no panic and no output difference in " + strconv.Itoa(attempts) + " fresh processes"
}

func runC07(c *Ctx) {
	ev := c.Ev
	ev.Assumptions = []string{
		"TLC/SANY, Json; Once.tla models sync.Once as idle/running/done with blocking entry (Go memory model: the return of f happens before the return of every Do)",
		"the Go race detector observes unsynchronised conflicting accesses on executed paths (no false positives; bounded history can miss)",
		"gates spin on plain words inside //go:norace functions and per-goroutine logs are unshared, so the scheduling adds no happens-before edge between the goroutines under test",
		"'the bytes it would return if run alone' = the same call on a fresh instance of the same configuration, computed sequentially (for Parse: the tree rendered afterwards by a private renderer)",
		"each goroutine renders its own tree; rendering one tree from two goroutines is not part of the statement",
	}
	ev.Set("rule", "case = one concurrent run (N goroutines on one shared instance, scheduled by a TLC path or free-running); distinct = distinct (class, schedule) / (stress parameters, configuration); non-trivial = at least two goroutines overlap their first use (every scheduled run starts with all goroutines at their first gate)")

	// ---- MC
	for _, m := range []struct{ cfg, what string }{{"Once_mc2.cfg", "2 goroutines convert, W=2"}, {"Once_mc3.cfg", "3 goroutines convert/parse/render, W=2"}, {"Once_mc3c.cfg", "3 goroutines convert, W=1"}} {
		r := RunTLC(TLCOpts{Module: "OnceMC", Cfg: m.cfg, Workers: 8, Timeout: 20 * time.Minute})
		r.MustOK("Once MC " + m.cfg)
		ev.TLC("Once "+m.cfg+" ("+m.what+": ReadsBuilt, InitOnce, OwnerExclusive, ResultSequential, NoWriteAfterDone, Terminates)", r)
	}
	RunTLC(TLCOpts{Module: "OnceMC", Cfg: "Once_neg_disabled.cfg", Workers: 2}).MustViolate("neg OnceDisabled", "InitOnce")
	RunTLC(TLCOpts{Module: "OnceMC", Cfg: "Once_neg_disabled_read.cfg", Workers: 2}).MustViolate("neg OnceDisabled", "ReadsBuilt")
	RunTLC(TLCOpts{Module: "OnceMC", Cfg: "Once_neg_flagearly.cfg", Workers: 2}).MustViolate("neg FlagEarly", "ReadsBuilt")
	ev.Set("negative_controls", []string{"OnceDisabled => InitOnce violated", "OnceDisabled => ReadsBuilt violated", "FlagEarly => ReadsBuilt violated"})

	// ---- classes
	g2, g3 := []string{"g1", "g2"}, []string{"g1", "g2", "g3"}
	rep := func(s string, n int) []string {
		o := make([]string, n)
		for i := range o {
			o[i] = s
		}
		return o
	}
	entR1 := "EntR1"
	classes := []onceClass{
		{"2xconvert", g2, rep("convert", 2), "ApiConvert", 2, "done", "EntNone"},
		{"2xparse", g2, rep("parse", 2), "ApiParse", 2, "done", "EntNone"},
		{"2xrender", g2, rep("render", 2), "ApiRender", 2, "done", "EntNone"},
		{"convert+parse", g2, []string{"convert", "parse"}, "ApiMixed", 2, "done", "EntNone"},
		{"convert+parse+render", g3, []string{"convert", "parse", "render"}, "ApiMixed", 2, "done", "EntNone"},
		{"2xconvert/ent", g2, rep("convert", 2), "ApiConvert", 2, "idle", entR1},
		{"2xrender/ent", g2, rep("render", 2), "ApiRender", 2, "idle", entR1},
	}
	if c.Thorough() {
		classes = append(classes,
			onceClass{"3xconvert", g3, rep("convert", 3), "ApiConvert", 2, "done", "EntNone"},
			onceClass{"3xparse", g3, rep("parse", 3), "ApiParse", 2, "done", "EntNone"},
			onceClass{"3xrender", g3, rep("render", 3), "ApiRender", 2, "done", "EntNone"},
			onceClass{"2xconvert/W3", g2, rep("convert", 2), "ApiConvert", 3, "done", "EntNone"},
			onceClass{"convert+parse+render/ent", g3, []string{"convert", "parse", "render"}, "ApiMixed", 2, "idle", entR1},
		)
	}
	allCfgs := allConfigs()
	rng := c.Rand("c07")
	cfgPick := func(i int) mdConfig {
		// rotate through the lattice; "all" and "gfm" twice as often
		switch i % 5 {
		case 0:
			return mdConfig{Ext: "all", AutoID: true, Attr: true, Unsafe: i%2 == 0, XHTML: i%3 == 0, HardWraps: i%7 == 0}
		case 1:
			return mdConfig{Ext: "gfm", AutoID: i%2 == 0, Unsafe: true}
		case 2:
			return mdConfig{Ext: "allopts", AutoID: true, Attr: i%2 == 0, XHTML: i%3 == 0}
		}
		return allCfgs[rng.Intn(len(allCfgs))]
	}
	var runs []c07Run
	runClass := map[int]int{}
	schedOf := map[int]string{}
	nextID := 1
	var freshRuns []c07Run
	maxPerClass := c.Pick(700, 1000000)
	for ci, oc := range classes {
		g := buildOnceGraph(c, oc)
		paths := g.schedules(rng, c.Pick(150, 1500))
		ev.Add("gate_level_transitions", int64(len(g.edges)))
		ev.Add("schedules", int64(len(paths)))
		if oc.Ent == "idle" {
			// each needs its own process: keep the edge-cover paths that involve the entity once, sampled
			var keep [][]int
			for _, p := range paths {
				for _, ei := range p {
					if strings.HasPrefix(g.edges[ei].gate, "EntInit") {
						keep = append(keep, p)
						break
					}
				}
			}
			rng.Shuffle(len(keep), func(i, j int) { keep[i], keep[j] = keep[j], keep[i] })
			if n := c.Pick(24, 400); len(keep) > n {
				keep = keep[:n]
			}
			paths = keep
		} else if len(paths) > maxPerClass {
			// keep all edge-cover paths first (they come first), then random ones
			paths = paths[:maxPerClass]
		}
		for pi, p := range paths {
			cf := cfgPick(nextID)
			docs := make([]string, len(oc.Gs))
			pool := c07Docs
			if oc.Ent == "idle" {
				pool = c07EntFirst // the first entity lookup must fall into the first render chunk
			}
			for i := range docs {
				docs[i] = pool[(pi+i*2+ci)%len(pool)]
				if pi%7 == 3 {
					docs[i] = pool[pi%len(pool)] // same document for everybody
				}
			}
			run := c07MakeRun(nextID, "sched", cf, oc.Api, docs, oc.W)
			run.Sched = g.steps(p)
			run.ClassID = oc.Name
			runClass[nextID] = ci
			schedOf[nextID] = oc.Name
			if oc.Ent == "idle" {
				run.Fresh = true
				freshRuns = append(freshRuns, run)
			} else {
				runs = append(runs, run)
			}
			nextID++
		}
	}
	// ---- stress runs
	var stress []c07Run
	apis4 := [][]string{rep("convert", 4), {"convert", "parse", "render", "convert"}, rep("parse", 4), rep("render", 4)}
	nStress := c.Pick(96, 256*6)
	for i := 0; i < nStress; i++ {
		cf := allCfgs[(i*37+int(c.Seed))%len(allCfgs)]
		if c.Thorough() {
			cf = allCfgs[i%len(allCfgs)]
		}
		if i%6 == 5 {
			cf = mdConfig{Ext: "allopts", AutoID: true, Attr: true, Unsafe: i%12 == 5}
		}
		api := apis4[i%len(apis4)]
		docs := make([]string, 4)
		for k := range docs {
			docs[k] = c07Docs[(i+k)%len(c07Docs)]
		}
		run := c07MakeRun(nextID, "stress", cf, api, docs, 1)
		run.Procs = []int{1, 2, 16}[i%3]
		run.Yield = []int{0, 150, 600}[(i/3)%3]
		run.GC = i%4 == 1
		run.Rounds = 1
		if i%5 == 4 {
			run.Rounds = 12
		}
		run.ClassID = "stress:" + strings.Join(api, ",")
		stress = append(stress, run)
		nextID++
	}
	byID := map[int]*c07Run{}
	index := func(l []c07Run) {
		for i := range l {
			byID[l[i].ID] = &l[i]
		}
	}
	index(runs)
	index(freshRuns)
	index(stress)

	// ---- execute: batches of scheduled runs, each fresh run alone, stress batches (the
	// first run of each stress batch sees an idle entity table)
	var batches [][]c07Run
	bs := (len(runs) + 5) / 6
	for i := 0; i < len(runs); i += bs {
		j := i + bs
		if j > len(runs) {
			j = len(runs)
		}
		batches = append(batches, runs[i:j])
	}
	for i := range freshRuns {
		batches = append(batches, freshRuns[i:i+1])
	}
	sb := c.Pick(8, 16)
	for i := 0; i < len(stress); i += sb {
		j := i + sb
		if j > len(stress) {
			j = len(stress)
		}
		b := stress[i:j]
		b[0].Fresh = true
		batches = append(batches, b)
	}
	c07RaceBinary()
	defer os.Remove(c07Bin)
	outs := make([]c07ChildOut, len(batches))
	var wg sync.WaitGroup
	sem := make(chan struct{}, 4)
	for i := range batches {
		wg.Add(1)
		go func(i int) {
			defer wg.Done()
			sem <- struct{}{}
			defer func() { <-sem }()
			outs[i] = runC07Child(batches[i], 40*time.Minute)
		}(i)
	}
	wg.Wait()

	// ---- judge
	where := map[int][2]int{} // run id -> (batch, position in the batch)
	for bi := range batches {
		for k := range batches[bi] {
			where[batches[bi][k].ID] = [2]int{bi, k}
		}
	}
	results := map[int]*c07Result{}
	racesBy := map[int][]c07Race{}
	type crash struct {
		run  *c07Run
		text string
	}
	var crashes []crash
	for bi, o := range outs {
		if o.Crash != "" {
			// the process died inside a concurrent call: the runtime detected e.g. a
			// concurrent map read and write. The run is re-executed alone below.
			for i := range batches[bi] {
				if batches[bi][i].ID == o.CrashID {
					crashes = append(crashes, crash{&batches[bi][i], o.Crash})
				}
			}
			if len(crashes) == 0 {
				infra("C07 child for batch %d crashed outside a run (exit %d)\n%s", bi, o.Exit, firstLines(lastN(o.Stderr, 3000), 60))
			}
			continue
		}
		if len(o.Results) != len(batches[bi]) {
			infra("C07 child for batch %d returned %d of %d results (exit %d)\n%s", bi, len(o.Results), len(batches[bi]), o.Exit, firstLines(lastN(o.Stderr, 3000), 60))
		}
		for i := range o.Results {
			results[o.Results[i].ID] = &o.Results[i]
		}
		for _, rc := range o.Races {
			racesBy[rc.RunID] = append(racesBy[rc.RunID], rc)
		}
	}
	for _, cr := range crashes {
		ok, d := c07Reproduce(*cr.run, 6)
		if !ok {
			infra("C07: the process crashed during run %d (%s) but the run neither crashes nor races in 6 fresh processes:\n%s", cr.run.ID, cr.run.ClassID, cr.text)
		}
		m := reFatal.FindString(cr.text)
		c.Report(Violation{Signature: "C07/crash/" + strings.TrimSpace(strings.SplitN(m, "\n", 2)[0]), Detail: d, Replay: c07Replay{Run: *cr.run}})
	}
	var followed, diverged, timedOut int64
	divSamples := 0
	for id, res := range results {
		run := byID[id]
		ev.Add("evaluations", 1)
		key := fmt.Sprintf("%s|%s|%v|%d|%d", run.ClassID, run.Config, run.Sched, run.Procs, run.Yield)
		ev.Distinct(key)
		if res.TimedOut {
			timedOut++
			continue
		}
		if run.Mode == "sched" {
			if len(res.Diverged) == 0 {
				followed++
			} else {
				diverged++
				if divSamples < 3 {
					divSamples++
					c.Warn("C07/schedule-diverged/"+run.ClassID, fmt.Sprintf("the real goroutines left the schedule: %v", res.Diverged))
				}
			}
		}
		sigs, details := c07Judge(run, res, racesBy[id])
		seenSig := map[string]bool{}
		for i, sig := range sigs {
			if seenSig[sig] {
				continue
			}
			seenSig[sig] = true
			ok, d := c07Reproduce(*run, 6)
			rp := c07Replay{Run: *run}
			if !ok {
				// alone it does not show: what the process had done before may be needed
				if w, has := where[id]; has && w[1] > 0 {
					hist := append([]c07Run{}, batches[w[0]][:w[1]]...)
					if ok2, d2 := c07ReproduceAfter(hist, *run, 4); ok2 {
						ok, d, rp.History = true, d2, hist
					}
				}
			}
			if !ok {
				infra("C07: %s observed in run %d (%s) but not reproduced in 6 fresh processes nor after the same process history:\n%s", sig, id, run.ClassID, details[i])
			}
			c.Report(Violation{Signature: sig, Detail: d, Replay: rp})
		}
	}
	if timedOut > 0 {
		infra("C07: %d runs did not finish within 120 s", timedOut)
	}
	ev.Set("scheduled_runs_following_model", followed)
	ev.Set("scheduled_runs_diverged", diverged)
	ev.Set("stress_runs", int64(len(stress)))
	ev.Set("fresh_process_runs", int64(len(freshRuns)))
	if followed == 0 {
		infra("C07: no scheduled run followed its schedule")
	}
	// samples
	for _, id := range []int{1, len(runs) / 2, len(runs)} {
		if r, ok := byID[id]; ok && len(r.Sched) > 0 {
			var s []string
			for _, st := range r.Sched {
				s = append(s, fmt.Sprintf("g%d:%s", st.G+1, st.Gate))
			}
			c.Sample("schedule", 3, map[string]interface{}{"class": r.ClassID, "config": r.Config.String(), "schedule": strings.Join(s, " ")})
		}
	}

	// ---- C2M: trace validation of the recorded event sequences
	c07ValidateTraces(c, classes, byID, results)
}

func lastN(s string, n int) string {
	if len(s) > n {
		return s[len(s)-n:]
	}
	return s
}

// c07ValidateTraces groups the recorded runs by class and has TLC accept each against
// TraceOnce.tla. Rejections are mechanism-level (CONTRACT-WARNING).
func c07ValidateTraces(c *Ctx, classes []onceClass, byID map[int]*c07Run, results map[int]*c07Result) {
	type grp struct {
		oc   onceClass
		recs []interface{}
		ids  []int
		seen map[string]bool
	}
	groups := map[string]*grp{}
	clsByName := map[string]onceClass{}
	for _, oc := range classes {
		clsByName[oc.Name] = oc
	}
	apiDef := func(api []string) (string, bool) {
		all := func(s string) bool {
			for _, a := range api {
				if a != s {
					return false
				}
			}
			return true
		}
		switch {
		case all("convert"):
			return "ApiConvert", true
		case all("parse"):
			return "ApiParse", true
		case all("render"):
			return "ApiRender", true
		default:
			want := []string{"convert", "parse", "render", "convert"}
			for i, a := range api {
				if i >= len(want) || a != want[i] {
					return "", false
				}
			}
			return "ApiMixed", true
		}
	}
	var ids []int
	for id := range results {
		ids = append(ids, id)
	}
	sort.Ints(ids)
	for _, id := range ids {
		res, run := results[id], byID[id]
		if run.Rounds > 1 || res.Evs == nil {
			continue
		}
		var oc onceClass
		if run.Mode == "sched" {
			oc = clsByName[run.ClassID]
			if len(res.Diverged) > 0 {
				continue // already warned; the partial order is not a schedule of the model
			}
		} else {
			def, ok := apiDef(run.Api)
			if !ok {
				continue
			}
			gs := []string{"g1", "g2", "g3", "g4"}[:len(run.Api)]
			ent := "done"
			if res.EntIdle {
				ent = "idle"
			}
			oc = onceClass{Name: run.ClassID + "/" + ent, Gs: gs, Api: run.Api, ApiDef: def, W: 1, Ent: ent, EntAt: "EntNone"}
		}
		g := groups[oc.Name]
		if g == nil {
			g = &grp{oc: oc, seen: map[string]bool{}}
			groups[oc.Name] = g
		}
		evs := map[string][]string{}
		for i, gn := range oc.Gs {
			e := res.Evs[i]
			if e == nil {
				e = []string{}
			}
			evs[gn] = e
		}
		order := res.Order
		if run.Mode != "sched" {
			order = [][2]string{}
			// goroutines running the same API are interchangeable: canonical order of their logs
			for i := 0; i < len(oc.Gs); i++ {
				for j := i + 1; j < len(oc.Gs); j++ {
					a, b := oc.Gs[i], oc.Gs[j]
					if oc.Api[i] == oc.Api[j] && strings.Join(evs[a], ",") > strings.Join(evs[b], ",") {
						evs[a], evs[b] = evs[b], evs[a]
					}
				}
			}
		}
		if order == nil {
			order = [][2]string{}
		}
		rec := map[string]interface{}{"evs": evs, "order": order}
		k := jstr(rec)
		if g.seen[k] || len(g.recs) >= c.Pick(250, 100000) {
			continue
		}
		g.seen[k] = true
		g.recs = append(g.recs, rec)
		g.ids = append(g.ids, id)
	}
	var names []string
	for n := range groups {
		names = append(names, n)
	}
	sort.Strings(names)
	var accepted, rejected int64
	for _, n := range names {
		g := groups[n]
		var tr traceBuf
		for _, r := range g.recs {
			tr.add(r)
		}
		ok := map[int]bool{}
		done := false
		cfg := g.oc.cfg(false, "INIT TInit\nNEXT TNext\nINVARIANTS ReadsBuilt InitOnce OwnerExclusive Finished")
		// where a call looks up its first entity is read off the trace, not prescribed; once
		// the table is built a lookup is a read of a finished table and leaves no event
		if g.oc.Ent == "idle" {
			cfg = strings.Replace(cfg, "EntAny = FALSE", "EntAny = TRUE", 1)
		} else {
			cfg = strings.Replace(cfg, "EntAt <- EntR1", "EntAt <- EntNone", 1)
		}
		r := RunTLC(TLCOpts{Module: "TraceOnce", Cfg: "trace_once.cfg", CfgText: cfg, Workers: 1, Timeout: 20 * time.Minute,
			Files: map[string][]byte{"once_runs.ndjson": tr.bytes()}, OnJSON: func(b []byte) {
				var v struct {
					Accepted int  `json:"accepted"`
					Done     bool `json:"done"`
				}
				if json.Unmarshal(b, &v) == nil {
					if v.Accepted > 0 {
						ok[v.Accepted] = true
					}
					if v.Done {
						done = true
					}
				}
			}})
		if r.InvViolated != "" && r.InvViolated != "Finished" {
			// an invariant of Once.tla fails on an observed execution
			c.Warn("C07/trace/"+r.InvViolated+"/"+n, "an observed event sequence drives Once.tla into a state violating "+r.InvViolated)
		} else {
			r.MustOK("TraceOnce " + n)
			if !done {
				infra("TraceOnce %s did not reach the end of its runs\n%s", n, r.Tail)
			}
		}
		c.Ev.TLC("TraceOnce "+n, r)
		for i := range g.recs {
			if ok[i+1] {
				accepted++
			} else {
				rejected++
				run := byID[g.ids[i]]
				c.Warn("C07/trace-rejected/"+n, fmt.Sprintf("no interleaving of the recorded per-goroutine events is a behaviour of Once.tla: %s (config %s)", jstr(g.recs[i]), run.Config))
			}
		}
	}
	c.Ev.Add("traces_validated_against_impl", accepted)
	c.Ev.Set("traces_rejected", rejected)
	if accepted == 0 {
		infra("C07: TLC accepted no recorded trace")
	}
}
