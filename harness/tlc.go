package main

// TLC runner: copies the spec tree into a scratch directory, runs TLC there under a
// timeout, and parses TLC's own summary lines and the JSON values the spec printed.

import (
	"bufio"
	"bytes"
	"encoding/json"
	"fmt"
	"io"
	"os"
	"os/exec"
	"path/filepath"
	"regexp"
	"strconv"
	"strings"
	"sync"
	"time"
)

const tlaJar = "/opt/veriftools/tla/tla2tools.jar:/opt/veriftools/tla/CommunityModules-deps.jar"

type TLCOpts struct {
	Module   string            // module name (file Module.tla in spec/)
	Cfg      string            // cfg file name in spec/ (or generated in Work)
	CfgText  string            // if non-empty, written as Cfg into the work dir
	Workers  int               // 0 => 1
	Timeout  time.Duration     // 0 => 10 min
	Simulate string            // e.g. "num=1000" => -simulate num=1000
	Depth    int               // -depth for simulate
	Seed     int64             // -seed (simulate)
	Env      map[string]string // extra environment (read with IOEnv in specs)
	Files    map[string][]byte // extra files written into the work dir (traces)
	NoDeadlk bool              // pass -deadlock (disable deadlock checking)
	DFS      bool              // StateDeque queue
	Coverage bool
	OnJSON   func(raw []byte) // called for every JSON value printed by the spec
	KeepOut  bool             // keep full stdout in result
	ExtraArg []string
}

type TLCResult struct {
	Generated   int64
	Distinct    int64
	Depth       int
	Exit        int
	Wall        float64
	InvViolated string // name of violated invariant / property, if any
	Deadlock    bool
	ErrorText   string // first "Error:" block
	JSONCount   int64
	Tail        string // last ~60 lines of output
	Out         string
	TimedOut    bool
	Cmd         string
}

var (
	reSummary  = regexp.MustCompile(`^(\d+) states generated, (\d+) distinct states found`)
	reDepth    = regexp.MustCompile(`^The depth of the complete state graph search is (\d+)`)
	reInv      = regexp.MustCompile(`^Error: Invariant (\S+) is violated`)
	reProp     = regexp.MustCompile(`^Error: (?:Action property|Temporal properties|Property) ?(\S*)`)
	reSimStats = regexp.MustCompile(`(\d+) states checked`)
)

// newWorkDir creates /verif/.work/<tag>.<pid>.<n>/ with a copy of every spec file.
var (
	workSeq int
	workMu  sync.Mutex
)

func verifRoot() string {
	if r := os.Getenv("VERIF_ROOT"); r != "" {
		return r
	}
	exe, err := os.Executable()
	if err == nil {
		d := filepath.Dir(filepath.Dir(exe)) // .bin/..
		if _, e := os.Stat(filepath.Join(d, "spec")); e == nil {
			return d
		}
	}
	return "/verif"
}

func newWorkDir(tag string) string {
	workMu.Lock()
	workSeq++
	seq := workSeq
	workMu.Unlock()
	d := filepath.Join(verifRoot(), ".work", fmt.Sprintf("%s.%d.%d", strings.ReplaceAll(tag, "/", "_"), os.Getpid(), seq))
	must(os.MkdirAll(d, 0o755))
	specs, _ := filepath.Glob(filepath.Join(verifRoot(), "spec", "*"))
	for _, s := range specs {
		b, err := os.ReadFile(s)
		if err != nil {
			continue
		}
		must(os.WriteFile(filepath.Join(d, filepath.Base(s)), b, 0o644))
	}
	return d
}

func must(err error) {
	if err != nil {
		infra("fatal: %v", err)
	}
}

// RunTLC runs TLC in a fresh work directory and removes it afterwards.
func RunTLC(o TLCOpts) TLCResult {
	work := newWorkDir(o.Module)
	if os.Getenv("VERIF_KEEP_WORK") == "" { // development aid: keep the TLC work directories
		defer os.RemoveAll(work)
	}
	return RunTLCIn(work, o)
}

func RunTLCIn(work string, o TLCOpts) TLCResult {
	var res TLCResult
	if o.Workers == 0 {
		o.Workers = 1
	}
	if o.Timeout == 0 {
		o.Timeout = 10 * time.Minute
	}
	if o.CfgText != "" {
		must(os.WriteFile(filepath.Join(work, o.Cfg), []byte(o.CfgText), 0o644))
	}
	for name, b := range o.Files {
		must(os.WriteFile(filepath.Join(work, name), b, 0o644))
	}
	meta := filepath.Join(work, fmt.Sprintf("meta%d", time.Now().UnixNano()))
	args := []string{"-XX:+UseParallelGC", "-Xss64m"}
	if o.DFS {
		args = append(args, "-Dtlc2.tool.queue.IStateQueue=StateDeque")
	}
	args = append(args, "-cp", tlaJar, "tlc2.TLC", "-metadir", meta, "-workers", strconv.Itoa(o.Workers), "-noGenerateSpecTE")
	if o.NoDeadlk {
		args = append(args, "-deadlock")
	}
	if o.Coverage {
		args = append(args, "-coverage", "1")
	}
	if o.Simulate != "" {
		args = append(args, "-simulate", o.Simulate)
		if o.Depth > 0 {
			args = append(args, "-depth", strconv.Itoa(o.Depth))
		}
		args = append(args, "-seed", strconv.FormatInt(o.Seed, 10))
	}
	args = append(args, o.ExtraArg...)
	args = append(args, "-config", o.Cfg, o.Module+".tla")
	secs := int(o.Timeout.Seconds())
	cmd := exec.Command("timeout", append([]string{"-k", "10", strconv.Itoa(secs), "java"}, args...)...)
	cmd.Dir = work
	cmd.Env = os.Environ()
	for k, v := range o.Env {
		cmd.Env = append(cmd.Env, k+"="+v)
	}
	res.Cmd = "java " + strings.Join(args, " ")
	stdout, err := cmd.StdoutPipe()
	must(err)
	cmd.Stderr = cmd.Stdout
	t0 := time.Now()
	must(cmd.Start())
	var tail []string
	var full bytes.Buffer
	rd := bufio.NewReaderSize(stdout, 1<<20)
	inErr := false
	for {
		line, err := rd.ReadBytes('\n')
		if len(line) > 0 {
			l := bytes.TrimRight(line, "\r\n")
			if len(l) > 1 && l[0] == '"' && (l[1] == '{' || l[1] == '[') {
				// a JSON value printed with PrintT(ToJson(..)): a TLA+ string literal
				var s string
				if e := json.Unmarshal(l, &s); e == nil {
					res.JSONCount++
					if o.OnJSON != nil {
						o.OnJSON([]byte(s))
					}
				} else if s2, ok := tlaUnquote(l); ok {
					res.JSONCount++
					if o.OnJSON != nil {
						o.OnJSON([]byte(s2))
					}
				}
			} else {
				ls := string(l)
				if o.KeepOut {
					full.WriteString(ls)
					full.WriteByte('\n')
				}
				tail = append(tail, ls)
				if len(tail) > 80 {
					tail = tail[len(tail)-80:]
				}
				if m := reSummary.FindStringSubmatch(ls); m != nil {
					res.Generated, _ = strconv.ParseInt(m[1], 10, 64)
					res.Distinct, _ = strconv.ParseInt(m[2], 10, 64)
				} else if m := reDepth.FindStringSubmatch(ls); m != nil {
					res.Depth, _ = strconv.Atoi(m[1])
				} else if m := reInv.FindStringSubmatch(ls); m != nil {
					res.InvViolated = m[1]
				} else if strings.HasPrefix(ls, "Error: Deadlock reached") {
					res.Deadlock = true
				} else if strings.HasPrefix(ls, "Error:") {
					if m := reProp.FindStringSubmatch(ls); m != nil && strings.Contains(ls, "violated") {
						res.InvViolated = strings.TrimSpace(m[1])
						if res.InvViolated == "" {
							res.InvViolated = "property"
						}
					}
					if res.ErrorText == "" {
						res.ErrorText = ls
						inErr = true
					}
				} else if inErr && len(res.ErrorText) < 2000 {
					res.ErrorText += "\n" + ls
				}
			}
		}
		if err != nil {
			if err != io.EOF {
				res.ErrorText += "\nread error: " + err.Error()
			}
			break
		}
	}
	werr := cmd.Wait()
	res.Wall = time.Since(t0).Seconds()
	if werr != nil {
		if ee, ok := werr.(*exec.ExitError); ok {
			res.Exit = ee.ExitCode()
		} else {
			res.Exit = 255
		}
	}
	if res.Exit == 124 || res.Exit == 137 {
		res.TimedOut = true
	}
	res.Tail = strings.Join(tail, "\n")
	res.Out = full.String()
	return res
}

// tlaUnquote handles TLA+ string literal printing when it is not valid JSON quoting.
func tlaUnquote(l []byte) (string, bool) {
	if len(l) < 2 || l[0] != '"' || l[len(l)-1] != '"' {
		return "", false
	}
	var b strings.Builder
	in := l[1 : len(l)-1]
	for i := 0; i < len(in); i++ {
		if in[i] == '\\' && i+1 < len(in) {
			i++
			switch in[i] {
			case 'n':
				b.WriteByte('\n')
			case 't':
				b.WriteByte('\t')
			default:
				b.WriteByte(in[i])
			}
			continue
		}
		b.WriteByte(in[i])
	}
	return b.String(), true
}

// MustOK turns every TLC outcome that is not a clean finish into an infrastructure error
// (exit 2), unless allowViolation is set, in which case an invariant violation is returned
// to the caller (negative controls).
func (r TLCResult) MustOK(what string) {
	if r.TimedOut {
		infra("%s: TLC timed out after %.0fs\n%s", what, r.Wall, r.Tail)
	}
	if r.Exit != 0 || r.InvViolated != "" || r.ErrorText != "" {
		infra("%s: TLC failed (exit %d, violated=%q)\n%s\n--- tail ---\n%s", what, r.Exit, r.InvViolated, r.ErrorText, r.Tail)
	}
}

// MustViolate is for negative controls: TLC must report a violation of the named invariant.
func (r TLCResult) MustViolate(what, inv string) {
	if r.TimedOut {
		infra("%s: TLC timed out", what)
	}
	if r.InvViolated == "" && !r.Deadlock {
		infra("%s: negative control did not fail (exit %d)\n%s", what, r.Exit, r.Tail)
	}
	if inv != "" && r.InvViolated != inv {
		infra("%s: negative control violated %q, expected %q\n%s", what, r.InvViolated, inv, r.Tail)
	}
}

// ---------------------------------------------------------------------------------
// monitor-style acceptors: records are written as ndjson, the module judges each record and
// prints {"done":true,"consumed":n,"bad":[{"l":line,"why":...}]} in its last state.

type badRec struct {
	L   int    `json:"l"`
	Why string `json:"why"`
	Fn  string `json:"fn"`
	T   int    `json:"t"`
}

// tlcJudge has TLC judge independent records (every acceptor module consumes its file record by
// record; a record's verdict does not depend on the others). Large batches are cut into chunks
// that are judged by TLC processes running side by side.
func tlcJudge(module, cfg, file string, recs []interface{}) ([]badRec, TLCResult) {
	const chunkMin = 1500
	k := len(recs) / chunkMin
	if k > 10 {
		k = 10
	}
	if k < 2 {
		return tlcJudgeOne(module, cfg, file, recs)
	}
	// records are dealt round-robin: expensive records (large documents) tend to be neighbours
	bads := make([][]badRec, k)
	results := make([]TLCResult, k)
	var wg sync.WaitGroup
	for i := 0; i < k; i++ {
		var part []interface{}
		for j := i; j < len(recs); j += k {
			part = append(part, recs[j])
		}
		wg.Add(1)
		go func(i int, part []interface{}) {
			defer wg.Done()
			bads[i], results[i] = tlcJudgeOne(module, cfg, file, part)
			for j := range bads[i] {
				bads[i][j].L = i + k*(bads[i][j].L-1) + 1
			}
		}(i, part)
	}
	wg.Wait()
	var bad []badRec
	total := results[0]
	for i := 0; i < k; i++ {
		bad = append(bad, bads[i]...)
		if i > 0 {
			total.Generated += results[i].Generated
			total.Distinct += results[i].Distinct
			total.JSONCount += results[i].JSONCount
			if results[i].Wall > total.Wall {
				total.Wall = results[i].Wall
			}
		}
	}
	return bad, total
}

func tlcJudgeOne(module, cfg, file string, recs []interface{}) ([]badRec, TLCResult) {
	var tr traceBuf
	for _, r := range recs {
		tr.add(r)
	}
	var verdict struct {
		Done     bool     `json:"done"`
		Consumed int      `json:"consumed"`
		Bad      []badRec `json:"bad"`
	}
	got := false
	r := RunTLC(TLCOpts{Module: module, Cfg: cfg, Workers: 1, Timeout: 60 * time.Minute,
		Files: map[string][]byte{file: tr.bytes()}, OnJSON: func(raw []byte) {
			var v struct {
				Done     bool     `json:"done"`
				Consumed int      `json:"consumed"`
				Bad      []badRec `json:"bad"`
			}
			if json.Unmarshal(raw, &v) == nil && v.Done {
				verdict = v
				got = true
			}
		}})
	r.MustOK(module)
	if !got || verdict.Consumed != tr.n {
		infra("%s did not consume all records (%d of %d)\n%s", module, verdict.Consumed, tr.n, r.Tail)
	}
	return verdict.Bad, r
}
