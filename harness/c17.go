package main

// C17 — Every rendered table is rectangular.
//
//  MC   Table.tla: IsTable / Shape; negative control PadHeader (the shipped defect).
//  M2C  every candidate TLC enumerates (header cells x delimiter columns with alignments x body
//       rows of any length x pipe-edge spelling x cell kind x container x preceding text) is
//       concretised, converted with the Table extension (alignment method pinned) and the
//       observed tables (HTML and AST) are judged by TLC against TraceTable.tla together with
//       the model's expectation.
//  C2M  the same acceptor (without expectation) over repository examples and pipe/dash/colon
//       soup from the mutational driver.

import (
	"encoding/json"
	"fmt"
	"strings"
	"sync"
	"time"

	"github.com/yuin/goldmark"
	"github.com/yuin/goldmark/ast"
	east "github.com/yuin/goldmark/extension/ast"
	"github.com/yuin/goldmark/text"
)

func init() {
	register(&Check{ID: "C17", Level: "model_checking", Run: runC17, Replay: replayC17})
}

type tableCand struct {
	H         int      `json:"h"`
	Aligns    []string `json:"aligns"`
	Rows      []int    `json:"rows"`
	Edge      string   `json:"edge"`
	CellKind  string   `json:"cellkind"`
	Container string   `json:"container"`
	Pretext   bool     `json:"pretext"`
	IsTable   bool     `json:"istable"`
}

func edged(cells []string, edge string, force bool) string {
	s := strings.Join(cells, " | ")
	lead := edge == "both" || edge == "lead" || force
	trail := edge == "both" || edge == "trail" || force
	if lead {
		s = "| " + s
	}
	if trail {
		s = s + " |"
	}
	return s
}

func concretiseTable(t tableCand) string {
	d := len(t.Aligns)
	var lines []string
	if t.Pretext {
		lines = append(lines, "intro text")
	}
	// header
	if t.H == 0 {
		lines = append(lines, "|")
	} else {
		var hc []string
		for i := 0; i < t.H; i++ {
			c := fmt.Sprintf("h%d", i+1)
			if t.CellKind == "inline" {
				c = "*" + c + "*"
			}
			hc = append(hc, c)
		}
		lines = append(lines, edged(hc, t.Edge, t.H == 1))
	}
	// delimiter
	var dc []string
	for j, a := range t.Aligns {
		x := map[string]string{"none": "---", "left": ":--", "right": "--:", "center": ":-:"}[a]
		// white space around a delimiter cell (spaces and tabs) does not belong to it: rotate
		// the padding form over columns and candidates
		switch (j + len(t.Rows) + t.H) % 4 {
		case 1:
			x = " " + x + "  "
		case 2:
			x = x + "\t"
		case 3:
			if j > 0 { // a tab at the start of the line would make it indented, not a delimiter row
				x = "\t" + x
			} else {
				x = x + " \t"
			}
		}
		dc = append(dc, x)
	}
	lines = append(lines, edged(dc, t.Edge, d == 1))
	// body
	for ri, n := range t.Rows {
		if n == 0 {
			if t.CellKind == "doubletrail" {
				lines = append(lines, "||")
			} else {
				lines = append(lines, "|")
			}
			continue
		}
		var cs []string
		for j := 0; j < n; j++ {
			c := fmt.Sprintf("c%d%d", ri+1, j+1)
			switch t.CellKind {
			case "escpipe":
				if j == 0 {
					c = "a\\|b"
				}
			case "codepipe":
				if j == 0 {
					c = "`x\\|y`"
				}
			case "codepipe2": // several escaped pipes inside one code span, one in emphasis
				if j == 0 {
					c = "`x\\|y\\|z` *e\\|f* `\\|\\|`"
				}
			case "escpipe2":
				if j == 0 {
					c = "a\\|b\\|c \\| d"
				}
			case "emptycells":
				if j%2 == 0 {
					c = ""
				}
			case "inline":
				if j == 0 {
					c = "[l](/u) **b**"
				}
			case "spaces":
				c = "  " + c + "   "
			}
			cs = append(cs, c)
		}
		row := edged(cs, t.Edge, n == 1 && strings.TrimSpace(cs[0]) == "")
		switch t.CellKind {
		case "doubletrail":
			row = strings.TrimRight(row, " |") + " ||"
		case "spaces":
			row = "  " + row
		}
		lines = append(lines, row)
	}
	var b strings.Builder
	for i, l := range lines {
		switch t.Container {
		case "quote":
			b.WriteString("> ")
		case "list":
			if i == 0 {
				b.WriteString("- ")
			} else {
				b.WriteString("  ")
			}
		}
		b.WriteString(l)
		b.WriteString("\n")
	}
	return b.String()
}

type obsTable struct {
	Head    []int      `json:"head"`
	Body    []int      `json:"body"`
	HAlign  []string   `json:"halign"`
	BAlign  [][]string `json:"balign"`
	BFilled [][]bool   `json:"bfilled"`
	AHead   []int      `json:"ahead"`
	ABody   []int      `json:"abody"`
}

type c17Obs struct {
	Tables []obsTable             `json:"tables"`
	Expect map[string]interface{} `json:"expect"`
}

// observeTables converts doc and reads every table from the HTML and from the AST.
func observeTables(md goldmark.Markdown, doc string) ([]obsTable, bool) {
	src := []byte(doc)
	var tree ast.Node
	func() {
		defer func() { recover() }()
		tree = md.Parser().Parse(text.NewReader(src))
	}()
	if tree == nil {
		return nil, false
	}
	out, err := convertWith(md, src)
	if err != nil {
		return nil, false
	}
	tables := []obsTable{}
	var cur *obsTable
	inHead, inBody, inCell := false, false, false
	for _, t := range tokenizeHTML(out) {
		switch {
		case t.K == "open" && t.Tag == "table":
			tables = append(tables, obsTable{Head: []int{}, Body: []int{}, HAlign: []string{}, BAlign: [][]string{}, BFilled: [][]bool{}, AHead: []int{}, ABody: []int{}})
			cur = &tables[len(tables)-1]
		case t.K == "close" && t.Tag == "table":
			cur = nil
		case cur == nil:
		case t.K == "open" && t.Tag == "thead":
			inHead = true
		case t.K == "close" && t.Tag == "thead":
			inHead = false
		case t.K == "open" && t.Tag == "tbody":
			inBody = true
		case t.K == "close" && t.Tag == "tbody":
			inBody = false
		case t.K == "open" && t.Tag == "tr":
			if inHead {
				cur.Head = append(cur.Head, 0)
			} else if inBody {
				cur.Body = append(cur.Body, 0)
				cur.BAlign = append(cur.BAlign, []string{})
				cur.BFilled = append(cur.BFilled, []bool{})
			} else {
				// a row outside thead/tbody: counted as a header row so that the acceptor sees it
				cur.Head = append(cur.Head, -1)
			}
		case t.K == "open" && (t.Tag == "th" || t.Tag == "td"):
			al, _ := t.attr("align")
			if al == "" {
				al = "none"
			}
			inCell = true
			if inHead && len(cur.Head) > 0 {
				cur.Head[len(cur.Head)-1]++
				if len(cur.Head) == 1 {
					cur.HAlign = append(cur.HAlign, al)
				}
			} else if inBody && len(cur.Body) > 0 {
				cur.Body[len(cur.Body)-1]++
				cur.BAlign[len(cur.BAlign)-1] = append(cur.BAlign[len(cur.BAlign)-1], al)
				cur.BFilled[len(cur.BFilled)-1] = append(cur.BFilled[len(cur.BFilled)-1], false)
			}
		case t.K == "close" && (t.Tag == "th" || t.Tag == "td"):
			inCell = false
		case inCell && inBody && len(cur.BFilled) > 0 && (t.K != "text" || strings.TrimSpace(t.Text) != ""):
			r := cur.BFilled[len(cur.BFilled)-1]
			if len(r) > 0 {
				r[len(r)-1] = true
			}
		}
	}
	// AST
	ti := 0
	ast.Walk(tree, func(n ast.Node, entering bool) (ast.WalkStatus, error) {
		if entering && n.Kind() == east.KindTable {
			var ah, ab []int
			for c := n.FirstChild(); c != nil; c = c.NextSibling() {
				if c.Kind() == east.KindTableHeader {
					ah = append(ah, c.ChildCount())
				} else {
					ab = append(ab, c.ChildCount())
				}
			}
			if ti < len(tables) {
				if ah != nil {
					tables[ti].AHead = ah
				}
				if ab != nil {
					tables[ti].ABody = ab
				}
			}
			ti++
			return ast.WalkSkipChildren, nil
		}
		return ast.WalkContinue, nil
	})
	if ti != len(tables) {
		// a different number of tables in the AST and in the HTML: make the acceptor see it
		tables = append(tables, obsTable{Head: []int{-2}, Body: []int{}, HAlign: []string{}, BAlign: [][]string{}, BFilled: [][]bool{}, AHead: []int{}, ABody: []int{}})
	}
	return tables, true
}

type c17Case struct {
	Ext  string     `json:"ext"`
	Doc  rawDoc     `json:"doc"`
	Cand *tableCand `json:"candidate,omitempty"`
}

func c17Record(md goldmark.Markdown, cs c17Case) (c17Obs, bool) {
	ts, ok := observeTables(md, string(cs.Doc))
	if !ok {
		return c17Obs{}, false
	}
	// very large tables: the per-cell alignment observation is dropped (row widths, the clause a
	// size-dependent change breaks, are kept in full)
	for i := range ts {
		cells := 0
		for _, n := range ts[i].Body {
			cells += n
		}
		if cells > 20000 {
			for r := range ts[i].BAlign {
				ts[i].BAlign[r], ts[i].BFilled[r] = []string{}, []bool{}
			}
		}
	}
	o := c17Obs{Tables: ts, Expect: map[string]interface{}{"gen": false}}
	if cs.Cand != nil {
		o.Expect = map[string]interface{}{"gen": true, "istable": cs.Cand.IsTable, "d": len(cs.Cand.Aligns), "nrows": len(cs.Cand.Rows), "aligns": cs.Cand.Aligns}
	}
	return o, true
}

func replayC17(c *Ctx, raw json.RawMessage) (bool, string) {
	var cs c17Case
	if err := json.Unmarshal(raw, &cs); err != nil {
		return false, err.Error()
	}
	md := mdConfig{Ext: cs.Ext}.build()
	o, ok := c17Record(md, cs)
	if !ok {
		return false, "conversion failed"
	}
	bad, _ := tlcJudge("TraceTable", "TraceTable.cfg", "tables.ndjson", []interface{}{o})
	if len(bad) > 0 {
		out, _ := convertWith(md, []byte(cs.Doc))
		return true, fmt.Sprintf("extensions %s, document %q renders %q: %s", cs.Ext, clip(string(cs.Doc), 300), clip(string(out), 500), bad[0].Why)
	}
	return false, "accepted"
}

func runC17(c *Ctx) {
	ev := c.Ev
	ev.Assumptions = []string{
		"TLC/SANY, Json/IOUtils; strict tokenizer; table alignment rendering pinned to the align attribute",
		"single-column headers / delimiter rows are always written with pipes (without them GFM reads a paragraph or a Setext heading); a body row of zero cells is written as a lone pipe",
	}
	ev.Set("rule", "case = one converted document; distinct = distinct (extension set, document); non-trivial = generated candidates whose rows differ in length from the delimiter row or whose header does not match it, and workload documents that produce at least one table")
	RunTLC(TLCOpts{Module: "Table", Cfg: "Table_neg_padheader.cfg", Workers: 2}).MustViolate("neg PadHeader", "Rectangular")
	ev.Set("negative_controls", []string{"PadHeader (short header padded and accepted) => Rectangular violated"})
	genCfg := "Table_gen.cfg"
	if c.Thorough() {
		genCfg = "Table_gen_thorough.cfg"
	}
	var cases []c17Case
	exts := []string{"tableattr", "gfmattr", "allattr"}
	r := RunTLC(TLCOpts{Module: "Table", Cfg: genCfg, Workers: 8, Timeout: 40 * time.Minute, OnJSON: func(raw []byte) {
		var t tableCand
		if json.Unmarshal(raw, &t) != nil {
			infra("bad table candidate %s", raw)
		}
		tc := t
		doc := concretiseTable(t)
		cases = append(cases, c17Case{Ext: exts[len(cases)%len(exts)], Doc: rawDoc(doc), Cand: &tc})
		// the same candidate as the end of the input without a final line ending (the last row -
		// for a table without body rows the delimiter row - ends at the end of the source)
		if len(t.Rows) <= 1 && t.Container == "top" && strings.HasSuffix(doc, "\n") {
			tc2 := t
			cases = append(cases, c17Case{Ext: exts[len(cases)%len(exts)], Doc: rawDoc(strings.TrimRight(doc, "\n")), Cand: &tc2})
		}
	}})
	r.MustOK("Table generator")
	ev.TLC(genCfg+" (Rectangular + candidate dump)", r)
	ev.Set("exhaustive", true)
	nGen := len(cases)
	ev.Set("candidates", nGen)
	loadCorpus()
	for _, d := range repoDocs {
		cases = append(cases, c17Case{Ext: "gfmattr", Doc: rawDoc(d)})
	}
	g := newDocGen(c.Rand("mut"))
	rng := c.Rand("soup")
	soup := []string{"|", "|", "|", "-", "--", "---", ":", ":-", "-:", ":-:", " ", "\n", "\n", "a", "b", "\\|", "`", "||", "| a | b |\n", "|---|---|\n", "> ", "- ", "  "}
	for i := 0; i < c.Pick(20000, 300000); i++ {
		var d string
		if i%3 == 0 {
			d = g.next()
		}
		for k := 3 + rng.Intn(14); k > 0; k-- {
			p := rng.Intn(len(d) + 1)
			d = d[:p] + soup[rng.Intn(len(soup))] + d[p:]
		}
		cases = append(cases, c17Case{Ext: exts[i%len(exts)], Doc: rawDoc(d)})
	}
	// tables of a size at which an implementation may start to economise: many columns, many short
	// rows (every missing cell has to be supplied)
	for _, dim := range [][2]int{{64, 40}, {300, 220}, {1024, 600}, {2100, 260}} {
		cols, rows := dim[0], dim[1]
		if !c.Thorough() && cols > 1100 {
			continue
		}
		var b strings.Builder
		b.WriteString(strings.Repeat("| h ", cols) + "|\n" + strings.Repeat("|---", cols) + "|\n")
		for r := 0; r < rows; r++ {
			b.WriteString("| x |\n")
			if r%97 == 0 {
				b.WriteString(strings.Repeat("| y ", cols+3) + "|\n") // a row that is too long
			}
		}
		cases = append(cases, c17Case{Ext: "tableattr", Doc: rawDoc(b.String())})
	}
	mds := map[string]goldmark.Markdown{}
	for _, e := range exts {
		mds[e] = mdConfig{Ext: e}.build()
	}
	var mu sync.Mutex
	seen := map[string]int{}
	var recs []interface{}
	var wits []int
	var nConv, nWithTable int64
	parallelFor(len(cases), func(i int) {
		o, ok := c17Record(mds[cases[i].Ext], cases[i])
		if !ok {
			return
		}
		b, _ := json.Marshal(o)
		mu.Lock()
		nConv++
		if len(o.Tables) > 0 {
			nWithTable++
		}
		if _, ok := seen[string(b)]; !ok {
			seen[string(b)] = len(recs)
			recs = append(recs, o)
			wits = append(wits, i)
		}
		mu.Unlock()
	})
	ev.Add("evaluations", nConv)
	ev.Set("documents_with_tables", nWithTable)
	for i, cs := range cases {
		if cs.Cand != nil {
			nt := cs.Cand.H != len(cs.Cand.Aligns)
			for _, n := range cs.Cand.Rows {
				if n != len(cs.Cand.Aligns) {
					nt = true
				}
			}
			if nt {
				ev.Distinct(fmt.Sprint(i))
			}
		}
	}
	bad, tr := tlcJudge("TraceTable", "TraceTable.cfg", "tables.ndjson", recs)
	ev.TLC("TraceTable (acceptor over distinct observations)", tr)
	ev.Add("traces_validated_against_impl", int64(len(recs)))
	perSig := map[string]int{}
	for _, b := range bad {
		cs := cases[wits[b.L-1]]
		sig := "C17/" + b.Why
		if cs.Cand != nil {
			sig += "/" + cs.Cand.CellKind
		}
		if perSig[sig]++; perSig[sig] > 2 {
			continue
		}
		raw, _ := json.Marshal(cs)
		ok, detail := replayC17(c, raw)
		if !ok {
			infra("observation rejected in the batch but accepted alone: %s", raw)
		}
		c.Report(Violation{Signature: sig, Detail: detail, Replay: cs})
	}
	for i := 0; i < nGen; i += nGen/4 + 1 {
		c.Sample("candidate", 4, map[string]interface{}{"candidate": cases[i].Cand, "doc": string(cases[i].Doc)})
	}
}
