package main

// C01 — Conversion is total: no panic, no error, always terminates, for any bytes.
//
//  M2C  every document of the Slots.tla product, structured deep-nesting inputs, every string
//       of length <= 3 over a 20-symbol Markdown alphabet, the repository's examples and
//       mutated documents are converted under ALL 256 built-in configurations, alternating
//       Convert and Parse+Render, with a watchdog.
//  C2M  every call is abstracted to (configuration, api, outcome) and the distinct abstract
//       events are judged by TLC (TraceTotal.tla).
//  The specification's share is thin here (generator + acceptor); level: exploration.

import (
	"bytes"
	"encoding/json"
	"fmt"
	"os"
	"os/exec"
	"regexp"
	"runtime/debug"
	"strings"
	"sync"
	"sync/atomic"
	"time"

	"github.com/yuin/goldmark"
	"github.com/yuin/goldmark/text"
)

func init() {
	register(&Check{ID: "C01", Level: "exploration", Run: runC01, Replay: replayC01})
	subcommands["c01-child"] = c01Child
}

type c01Case struct {
	Config mdConfig `json:"config"`
	API    string   `json:"api"`
	Doc    rawDoc   `json:"doc"`
}

var reFrame = regexp.MustCompile(`github\.com/yuin/goldmark[\w/]*\.[\w.()*]+`)

// runTotal executes one call; outcome ok | error | panic; sig names the panicking frame.
func runTotal(md goldmark.Markdown, api string, src []byte) (outcome, sig string) {
	defer func() {
		if r := recover(); r != nil {
			outcome = "panic"
			st := string(debug.Stack())
			sig = "unknown"
			for _, m := range reFrame.FindAllString(st, -1) {
				if !strings.Contains(m, "harness") {
					sig = strings.TrimPrefix(m, "github.com/yuin/goldmark/")
					break
				}
			}
			if j := strings.LastIndex(sig, "("); j > 0 && !strings.HasPrefix(sig[j:], "(*") {
				sig = sig[:j]
			}
			sig = fmt.Sprintf("%s: %v", sig, r)
			if len(sig) > 120 {
				sig = sig[:120]
			}
		}
	}()
	var buf bytes.Buffer
	var err error
	if api == "convert" {
		err = md.Convert(src, &buf)
	} else {
		tree := md.Parser().Parse(text.NewReader(src))
		err = md.Renderer().Render(&buf, src, tree)
	}
	if err != nil {
		return "error", err.Error()
	}
	return "ok", ""
}

// c01Child: vh c01-child <file> — runs one case in a separate process (for time-outs).
func c01Child(args []string) int {
	b, err := os.ReadFile(args[0])
	if err != nil {
		return 3
	}
	var cs c01Case
	if json.Unmarshal(b, &cs) != nil {
		return 3
	}
	o, sig := runTotal(cs.Config.build(), cs.API, []byte(cs.Doc))
	fmt.Printf("%s %s\n", o, sig)
	if o == "ok" {
		return 0
	}
	return 1
}

// confirmInChild re-runs a case in a child process with a time limit; returns outcome.
func confirmInChild(cs c01Case, limit time.Duration) (string, string) {
	f, err := os.CreateTemp(verifRoot()+"/.work", "c01case*.json")
	must(err)
	defer os.Remove(f.Name())
	b, _ := json.Marshal(cs)
	f.Write(b)
	f.Close()
	exe, _ := os.Executable()
	cmd := exec.Command("timeout", "-k", "5", fmt.Sprint(int(limit.Seconds())), exe, "c01-child", f.Name())
	out, err := cmd.CombinedOutput()
	if err == nil {
		return "ok", ""
	}
	if ee, ok := err.(*exec.ExitError); ok && (ee.ExitCode() == 124 || ee.ExitCode() == 137) {
		return "timeout", fmt.Sprintf("no result within %s", limit)
	}
	parts := strings.SplitN(strings.TrimSpace(string(out)), " ", 2)
	if len(parts) == 2 && (parts[0] == "panic" || parts[0] == "error") {
		return parts[0], parts[1]
	}
	return "panic", firstLines(string(out), 3)
}

func replayC01(c *Ctx, raw json.RawMessage) (bool, string) {
	var cs c01Case
	if err := json.Unmarshal(raw, &cs); err != nil {
		return false, err.Error()
	}
	o, sig := confirmInChild(cs, 60*time.Second)
	if o != "ok" {
		return true, fmt.Sprintf("%s under %s on %q: %s %s", cs.API, cs.Config, clip(string(cs.Doc), 200), o, sig)
	}
	return false, "returned normally with a nil error"
}

func clip(s string, n int) string {
	if len(s) > n {
		return s[:n] + fmt.Sprintf("…(%d bytes)", len(s))
	}
	return s
}

func runC01(c *Ctx) {
	ev := c.Ev
	ev.Assumptions = []string{
		"TLC/SANY (Slots.tla generator, TraceTotal.tla acceptor)",
		"a call that needs more than 20 s (documents <= 64 KiB) is re-run alone in a child process with 60 s before it is called a hang",
		"the destination is a bytes.Buffer (never fails)",
	}
	ev.Set("rule", "case = one (document, configuration, api) call; evaluations counts calls; distinct = distinct (document, configuration) pairs; non-trivial = documents that are not plain ASCII words (contain Markdown-significant, control or non-UTF-8 bytes)")
	cfgs := allConfigs()
	mds := make([]goldmark.Markdown, len(cfgs))
	for i, cf := range cfgs {
		mds[i] = cf.build()
	}
	// ---- workload
	type wdoc struct {
		doc  string
		kind string
	}
	var docs []wdoc
	for _, sd := range slotDocs(c) {
		docs = append(docs, wdoc{sd.Doc, "slot:" + sd.Slot})
	}
	nSlot := len(docs)
	for _, d := range deepDocs(c.Thorough()) {
		docs = append(docs, wdoc{d, "deep"})
	}
	shortStrings(shortAlphabet, c.Pick(3, 3), func(s string) { docs = append(docs, wdoc{s, "short"}) })
	loadCorpus()
	for _, d := range repoDocs {
		docs = append(docs, wdoc{d, "repo"})
	}
	g := newDocGen(c.Rand("mut"))
	for i := 0; i < c.Pick(2500, 60000); i++ {
		docs = append(docs, wdoc{g.next(), "mutated"})
	}
	// every sequence of up to 6 (thorough: 7) block-structure tokens: containers whose last
	// leaf is still open when a sibling opener arrives, fences inside fences, ...
	shortStrings([]string{">", "- ", "```", "\n", "a", "  "}, c.Pick(6, 7), func(s string) { docs = append(docs, wdoc{s, "tokens"}) })
	shortStrings([]string{"1. ", "~~~", "\n", "<!--", "    ", "[a]: /u", "|-"}, c.Pick(5, 6), func(s string) { docs = append(docs, wdoc{s, "tokens"}) })
	// runes at table and encoding boundaries next to every kind of delimiter: the character classes
	// (space, punctuation, wide) are looked up in byte-indexed tables and range lists
	for _, d := range runeBoundaryDocs() {
		docs = append(docs, wdoc{d, "rune-boundary"})
	}
	// every short sequence over the trigger alphabet of each extension (the sequences end a block:
	// an extension's inline parser looks ahead from its trigger byte and must stop at the end)
	for _, d := range attrValueDocs() {
		docs = append(docs, wdoc{d, "attribute-values"})
	}
	for _, d := range triggerTokenDocs() {
		docs = append(docs, wdoc{d, "trigger-tokens"})
	}
	for _, d := range scaledDocs(8192) {
		docs = append(docs, wdoc{d, "scaled"})
	}
	// what the generator modules of the specification enumerate
	for _, d := range generatedDocs(c, c.Pick(12000, 200000)) {
		docs = append(docs, wdoc{d, "generated"})
	}
	ev.Set("documents", len(docs))
	ev.Set("slot_documents", nSlot)
	ev.Set("configurations", len(cfgs))

	// ---- execute with a watchdog
	type key struct {
		cfg     int
		api     string
		outcome string
	}
	var mu sync.Mutex
	counts := map[key]int64{}
	type failure struct {
		cs           c01Case
		outcome, sig string
	}
	var fails []failure
	var nCalls int64
	type status struct {
		doc, cfg int
		since    int64
	}
	nw := 16
	stat := make([]atomic.Value, nw)
	var next int64 = -1
	var wg sync.WaitGroup
	doneCh := make(chan struct{})
	stuck := map[int]bool{}
	for w := 0; w < nw; w++ {
		wg.Add(1)
		go func(w int) {
			defer wg.Done()
			local := map[key]int64{}
			for {
				i := int(atomic.AddInt64(&next, 1))
				if i >= len(docs) {
					break
				}
				src := []byte(docs[i].doc)
				step := 1
				if docs[i].kind == "deep" && len(src) > 20000 {
					step = 8 // very long inputs: every 8th configuration (rotating)
				}
				if docs[i].kind == "tokens" {
					step = 8
				} else if docs[i].kind == "generated" {
					step = 4
				}
				for ci := i % step; ci < len(cfgs); ci += step {
					api := "convert"
					if (i+ci)%2 == 1 {
						api = "parse+render"
					}
					stat[w].Store(status{i, ci, time.Now().UnixNano()})
					o, sig := runTotal(mds[ci], api, src)
					local[key{ci, api, o}]++
					if o != "ok" {
						mu.Lock()
						if len(fails) < 2000 {
							fails = append(fails, failure{c01Case{cfgs[ci], api, rawDoc(docs[i].doc)}, o, sig})
						}
						mu.Unlock()
					}
				}
				stat[w].Store(status{-1, -1, 0})
				if i%64 == 0 {
					mu.Lock()
					for k, v := range local {
						counts[k] += v
						nCalls += v
					}
					mu.Unlock()
					local = map[key]int64{}
				}
			}
			mu.Lock()
			for k, v := range local {
				counts[k] += v
				nCalls += v
			}
			mu.Unlock()
		}(w)
	}
	go func() { wg.Wait(); close(doneCh) }()
	var suspects []c01Case
watch:
	for {
		select {
		case <-doneCh:
			break watch
		case <-time.After(2 * time.Second):
			now := time.Now().UnixNano()
			live := 0
			for w := 0; w < nw; w++ {
				s, _ := stat[w].Load().(status)
				if s.doc < 0 {
					continue
				}
				if s.since > 0 && now-s.since > int64(20*time.Second) {
					if !stuck[w] {
						stuck[w] = true
						suspects = append(suspects, c01Case{cfgs[s.cfg], "convert", rawDoc(docs[s.doc].doc)})
					}
				} else {
					live++
				}
			}
			if len(stuck) > 0 && atomic.LoadInt64(&next) >= int64(len(docs)) && live == 0 {
				break watch
			}
			if len(stuck) >= nw {
				break watch
			}
		}
	}
	for i, d := range docs {
		if d.kind != "short" || len(d.doc) >= 2 {
			if strings.ContainsAny(d.doc, "*_`[]()<>#-\\&!:|~\x00\x80\xc3\t\r>") {
				ev.Distinct(fmt.Sprint(i))
			}
		}
	}
	// distinct counts (document) — multiplied by configurations in the rule text
	ev.Add("evaluations", nCalls)

	// ---- C2M: abstract events to TLC
	var recs []interface{}
	var keys []key
	for k, n := range counts {
		recs = append(recs, map[string]interface{}{"cfg": cfgs[k.cfg].String(), "api": k.api, "outcome": k.outcome, "n": n})
		keys = append(keys, k)
	}
	for _, s := range suspects {
		recs = append(recs, map[string]interface{}{"cfg": s.Config.String(), "api": s.API, "outcome": "timeout", "n": 1})
		keys = append(keys, key{-1, s.API, "timeout"})
	}
	bad, tr := tlcJudge("TraceTotal", "TraceTotal.cfg", "calls.ndjson", recs)
	ev.TLC("TraceTotal (acceptor over abstract call events)", tr)
	ev.Add("traces_validated_against_impl", int64(len(recs)))
	nBadEvents := 0
	for _, b := range bad {
		nBadEvents++
		_ = b
	}
	// every rejected abstract event has concrete witnesses in fails / suspects: confirm each
	// class in a child process and report
	perSig := map[string]int{}
	for _, f := range fails {
		sg := fmt.Sprintf("C01/%s/%s", f.outcome, strings.SplitN(f.sig, ":", 2)[0])
		if perSig[sg]++; perSig[sg] > 3 {
			continue
		}
		o, sig := confirmInChild(f.cs, 90*time.Second)
		if o == "ok" {
			c.Warn("C01/unreproduced", fmt.Sprintf("%s under %s on %q gave %s in the batch, ok alone", f.cs.API, f.cs.Config, clip(string(f.cs.Doc), 80), f.outcome))
			continue
		}
		c.Report(Violation{Signature: sg, Detail: fmt.Sprintf("%s under %s on %q: %s %s", f.cs.API, f.cs.Config, clip(string(f.cs.Doc), 300), o, sig), Replay: f.cs})
	}
	for si, s := range suspects {
		if si >= 2 {
			break // each confirmation of a hang costs the full time limit
		}
		o, sig := confirmInChild(s, 60*time.Second)
		if o == "ok" {
			c.Warn("C01/slow", fmt.Sprintf("convert under %s on %q (%d bytes) needed more than 20 s in the batch but finished alone", s.Config, clip(string(s.Doc), 60), len(s.Doc)))
			continue
		}
		c.Report(Violation{Signature: "C01/" + o, Detail: fmt.Sprintf("convert under %s on %q: %s %s", s.Config, clip(string(s.Doc), 300), o, sig), Replay: s})
	}
	if nBadEvents > 0 && c.NumViolations() == 0 && len(c.known) == 0 && len(c.warnings) == 0 {
		infra("TraceTotal rejected %d abstract events but no concrete witness was recorded", nBadEvents)
	}
	for i := 0; i < len(docs); i += len(docs)/5 + 1 {
		c.Sample("document", 5, map[string]interface{}{"kind": docs[i].kind, "doc": clip(docs[i].doc, 120)})
	}

	// ---- block-phase protocol (BlockPhase.tla) of a sample of the executions above and of
	// the repository's own tests run with the tag on
	bpCfgs := []mdConfig{{Ext: "core"}, {Ext: "all", AutoID: true, Attr: true}}
	var bpDocs []string
	for i := 0; i < len(docs); i += len(docs)/c.Pick(6000, 60000) + 1 {
		if len(docs[i].doc) < 2000 {
			bpDocs = append(bpDocs, docs[i].doc)
		}
	}
	bps := recordParses(bpCfgs, bpDocs)
	validateBlockPhase(c, "workload sample", bps, func(i int) string {
		t := bps[i].T - 1 // parses are numbered in execution order: configuration-major
		return fmt.Sprintf("config %s document %q", bpCfgs[t/len(bpDocs)], clip(bpDocs[t%len(bpDocs)], 200))
	})
	if tps, msg := repoTestTraces(); msg != "" {
		c.Warn("BlockPhase/repo-tests-not-traced", msg)
	} else {
		validateBlockPhase(c, "repository tests with the tag on", tps, nil)
	}

	// ---- composition (Goldmark.tla): whole conversions of a sample, every hook event
	var plDocs []string
	for i := 0; i < len(bpDocs); i += len(bpDocs)/c.Pick(1500, 12000) + 1 {
		if len(bpDocs[i]) < 600 {
			plDocs = append(plDocs, bpDocs[i])
		}
	}
	convs := recordConversions(bpCfgs, plDocs, 7)
	validatePipeline(c, "workload sample", convs, func(i int) string {
		return fmt.Sprintf("config %s document %q", bpCfgs[i/len(plDocs)], clip(plDocs[i%len(plDocs)], 200))
	})
}

// runeBoundaryDocs: every code point from U+007F to U+0180 (around the 256-entry byte tables) and
// the boundaries of the UTF-8 lengths, the surrogate gap, the planes and the Unicode space /
// punctuation blocks, placed directly before, after and between the delimiters of every inline
// and extension construct.
func runeBoundaryDocs() []string {
	var rs []rune
	for r := rune(0x7F); r <= 0x180; r++ {
		rs = append(rs, r)
	}
	rs = append(rs, 0x2FF, 0x37E, 0x7FF, 0x800, 0xFFF, 0x1000, 0x1680, 0x2000, 0x200B, 0x2010, 0x2028, 0x2029, 0x202F, 0x205F, 0x2E3A, 0x3000, 0x3001, 0x30FB,
		0xD7FF, 0xE000, 0xFE50, 0xFEFF, 0xFF01, 0xFF5E, 0xFFFD, 0xFFFE, 0xFFFF, 0x10000, 0x1F600, 0x2FFFF, 0x30000, 0xE0001, 0x10FFFF)
	tmpl := []string{"*%s*", "%s*a*", "*a*%s", "a%s*b*%sc", "__%s__", "_%s_a", "~~%s~~", "\"%s\"", "'%s'", "%s--%s", "%s...", "[%s](%s)", "![%s](/u \"%s\")", "`%s`",
		"# %s", "%s\n===", "|%s|\n|-|\n|%s|", "[^%s]\n\n[^%s]: %s", "%s\n: %s", "<%s@a.b>", "www.a.b/%s", "http://a.b/%s*", "- [ ] %s", "%s\\\n%s", "a\n%s", "%s\nb", "[%s]\n\n[%s]: /u",
		"# a {#%s .%s}", "&#%d;*a*"}
	var out []string
	for _, r := range rs {
		for _, t := range tmpl {
			if strings.Contains(t, "%d") {
				out = append(out, fmt.Sprintf(t, r))
				continue
			}
			out = append(out, strings.ReplaceAll(t, "%s", string(r)))
		}
	}
	return out
}

// attrValueDocs: every attribute value form of the attribute syntax (strings in both quotings with
// escapes, bare words, numbers, booleans, null, lists and nested lists of all of these) under
// names the heading filter lets through and names it drops.
func attrValueDocs() []string {
	atoms := []string{"1", "-1.5", "1e3", "0x1f", "true", "false", "null", "\"s\"", "'t'", "\"a\\\"b\"", "bare", "\"\"", "[]", "[1]", "[true]", "[null]", "[\"a\"]", "[\"a\", 1]", "[1, [2]]", "[[], []]", "[\"a\", [\"b\", null]]", "[", "[1", "[1,]", "[,]", "]", "1.", "-", "+1", "tru", "\"unterminated", "{}", "{a=1}"}
	names := []string{"data-x", "title", "id", "class", "k", "style", "lang"}
	var out []string
	for _, a := range atoms {
		for _, n := range names {
			out = append(out, "# h {"+n+"="+a+"}\n", "h {."+"c "+n+"="+a+" #i}\n===\n")
		}
		for _, b := range atoms[:16] {
			out = append(out, "## h {data-a="+a+" data-b="+b+"}\n")
		}
	}
	return out
}
