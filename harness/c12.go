package main

// C12 — The source buffer is never written.
//
//  Frame condition (Meta.tla FrameLaw): the source is a constant of every behaviour.
//  Observer: the source is placed at the END of a page mapped PROT_READ (so that an append
//  into the spare capacity of a sub-slice also faults), with debug.SetPanicOnFault: any store
//  becomes a recoverable panic. Workload: Slots.tla product, repository examples, mutated
//  documents under all 256 configurations; every exported util transformer on read-only
//  sub-slices with spare capacity behind them.
//  The observer is memory protection, not TLA+: level exploration.

import (
	"crypto/sha1"
	"encoding/json"
	"fmt"
	"runtime/debug"
	"strings"
	"sync"
	"syscall"

	"github.com/yuin/goldmark"
	"github.com/yuin/goldmark/ast"
	"github.com/yuin/goldmark/text"
	"github.com/yuin/goldmark/util"
)

func init() {
	register(&Check{ID: "C12", Level: "exploration", Run: runC12, Replay: replayC12})
}

// roBytes returns a read-only copy of b that ends exactly at the end of a read-only mapping
// followed by an inaccessible guard page.
func roBytes(b []byte) (view []byte, release func()) {
	const page = 4096
	n := (len(b) + page - 1) / page * page
	if n == 0 {
		n = page
	}
	m, err := syscall.Mmap(-1, 0, n+page, syscall.PROT_READ|syscall.PROT_WRITE, syscall.MAP_ANON|syscall.MAP_PRIVATE)
	if err != nil {
		infra("mmap: %v", err)
	}
	copy(m[n-len(b):n], b)
	if err := syscall.Mprotect(m[:n], syscall.PROT_READ); err != nil {
		infra("mprotect: %v", err)
	}
	if err := syscall.Mprotect(m[n:], syscall.PROT_NONE); err != nil {
		infra("mprotect guard: %v", err)
	}
	return m[n-len(b) : n : n], func() { syscall.Munmap(m) }
}

// guarded runs f with faults turned into panics; reports whether a fault / panic happened.
func guarded(f func()) (faulted bool, what string) {
	old := debug.SetPanicOnFault(true)
	defer debug.SetPanicOnFault(old)
	defer func() {
		if r := recover(); r != nil {
			faulted = true
			what = fmt.Sprint(r)
		}
	}()
	f()
	return false, ""
}

type c12Case struct {
	Kind   string   `json:"kind"` // convert | util | accessors
	Config mdConfig `json:"config,omitempty"`
	Fn     string   `json:"fn,omitempty"`
	Doc    rawDoc   `json:"doc"`
	From   int      `json:"from,omitempty"` // util: the argument is doc[from:to]
	To     int      `json:"to,omitempty"`
}

var c12UtilFns = map[string]func([]byte){
	"EscapeHTML":               func(b []byte) { util.EscapeHTML(b) },
	"UnescapePunctuations":     func(b []byte) { util.UnescapePunctuations(b) },
	"ResolveNumericReferences": func(b []byte) { util.ResolveNumericReferences(b) },
	"ResolveEntityNames":       func(b []byte) { util.ResolveEntityNames(b) },
	"URLEscape":                func(b []byte) { util.URLEscape(b, false) },
	"URLEscapeResolve":         func(b []byte) { util.URLEscape(b, true) },
	"DoFullUnicodeCaseFolding": func(b []byte) { util.DoFullUnicodeCaseFolding(b) },
	"ReplaceSpaces":            func(b []byte) { util.ReplaceSpaces(b, ' ') },
	"ToLinkReference":          func(b []byte) { _ = util.ToLinkReference(b) },
	"TrimLeftSpace":            func(b []byte) { util.TrimLeftSpace(b) },
	"TrimRightSpace":           func(b []byte) { util.TrimRightSpace(b) },
	"TrimLeft":                 func(b []byte) { util.TrimLeft(b, []byte(" a")) },
	"TrimRight":                func(b []byte) { util.TrimRight(b, []byte(" a")) },
	"VisualizeSpaces":          func(b []byte) { util.VisualizeSpaces(b) },
	"IsBlank":                  func(b []byte) { util.IsBlank(b) },
	"FindURLIndex":             func(b []byte) { util.FindURLIndex(b) },
	"FindEmailIndex":           func(b []byte) { util.FindEmailIndex(b) },
}

// c12Accessors parses the read-only source and then reads the tree the way a caller holding
// the source does: every node's Text(source), every block's Lines().Value(source) and every
// line segment's Value(source). Reading the tree with the source is part of "parsing and
// rendering treat the source as read-only": an accessor that appends to a sub-slice of the
// source stores into the caller's buffer just as the parser would.
func c12Accessors(md goldmark.Markdown, ro []byte) {
	doc := md.Parser().Parse(text.NewReader(ro))
	_ = ast.Walk(doc, func(n ast.Node, entering bool) (ast.WalkStatus, error) {
		if !entering {
			return ast.WalkContinue, nil
		}
		_ = n.Text(ro)
		if n.Type() != ast.TypeInline {
			if l := n.Lines(); l != nil {
				_ = l.Value(ro)
				for i := 0; i < l.Len(); i++ {
					seg := l.At(i)
					_ = seg.Value(ro)
				}
			}
		}
		return ast.WalkContinue, nil
	})
}

// c12Exec runs one case on a read-only copy; returns the frame-law record.
func c12Exec(md goldmark.Markdown, cs c12Case) (rec map[string]interface{}, detail string) {
	ro, release := roBytes([]byte(cs.Doc))
	defer release()
	before := sha1.Sum(ro)
	var faulted bool
	var what string
	if cs.Kind == "convert" {
		faulted, what = guarded(func() {
			var sink discard
			if err := md.Convert(ro, &sink); err != nil {
				panic(err)
			}
		})
	} else if cs.Kind == "accessors" {
		faulted, what = guarded(func() { c12Accessors(md, ro) })
	} else {
		f := c12UtilFns[cs.Fn]
		faulted, what = guarded(func() { f(ro[cs.From:cs.To]) })
	}
	after := sha1.Sum(ro)
	lb := newLaw()
	rec = map[string]interface{}{"law": "frame", "before": lb.id(string(before[:])), "after": lb.id(string(after[:])), "faulted": faulted}
	if faulted {
		detail = "a store into the read-only source was attempted (or the call panicked): " + clip(what, 200)
	} else if before != after {
		detail = "the source bytes changed"
	}
	return rec, detail
}

type discard struct{}

func (discard) Write(p []byte) (int, error) { return len(p), nil }

func replayC12(c *Ctx, raw json.RawMessage) (bool, string) {
	var cs c12Case
	if err := json.Unmarshal(raw, &cs); err != nil {
		return false, err.Error()
	}
	var md goldmark.Markdown
	if cs.Kind != "util" {
		md = cs.Config.build()
	}
	rec, detail := c12Exec(md, cs)
	if !judgeLawOne(rec) {
		if cs.Kind == "util" {
			return true, fmt.Sprintf("util.%s on bytes [%d:%d] of read-only %q: %s", cs.Fn, cs.From, cs.To, clip(string(cs.Doc), 200), detail)
		}
		if cs.Kind == "accessors" {
			return true, fmt.Sprintf("Parse under %s of read-only %q, then Text(source) / Lines().Value(source) on every node: %s", cs.Config, clip(string(cs.Doc), 200), detail)
		}
		return true, fmt.Sprintf("Convert under %s of read-only %q: %s", cs.Config, clip(string(cs.Doc), 200), detail)
	}
	return false, "source untouched"
}

func runC12(c *Ctx) {
	ev := c.Ev
	ev.Assumptions = []string{
		"observer = memory protection: the source lies at the end of a PROT_READ mapping followed by a PROT_NONE guard page; debug.SetPanicOnFault turns a store into a recoverable panic (a panic for any other reason in a conversion that C01 found total is also counted as a fault)",
		"TLC/SANY evaluates FrameLaw of Meta.tla on the recorded (hash before, hash after, faulted) triples; Slots.tla provides the enumerated workload",
	}
	ev.Set("rule", "case = one Convert call (or one Parse followed by Text(source) / Lines().Value(source) on every node, or one util call) on a read-only source; distinct = distinct (document, configuration) / (function, document, sub-slice); non-trivial = documents with Markdown-significant bytes / sub-slices with spare capacity behind them")
	// self-test of the observer: a deliberate store must be seen
	{
		ro, rel := roBytes([]byte("abc"))
		f, _ := guarded(func() { ro[1] = 'x' })
		rel()
		if !f {
			infra("observer self-test failed: a store into the read-only page was not detected")
		}
		ro2, rel2 := roBytes([]byte("abcdef"))
		f2, _ := guarded(func() { _ = append(ro2[:2], 'y') })
		rel2()
		if !f2 {
			infra("observer self-test failed: an append into spare capacity of a read-only sub-slice was not detected")
		}
	}
	cfgs := allConfigs()
	mds := make([]goldmark.Markdown, len(cfgs))
	for i, cf := range cfgs {
		mds[i] = cf.build()
	}
	loadCorpus()
	var docs []string
	for _, sd := range slotDocs(c) {
		docs = append(docs, sd.Doc)
	}
	docs = append(docs, repoDocs...)
	g := newDocGen(c.Rand("mut"))
	for i := 0; i < c.Pick(2500, 60000); i++ {
		docs = append(docs, g.next())
	}
	docs = append(docs, "before `code span\nover two lines` after\n", "[foo \t\n  bar baz]: /url\n\n[FOO bar  baz]\n", "a `b\nc\nd` e *f\ng*\n", "| `a\n| b` |\n|---|\n")
	ev.Set("documents", len(docs))
	ev.Set("configurations", len(cfgs))
	var cases []c12Case
	var caseMd []int
	step := c.Pick(8, 1) // quick: each document under 32 of the 256 configurations (rotating)
	for di, d := range docs {
		for ci := di % step; ci < len(cfgs); ci += step {
			cases = append(cases, c12Case{Kind: "convert", Config: cfgs[ci], Doc: rawDoc(d)})
			caseMd = append(caseMd, ci)
		}
		// the tree read back with the source, under one configuration per document (rotating)
		cases = append(cases, c12Case{Kind: "accessors", Config: cfgs[(di*7)%len(cfgs)], Doc: rawDoc(d)})
		caseMd = append(caseMd, (di*7)%len(cfgs))
	}
	// util functions on sub-slices
	rng := c.Rand("util")
	frag := []string{"[foo \t\n  bar baz]: /url", "a  b", " a\t\tb ", "&amp; &#65; &copy;", "\\* \\\\", "%41 %zz é", "ÀÉÎ ß K", "http://a.b/c d", "x@y.z", "  ", "a\nb", "日本 語"}
	for i := 0; i < c.Pick(4000, 60000); i++ {
		var d string
		if i%3 == 0 {
			d = docs[rng.Intn(len(docs))]
		} else {
			for k := 2 + rng.Intn(4); k > 0; k-- {
				d += frag[rng.Intn(len(frag))]
			}
		}
		if len(d) < 2 {
			continue
		}
		for fn := range c12UtilFns {
			a := rng.Intn(len(d))
			b := a + rng.Intn(len(d)-a+1)
			if rng.Intn(3) == 0 {
				a, b = 0, len(d)
			}
			cases = append(cases, c12Case{Kind: "util", Fn: fn, Doc: rawDoc(d), From: a, To: b})
			caseMd = append(caseMd, -1)
		}
	}
	ls := newLawSet()
	var mu sync.Mutex
	var n int64
	details := map[int]string{}
	// conversions: one read-only mapping per document, shared by its configurations
	byDoc := map[string][]int{}
	var order []string
	var utilCases []int
	for i, cs := range cases {
		if cs.Kind == "util" {
			utilCases = append(utilCases, i)
			continue
		}
		k := string(cs.Doc)
		if _, ok := byDoc[k]; !ok {
			order = append(order, k)
		}
		byDoc[k] = append(byDoc[k], i)
	}
	parallelFor(len(order), func(oi int) {
		idx := byDoc[order[oi]]
		ro, release := roBytes([]byte(order[oi]))
		defer release()
		before := sha1.Sum(ro)
		for _, i := range idx {
			md := mds[caseMd[i]]
			faulted, what := guarded(func() {
				if cases[i].Kind == "accessors" {
					c12Accessors(md, ro)
					return
				}
				var sink discard
				if err := md.Convert(ro, &sink); err != nil {
					panic(err)
				}
			})
			after := sha1.Sum(ro)
			lb := newLaw()
			ls.add(map[string]interface{}{"law": "frame", "before": lb.id(string(before[:])), "after": lb.id(string(after[:])), "faulted": faulted}, i)
			mu.Lock()
			n++
			if (faulted || before != after) && len(details) < 500 {
				details[i] = what
			}
			mu.Unlock()
		}
	})
	parallelFor(len(utilCases), func(k int) {
		i := utilCases[k]
		rec, detail := c12Exec(nil, cases[i])
		ls.add(rec, i)
		mu.Lock()
		n++
		if detail != "" && len(details) < 500 {
			details[i] = detail
		}
		mu.Unlock()
	})
	ev.Add("evaluations", n)
	for i, cs := range cases {
		if cs.Kind == "util" && cs.To < len(cs.Doc) || strings.ContainsAny(string(cs.Doc), "*_`[]()<>#\\&!|~\n") {
			ev.Distinct(fmt.Sprint(i))
		}
	}
	// the law set keeps one witness per shape; report every failing case class
	bad := ls.judge(c, "FrameLaw")
	if len(bad) > 0 || len(details) > 0 {
		perSig := map[string]int{}
		for i := range details {
			cs := cases[i]
			sig := "C12/convert"
			if cs.Kind == "accessors" {
				sig = "C12/accessors"
			} else if cs.Kind == "util" {
				sig = "C12/util." + cs.Fn
			}
			if perSig[sig]++; perSig[sig] > 2 {
				continue
			}
			raw, _ := json.Marshal(cs)
			ok, detail := replayC12(c, raw)
			if !ok {
				c.Warn("C12/unreproduced", fmt.Sprintf("%+v", cs))
				continue
			}
			c.Report(Violation{Signature: sig, Detail: detail, Replay: cs})
		}
	}
	for i := 0; i < len(cases); i += len(cases)/4 + 1 {
		c.Sample("call", 4, cases[i])
	}
}
