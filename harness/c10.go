package main

// C10 — Renderer options are orthogonal rewrites of the same output.
//
//  The same parsed tree is rendered under the 8 combinations of {XHTML, HardWraps, Unsafe};
//  the hook event RenderNode and a recording BufWriter cut each output into per-node-event
//  segments; for every edge (A, A + one option) of the option cube the corresponding
//  segments form a product trace that TLC judges against OptionRel.tla (Allowed = the three
//  permitted rewrites and nothing else).

import (
	"bytes"
	"encoding/json"
	"fmt"
	"strings"
	"sync"

	"github.com/yuin/goldmark"
	"github.com/yuin/goldmark/ast"
	"github.com/yuin/goldmark/text"
)

func init() {
	register(&Check{ID: "C10", Level: "model_checking", Run: runC10, Replay: replayC10})
}

// recWriter: a util.BufWriter over a byte buffer.
type recWriter struct{ buf bytes.Buffer }

func (w *recWriter) Write(p []byte) (int, error)       { return w.buf.Write(p) }
func (w *recWriter) WriteByte(c byte) error            { return w.buf.WriteByte(c) }
func (w *recWriter) WriteRune(r rune) (int, error)     { return w.buf.WriteRune(r) }
func (w *recWriter) WriteString(s string) (int, error) { return w.buf.WriteString(s) }
func (w *recWriter) Available() int                    { return 4096 }
func (w *recWriter) Buffered() int                     { return 0 }
func (w *recWriter) Flush() error                      { return nil }

type renderEvent struct {
	node     ast.Node
	kind     string
	entering bool
	soft     bool
	off      int
}

// renderSegments renders tree and returns the output with the per-event offsets.
func renderSegments(md goldmark.Markdown, src []byte, tree ast.Node) (out []byte, evs []renderEvent, err error) {
	installHooks()
	w := &recWriter{}
	hookSinks.Store(w, hookSink(func(ev string, args []interface{}) {
		if ev != "RenderNode" {
			return
		}
		n := args[1].(ast.Node)
		e := renderEvent{node: n, kind: n.Kind().String(), entering: args[2].(bool), off: w.buf.Len()}
		if t, ok := n.(*ast.Text); ok {
			e.soft = t.SoftLineBreak()
		}
		evs = append(evs, e)
	}))
	defer hookSinks.Delete(w)
	defer func() {
		if r := recover(); r != nil {
			err = fmt.Errorf("panic: %v", r)
		}
	}()
	err = md.Renderer().Render(w, src, tree)
	return w.buf.Bytes(), evs, err
}

// segTokens cuts a segment into tokens; every newline of a text is a token of its own.
func segTokens(lb *lawBuilder, b []byte) [][]interface{} {
	out := [][]interface{}{}
	for _, t := range tokenizeHTML(b) {
		attrs := [][]interface{}{}
		for _, a := range t.Attrs {
			attrs = append(attrs, []interface{}{a.Name, lb.id("v:" + a.Value)})
		}
		switch t.K {
		case "text":
			rest := t.Text
			for rest != "" {
				i := strings.IndexByte(rest, '\n')
				if i < 0 {
					out = append(out, []interface{}{"text", "", attrs, lb.id("t:" + rest)})
					break
				}
				if i > 0 {
					out = append(out, []interface{}{"text", "", attrs, lb.id("t:" + rest[:i])})
				}
				out = append(out, []interface{}{"text", "", attrs, lb.id("t:\n")})
				rest = rest[i+1:]
			}
		case "comment":
			out = append(out, []interface{}{"comment", "", attrs, lb.id("c:" + t.Text)})
		case "bad":
			out = append(out, []interface{}{"bad", "", attrs, lb.id("b:" + t.Why + t.Text)})
		default:
			out = append(out, []interface{}{t.K, t.Tag, attrs, 0})
		}
	}
	return out
}

var c10Opts = []string{"xhtml", "hardwraps", "unsafe"}

func c10Flags(m int) mdConfig {
	return mdConfig{XHTML: m&1 != 0, HardWraps: m&2 != 0, Unsafe: m&4 != 0}
}

type c10Case struct {
	Ext    string `json:"ext"`
	AutoID bool   `json:"autoid"`
	Attr   bool   `json:"attr"`
	Doc    rawDoc `json:"doc"`
	A      int    `json:"a"`   // option set of side A as a bit mask (1 xhtml, 2 hardwraps, 4 unsafe)
	Opt    int    `json:"opt"` // index into {xhtml, hardwraps, unsafe}: the option B adds
	Event  int    `json:"event"`
}

type c10Inst struct {
	mds [8]goldmark.Markdown
}

func c10Build(ext string, autoid, attr bool) *c10Inst {
	in := &c10Inst{}
	for m := 0; m < 8; m++ {
		cf := c10Flags(m)
		cf.Ext, cf.AutoID, cf.Attr = ext, autoid, attr
		in.mds[m] = cf.build()
	}
	return in
}

// c10Records renders doc under all 8 option sets and returns one record per (edge, event).
func c10Records(in *c10Inst, doc string, each func(a, opt, ev int, rec map[string]interface{}, detail func() string)) (mismatch string, ok bool) {
	src := []byte(doc)
	var tree ast.Node
	func() {
		defer func() { recover() }()
		tree = in.mds[0].Parser().Parse(text.NewReader(src))
	}()
	if tree == nil {
		return "", false
	}
	var outs [8][]byte
	var evs [8][]renderEvent
	for m := 0; m < 8; m++ {
		o, e, err := renderSegments(in.mds[m], src, tree)
		if err != nil {
			return "", false
		}
		outs[m], evs[m] = append([]byte{}, o...), e
	}
	seg := func(m, i int) []byte {
		end := len(outs[m])
		if i+1 < len(evs[m]) {
			end = evs[m][i+1].off
		}
		return outs[m][evs[m][i].off:end]
	}
	for a := 0; a < 8; a++ {
		for oi := range c10Opts {
			bit := 1 << oi
			if a&bit != 0 {
				continue
			}
			b := a | bit
			if len(evs[a]) != len(evs[b]) {
				return fmt.Sprintf("the render walk visits %d node events under %s and %d under %s", len(evs[a]), c10Flags(a), len(evs[b]), c10Flags(b)), true
			}
			for i := range evs[a] {
				ea, eb := evs[a][i], evs[b][i]
				if ea.node != eb.node || ea.entering != eb.entering {
					return fmt.Sprintf("the render walk differs at event %d under %s / %s", i, c10Flags(a), c10Flags(b)), true
				}
				sa, sb := seg(a, i), seg(b, i)
				if len(sa) == 0 && len(sb) == 0 {
					continue
				}
				lb := newLaw()
				urls := [][]int{}
				for _, t := range tokenizeHTML(sb) {
					for _, at := range t.Attrs {
						if at.Name == "href" || at.Name == "src" {
							urls = append(urls, urlCodePoints(at.Value))
						}
					}
				}
				// with Unsafe the raw HTML of a node is written as it stands in the source: the bytes of
				// the node's own segments (for a block: its lines and closing line), nothing else
				rawok := true
				if c10Opts[oi] == "unsafe" && (ea.kind == "RawHTML" || ea.kind == "HTMLBlock") && len(sb) > 0 {
					// (the insecure character U+0000 is written as U+FFFD: CommonMark 2.3)
					want := bytes.ReplaceAll(c10RawOf(ea.node, ea.entering, src), []byte{0}, []byte("\uFFFD"))
					rawok = bytes.Equal(bytes.TrimRight(sb, "\n"), bytes.TrimRight(want, "\n"))
				}
				rec := map[string]interface{}{"opt": c10Opts[oi], "kind": ea.kind, "soft": ea.soft, "same": bytes.Equal(sa, sb), "rawok": rawok,
					"ph": lb.id("c: raw HTML omitted "), "nl": lb.id("t:\n"), "empty": lb.id("v:"),
					"a": segTokens(lb, sa), "b": segTokens(lb, sb), "urls": urls}
				ia, ioi, ii := a, oi, i
				each(a, oi, i, rec, func() string {
					return fmt.Sprintf("node %s (entering=%v) writes %q under {%s} and %q with %s added", evs[ia][ii].kind, evs[ia][ii].entering, clip(string(seg(ia, ii)), 200), c10Flags(ia), clip(string(seg(ia|1<<ioi, ii)), 200), c10Opts[ioi])
				})
			}
		}
	}
	return "", true
}

func replayC10(c *Ctx, raw json.RawMessage) (bool, string) {
	var cs c10Case
	if err := json.Unmarshal(raw, &cs); err != nil {
		return false, err.Error()
	}
	in := c10Build(cs.Ext, cs.AutoID, cs.Attr)
	found, detail := false, ""
	c10Records(in, string(cs.Doc), func(a, opt, ev int, rec map[string]interface{}, d func() string) {
		if a == cs.A && opt == cs.Opt && ev == cs.Event && !found {
			bad, _ := tlcJudge("OptionRel", "OptionRel.cfg", "segments.ndjson", []interface{}{rec})
			if len(bad) > 0 {
				found, detail = true, d()
			}
		}
	})
	if found {
		return true, fmt.Sprintf("extensions %s, document %q: %s", cs.Ext, clip(string(cs.Doc), 200), detail)
	}
	return false, "allowed by OptionRel"
}

func runC10(c *Ctx) {
	ev := c.Ev
	ev.Assumptions = []string{
		"TLC/SANY, Json/IOUtils; strict tokenizer; hook event RenderNode (-tags verif) and a recording BufWriter attribute output bytes to node events",
		"table alignment rendering pinned to the attribute method, East-Asian line-break suppression off (both documented to interact with these switches)",
		"'classified as dangerous' is decided on the URL the unsafe side writes, by the WHATWG front end of OptionRel.tla",
	}
	ev.Set("rule", "case = one (document, extension set, option set A, added option, node event) product-trace step; evaluations counts renders; distinct = distinct record shapes judged by TLC plus distinct documents; non-trivial = steps whose two segments differ")
	loadCorpus()
	type variant struct {
		ext          string
		autoid, attr bool
	}
	variants := []variant{{"core", false, false}, {"allattr", true, true}, {"gfmattr", false, true}, {"footnote", true, false}, {"deflist", false, false}}
	insts := make([]*c10Inst, len(variants))
	for i, v := range variants {
		insts[i] = c10Build(v.ext, v.autoid, v.attr)
	}
	var docs []string
	for _, sd := range slotDocs(c) {
		docs = append(docs, sd.Doc)
	}
	docs = append(docs, repoDocs...)
	g := newDocGen(c.Rand("mut"))
	for i := 0; i < c.Pick(3000, 60000); i++ {
		docs = append(docs, g.next())
	}
	// URL attacks are where Unsafe matters
	for _, sc := range []string{"javascript:alert(1)", "JAVASCRIPT:x", "vbscript:x", "file:///x", "data:text/html,x", "data:image/png;base64,x", "http://ok", "java&Tab;script:x", "javascript&colon;x",
		// every data:image type the renderer lists as harmless, and near misses (classified by OptionRel.tla)
		"data:image/svg+xml;base64,x", "DATA:image/SVG+xml;utf8,x", "data:image/gif;base64,x", "data:image/jpeg;base64,x", "data:image/webp;base64,x",
		"data:image/svg+xml,x", "data:image/bmp;base64,x", "data:image/png,x", "data:text/plain,x", "mailto:a@b.c", "tel:1", "//host/p", "?q=javascript:x", "#javascript:x", "< leading>", "x:/y"} {
		docs = append(docs, "[a]("+sc+")\n", "![a]("+sc+")\n", "<"+sc+">\n", "[a][r]\n\n[r]: "+sc+"\n", "a\n<b>\n"+sc+" <i>x</i>\n")
	}
	ev.Set("documents", len(docs))
	type wit struct{ doc, variant, a, opt, event int }
	var mu sync.Mutex
	seen := map[string]int{}
	var recs []interface{}
	var wits []wit
	var nSteps, nDiffer, nRenders int64
	parallelFor(len(docs), func(di int) {
		vi := di % len(variants)
		vs := []int{vi}
		if c.Thorough() || di%4 == 0 {
			vs = []int{vi, (vi + 1) % len(variants)}
		}
		for _, v := range vs {
			type item struct {
				key string
				rec map[string]interface{}
				w   wit
			}
			var local []item
			var steps, differ int64
			mm, ok := c10Records(insts[v], docs[di], func(a, opt, evi int, rec map[string]interface{}, _ func() string) {
				steps++
				if !rec["same"].(bool) {
					differ++
				}
				b, _ := json.Marshal(rec)
				local = append(local, item{string(b), rec, wit{di, v, a, opt, evi}})
			})
			mu.Lock()
			if ok {
				nRenders += 8
			}
			if mm != "" {
				mu.Unlock()
				c.Warn("C10/render-walk-differs", fmt.Sprintf("%s on %q", mm, clip(docs[di], 80)))
				mu.Lock()
			}
			nSteps += steps
			nDiffer += differ
			for _, it := range local {
				if _, ok := seen[it.key]; !ok {
					seen[it.key] = len(recs)
					recs = append(recs, it.rec)
					wits = append(wits, it.w)
				}
			}
			mu.Unlock()
		}
	})
	ev.Add("evaluations", nRenders)
	ev.Set("product_trace_steps", nSteps)
	ev.Set("steps_with_different_segments", nDiffer)
	bad, tr := tlcJudge("OptionRel", "OptionRel.cfg", "segments.ndjson", recs)
	ev.TLC("OptionRel (acceptor over distinct product-trace step shapes)", tr)
	ev.Add("traces_validated_against_impl", int64(len(recs)))
	for i := range recs {
		ev.Distinct(fmt.Sprint("shape", i))
	}
	perSig := map[string]int{}
	for _, b := range bad {
		w := wits[b.L-1]
		rec := recs[b.L-1].(map[string]interface{})
		sig := fmt.Sprintf("C10/%s/%s", rec["opt"], rec["kind"])
		if perSig[sig]++; perSig[sig] > 2 {
			continue
		}
		v := variants[w.variant]
		cs := c10Case{Ext: v.ext, AutoID: v.autoid, Attr: v.attr, Doc: rawDoc(docs[w.doc]), A: w.a, Opt: w.opt, Event: w.event}
		raw, _ := json.Marshal(cs)
		ok, detail := replayC10(c, raw)
		if !ok {
			infra("step rejected in the batch but allowed alone: %+v", cs)
		}
		c.Report(Violation{Signature: sig, Detail: detail, Replay: cs})
	}
	for i := 0; i < len(recs); i += len(recs)/5 + 1 {
		r := recs[i].(map[string]interface{})
		c.Sample("step-shape", 5, map[string]interface{}{"opt": r["opt"], "kind": r["kind"], "a": r["a"], "b": r["b"], "doc": clip(docs[wits[i].doc], 80)})
	}
}

// c10RawOf: the source bytes a raw HTML node writes at this event (inline: its segments; block:
// its lines on entering and its closing line on leaving).
func c10RawOf(n ast.Node, entering bool, src []byte) []byte {
	var b bytes.Buffer
	switch v := n.(type) {
	case *ast.RawHTML:
		for i := 0; entering && i < v.Segments.Len(); i++ {
			seg := v.Segments.At(i)
			b.Write(seg.Value(src))
		}
	case *ast.HTMLBlock:
		// the lines are written when the block is entered, the closing line when it is left
		for i := 0; entering && i < v.Lines().Len(); i++ {
			seg := v.Lines().At(i)
			b.Write(seg.Value(src))
		}
		if !entering && v.HasClosure() {
			b.Write(v.ClosureLine.Value(src))
		}
	}
	return b.Bytes()
}
