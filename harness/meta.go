package main

// Relational laws (Meta.tla): outputs are cut into lines, lines are renamed injectively per
// record (first-occurrence order) so that records of the same shape collapse, and TLC
// evaluates the law on every distinct shape.

import (
	"crypto/sha1"
	"encoding/json"
	"fmt"
	"sort"
	"strings"
	"sync"
)

func outLines(b []byte) []string {
	if len(b) == 0 {
		return []string{}
	}
	parts := strings.SplitAfter(string(b), "\n")
	if parts[len(parts)-1] == "" {
		parts = parts[:len(parts)-1]
	}
	return parts
}

// lawRec builds a canonical record: fields maps a name to a line sequence (or a single line).
type lawBuilder struct {
	ids map[string]int
}

func newLaw() *lawBuilder { return &lawBuilder{ids: map[string]int{}} }
func (lb *lawBuilder) id(s string) int {
	if v, ok := lb.ids[s]; ok {
		return v
	}
	v := len(lb.ids) + 1
	lb.ids[s] = v
	return v
}
func (lb *lawBuilder) seq(lines []string) []int {
	o := make([]int, len(lines))
	for i, l := range lines {
		o[i] = lb.id(l)
	}
	return o
}

type lawSet struct {
	mu    sync.Mutex
	seen  map[[20]byte]int
	recs  []interface{}
	wits  []interface{} // one concrete witness per distinct record
	total int64
}

func newLawSet() *lawSet { return &lawSet{seen: map[[20]byte]int{}} }

// add registers a record (map with "law" and canonical int sequences) with its witness.
func (ls *lawSet) add(rec map[string]interface{}, wit interface{}) {
	keys := make([]string, 0, len(rec))
	for k := range rec {
		keys = append(keys, k)
	}
	sort.Strings(keys)
	b, _ := json.Marshal(rec)
	h := sha1.Sum(b)
	ls.mu.Lock()
	ls.total++
	if _, ok := ls.seen[h]; !ok {
		ls.seen[h] = len(ls.recs)
		ls.recs = append(ls.recs, rec)
		ls.wits = append(ls.wits, wit)
	}
	ls.mu.Unlock()
}

// judge has TLC evaluate every distinct record; returns the witnesses of rejected ones.
func (ls *lawSet) judge(c *Ctx, what string) []interface{} {
	if len(ls.recs) == 0 {
		infra("%s: no law records", what)
	}
	bad, tr := tlcJudge("Meta", "Meta.cfg", "laws.ndjson", ls.recs)
	c.Ev.TLC("Meta ("+what+")", tr)
	c.Ev.Add("traces_validated_against_impl", int64(len(ls.recs)))
	c.Ev.Add("law_instances", ls.total)
	var out []interface{}
	for _, b := range bad {
		out = append(out, ls.wits[b.L-1])
	}
	return out
}

func judgeLawOne(rec map[string]interface{}) bool {
	bad, _ := tlcJudge("Meta", "Meta.cfg", "laws.ndjson", []interface{}{rec})
	return len(bad) == 0
}

func diffLines(a, b []string) string {
	n := len(a)
	if len(b) < n {
		n = len(b)
	}
	for i := 0; i < n; i++ {
		if a[i] != b[i] {
			return fmt.Sprintf("first difference at line %d: %q vs %q", i+1, a[i], b[i])
		}
	}
	if len(a) != len(b) {
		return fmt.Sprintf("one side has %d lines, the other %d", len(a), len(b))
	}
	return "equal"
}
