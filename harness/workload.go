package main

// Document workloads: the Slots.tla product concretised, structured pathological inputs,
// repository examples, mutated documents, exhaustive short strings. Plus a parallel-for.

import (
	"encoding/json"
	"fmt"
	"runtime"
	"strings"
	"sync"
	"time"
)

// slot name -> template; %s is replaced by the payload (every occurrence)
var slotTemplates = map[string]string{
	"para":          "x %s y",
	"atx":           "# %s",
	"atxclose":      "## %s ##",
	"setext":        "%s\n===",
	"codespan":      "a `%s` b",
	"icode":         "    %s",
	"fcode":         "```\n%s\n```",
	"info":          "```%s\nx\n```",
	"linktext":      "[%s](/u)",
	"linkdest":      "[a](%s)",
	"linkdestangle": "[a](<%s>)",
	"linktitle":     "[a](/u \"%s\")",
	"linktitle1":    "[a](/u '%s')",
	"refdest":       "[a]\n\n[a]: %s",
	"refdestangle":  "[a]\n\n[a]: <%s>",
	"reftitle":      "[a]\n\n[a]: /u \"%s\"",
	"reflabel":      "[%s]\n\n[%s]: /u",
	"imgalt":        "![%s](/u)",
	"imgsrc":        "![a](%s)",
	"imgtitle":      "![a](/u \"%s\")",
	"autolink":      "<%s>",
	"autolinkpath":  "<http://a.b/%s>",
	"mailto":        "<a%s@b.c>",
	"rawinline":     "a <b %s> c",
	"htmlblock":     "<div %s>\nx\n</div>",
	"tablecell":     "| a | b |\n|---|:-:|\n| %s | c |",
	"tablehead":     "| %s | b |\n|---|---|\n| c | d |",
	"fnlabel":       "a[^%s]\n\n[^%s]: n",
	"fnbody":        "a[^1]\n\n[^1]: %s",
	"defterm":       "%s\n: d",
	"defdesc":       "t\n: %s",
	"task":          "- [ ] %s\n- [x] %s",
	"attrval":       "# h {k=\"%s\"}",
	"attrbare":      "# h {k=%s}",
	"attrkey":       "# h {%s=v}",
	"attrid":        "# h {#%s}",
	"attrclass":     "h {.%s}\n---",
	"attrraw":       "# h {%s}",
	"attrdatakey":   "# h {data-%s=v}\n\nh {data-a%sb=\"v\" .c}\n---",
	"attridval":     "# h {id=%s}\n\nh {#b id=%s}\n===",
	"attrcase":      "# h {.a Class=%s}\n\nt {cLASS=%s .b}\n===\n\n## u {ID=%s #x Id=%s}\n\n### v {CLASS=%s class=%s}",
	"attridq":       "# h {id=\"%s\"}\n\nh {id='%s'}\n===",
	"attrclassq":    "## h {class=\"%s\"}\n\nh {.c class=\"%s\" class='%s'}\n---",
	"attrstyleq":    "# h {style=\"%s\" title='%s' lang=\"%s\" data-x=\"%s\"}",
	"linkify":       "see %s ok http://a.b/%s www.a.b/%s",
	"strike":        "~~%s~~",
	"emph":          "*%s* **%s**",
	"quote":         "> %s",
	"list":          "- %s\n  %s",
	"olist":         "1. %s",
	"typog":         "\"%s\" -- '%s'...",
	"nested":        "> - [**%s**](/u \"%s\")\n>   ```%s",
}

var atomBytes = map[string]string{
	"a": "a", "lt": "<", "gt": ">", "dq": "\"", "sq": "'", "amp": "&", "eamp": "&amp;", "elt": "&lt;", "dlt": "&#60;", "xlt": "&#x3c;",
	"nosuch": "&nosuch;", "zero": "&#0;", "big": "&#x110000;", "nvlt": "&nvlt;", "nul": "\x00", "cont": "\x80", "lead2": "\xc3", "lead3": "\xe3", "lead4": "\xf0",
	"eacute": "é", "cclose": "-->", "copen": "<!--", "cdata": "]]>", "script": "<script>", "escript": "</script>", "onerror": " onerror=x",
	"bs": "\\", "bslt": "\\<", "bsdq": "\\\"", "bsamp": "\\&", "nl": "\n", "hardnl": "  \n", "bsnl": "\\\n", "js": "javascript:", "backtick": "`", "star": "*", "under": "_",
	"lbr": "[", "rbr": "]", "lpar": "(", "rpar": ")", "lbrace": "{", "rbrace": "}", "eq": "=", "pipe": "|", "colon": ":", "tilde": "~", "pct": "%", "pctzz": "%zz",
	"sp": " ", "tab": "\t", "hash": "#", "one": "1", "true": "true", "null": "null", "bang": "!", "caret": "^", "dash": "-", "dot": ".", "cr": "\r", "colonent": "&colon;", "tabent": "&Tab;",
}

type slotDoc struct {
	Slot    string
	Payload []string
	Ending  string
	Doc     string
}

func concretiseSlot(slot string, payload []string, ending string) string {
	var p strings.Builder
	for _, a := range payload {
		v, ok := atomBytes[a]
		if !ok {
			infra("unknown atom %q", a)
		}
		p.WriteString(v)
	}
	t, ok := slotTemplates[slot]
	if !ok {
		infra("unknown slot %q", slot)
	}
	d := strings.ReplaceAll(t, "%s", p.String())
	if ending == "nl" {
		d += "\n"
	}
	return d
}

// slotDocs runs the Slots.tla generator and concretises every element.
func slotDocs(c *Ctx) []slotDoc {
	cfg := "Slots_quick.cfg"
	if c.Thorough() {
		cfg = "Slots_thorough.cfg"
	}
	var out []slotDoc
	r := RunTLC(TLCOpts{Module: "Slots", Cfg: cfg, Workers: 8, Timeout: 30 * time.Minute, OnJSON: func(raw []byte) {
		var t []json.RawMessage
		if json.Unmarshal(raw, &t) != nil || len(t) != 3 {
			infra("bad slot element %s", raw)
		}
		var sd slotDoc
		must(json.Unmarshal(t[0], &sd.Slot))
		must(json.Unmarshal(t[1], &sd.Payload))
		must(json.Unmarshal(t[2], &sd.Ending))
		sd.Doc = concretiseSlot(sd.Slot, sd.Payload, sd.Ending)
		out = append(out, sd)
	}})
	r.MustOK("Slots generator")
	c.Ev.TLC(cfg+" (slot x payload x ending product)", r)
	if len(out) == 0 {
		infra("Slots generator produced nothing")
	}
	return out
}

// structured pathological inputs (deep nesting, long delimiter runs, unclosed openers)
func deepDocs(thorough bool) []string {
	ns := []int{50, 400}
	if thorough {
		ns = []int{50, 400, 3000, 12000}
	}
	var out []string
	pieces := []string{"> ", "- ", "1. ", "* ", "[", "![", "*", "_", "**", "`", "<", "<!--", "<?", "<![CDATA[", "(", "[a](", "[^", "\\", "&", "&#", "~", "~~", "|", ": ", "{", "# ", "\t", "  ", "<div>", "<a ", "[a][", "[a]: ", "](", "*a ", "_a ", "`a` ", "[a](b) ", "<b>", "a\n> ", "a\n- ", "-\n", ">\n", "\r", "\x00", "\x80", "&amp;"}
	for _, n := range ns {
		for _, p := range pieces {
			if n > 3000 && len(p) > 4 {
				continue
			}
			out = append(out, strings.Repeat(p, n)+"a", strings.Repeat(p, n)+"a\n"+strings.Repeat("]", n/2), strings.Repeat(p, n/2)+"a"+strings.Repeat(revPiece(p), n/2)+"\n")
		}
	}
	return out
}

func revPiece(p string) string {
	switch strings.TrimSpace(p) {
	case "[", "![", "[a][":
		return "]"
	case "(", "[a](":
		return ")"
	case "<", "<a", "<b>":
		return ">"
	case "<!--":
		return "-->"
	case "<?":
		return "?>"
	case "<![CDATA[":
		return "]]>"
	case "{":
		return "}"
	}
	return p
}

// parallelFor runs f(i) for i in [0,n) on all cores.
func parallelFor(n int, f func(i int)) {
	workers := runtime.NumCPU()
	if workers > n {
		workers = n
	}
	if workers < 1 {
		workers = 1
	}
	var wg sync.WaitGroup
	var mu sync.Mutex
	next := 0
	for w := 0; w < workers; w++ {
		wg.Add(1)
		go func() {
			defer wg.Done()
			for {
				mu.Lock()
				i := next
				next++
				mu.Unlock()
				if i >= n {
					return
				}
				f(i)
			}
		}()
	}
	wg.Wait()
}

// generatedDocs: documents enumerated by the other generator modules of the specification
// (Table.tla candidates, CMGen.tla / InlineGen.tla documents in both indentation spellings),
// as a workload for checks whose oracle needs no expectation (tree shape, totality, ...).
// tableDocs: the table candidates of Table.tla with the interesting cell spellings (escaped pipes,
// pipes in code spans, empty cells, inline content), by cell kind.
func tableDocs(c *Ctx) (docs []string, kinds []string) {
	r := RunTLC(TLCOpts{Module: "Table", Cfg: "Table_gen.cfg", Workers: 8, Timeout: 40 * time.Minute, OnJSON: func(raw []byte) {
		var t tableCand
		if json.Unmarshal(raw, &t) != nil {
			infra("bad table candidate %s", raw)
		}
		// the interesting spellings; one container each
		if t.CellKind == "plain" || t.CellKind == "spaces" || t.Pretext {
			return
		}
		docs = append(docs, concretiseTable(t))
		kinds = append(kinds, t.CellKind)
	}})
	r.MustOK("Table generator (workload)")
	c.Ev.TLC("Table_gen.cfg (workload)", r)
	return docs, kinds
}

// scaledDocs: a pattern repeated until the document is just below, at and just above the sizes at
// which buffers, caches and statistics of an implementation typically change behaviour.
func scaledDocs(maxSize int) []string {
	pats := []string{"a ", "[a](/b) ", "*a* **b** ", "`a` ", "&amp; &#65; ", "- a\n", "> a\n", "a\n", "a\n\n", "# a b\n\n", "[r] ", "<b>x</b> ", "a\\\n", "1. a\n   b\n", "http://a.b/c ", "\"q\" -- ", "~~s~~ "}
	var out []string
	for _, p := range pats {
		for _, size := range []int{64, 128, 256, 512, 1024, 4096, 8192} {
			if size > maxSize {
				continue
			}
			for _, d := range []int{-1, 0, 1} {
				n := (size + d*len(p)) / len(p)
				if n < 1 {
					continue
				}
				doc := strings.Repeat(p, n)
				if p == "[r] " {
					doc += "\n\n[r]: /u\n"
				}
				out = append(out, doc)
			}
		}
	}
	// one inline construct around a text of every length near the limits the specification and the
	// implementation know (a link label has at most 999 characters), closed and unclosed
	for _, w := range [][2]string{{"[", "]"}, {"![", "]"}, {"[", "][r]"}, {"[", "]()"}, {"[", "]: /u"}, {"*", "*"}, {"`", "`"}, {"<a href=\"", "\">"}, {"[^", "]"}, {"~~", "~~"}, {"\"", "\""}} {
		for _, n := range []int{126, 127, 128, 129, 254, 255, 256, 257, 997, 998, 999, 1000, 1001, 1002} {
			if n > maxSize*2 {
				continue
			}
			body := strings.Repeat("ab ", n/3+1)[:n-1] + "c"
			out = append(out, "x "+w[0]+body+w[1]+" y\n\n[r]: /u\n", w[0]+body+"\n")
		}
	}
	out = append(out, "| a | b |\n|---|---|\n"+strings.Repeat("| `x\\|y` | z |\n", 40), "x"+strings.Repeat("[^1]", 40)+"\n\n[^1]: n\n", strings.Repeat("- [ ] t\n", 130))
	return out
}

func generatedDocs(c *Ctx, nSim int) []string {
	out, _ := tableDocs(c)
	out = append(out, scaledDocs(512)...) // (tree acceptors are super-linear in the number of nodes; C01 adds the large sizes)
	seen := map[string]bool{}
	r := RunTLC(TLCOpts{Module: "CMGen", Cfg: "gen.cfg", CfgText: cmCfg(5, 3, true, true), Workers: 4, Timeout: 30 * time.Minute,
		Simulate: fmt.Sprintf("num=%d", nSim/4), Depth: 40, Seed: c.Seed*17 + 5, OnJSON: func(raw []byte) {
			var d cmDoc
			if json.Unmarshal(raw, &d) != nil || seen[string(raw)] {
				return
			}
			seen[string(raw)] = true
			out = append(out, spellLines(d.Lines, false))
			if t := spellLines(d.Lines, true); strings.Contains(t, "\t") {
				out = append(out, t)
			}
		}})
	if r.TimedOut || (r.Exit != 0 && r.ErrorText != "") {
		infra("CMGen workload: TLC failed\n%s", r.Tail)
	}
	c.Ev.TLC("CMGen simulation (workload)", r)
	i := 0
	r = RunTLC(TLCOpts{Module: "InlineGen", Cfg: "gen.cfg", CfgText: igCfg(6, true, false, igAll), Workers: 4, Timeout: 30 * time.Minute,
		Simulate: fmt.Sprintf("num=%d", nSim/4), Depth: 30, Seed: c.Seed*17 + 6, OnJSON: func(raw []byte) {
			var d igDoc
			if json.Unmarshal(raw, &d) != nil || seen[string(raw)] {
				return
			}
			seen[string(raw)] = true
			i++
			cs := igCases(d, i, "workload")
			out = append(out, string(cs[i%len(cs)].Source))
		}})
	if r.TimedOut || (r.Exit != 0 && r.ErrorText != "") {
		infra("InlineGen workload: TLC failed\n%s", r.Tail)
	}
	c.Ev.TLC("InlineGen simulation (workload)", r)
	// nested inline containers (NestGen.tla) and random block-structure documents (BlockSem.tla)
	r = RunTLC(TLCOpts{Module: "NestGen", Cfg: "gen.cfg", CfgText: nestCfg(5), Workers: 4, Timeout: 20 * time.Minute, OnJSON: func(raw []byte) {
		var d struct {
			Src string `json:"src"`
		}
		if json.Unmarshal(raw, &d) != nil {
			return
		}
		out = append(out, d.Src+"\n", "- x "+d.Src+"\n")
	}})
	r.MustOK("NestGen (workload)")
	c.Ev.TLC("NestGen (workload)", r)
	for k, a := range []string{"wide", "html"} {
		r = RunTLC(TLCOpts{Module: "BlockSem", Cfg: "gen.cfg", CfgText: bsCfg(a, 7, true, false), Workers: 4, Timeout: 20 * time.Minute,
			Simulate: fmt.Sprintf("num=%d", nSim/16), Depth: 8, Seed: c.Seed*17 + 7 + int64(k), OnJSON: func(raw []byte) {
				var d struct {
					Src string `json:"src"`
				}
				if json.Unmarshal(raw, &d) != nil || seen[d.Src] {
					return
				}
				seen[d.Src] = true
				out = append(out, d.Src)
			}})
		if r.TimedOut || (r.Exit != 0 && r.ErrorText != "") {
			infra("BlockSem workload: TLC failed\n%s", r.Tail)
		}
		c.Ev.TLC("BlockSem "+a+" simulation (workload)", r)
	}
	return out
}

// extTriggerFamilies: per extension, the tokens its syntax is made of (and a few neighbours).
var extTriggerFamilies = [][]string{
	{"'", "\"", "-", ".", "9", "s", "a", " ", "\n"},                         // typographer
	{"www.", "http://", "a", ".", "b/", "@", "_", "(", ")", "<", " ", "\n"}, // linkify
	{"|", "-", ":", "a", " ", "\n", "\\|", "`"},                             // table
	{"[^", "a", "]", ":", " ", "\n", "[", "^", "!"},                         // footnote
	{":", " ", "a", "\n", "  ", "~"},                                        // definition list
	{"- ", "[", " ", "x", "]", "a", "\n"},                                   // task list
	{"~", "~~", "a", " ", "\n", "*"},                                        // strikethrough
}

// triggerTokenDocs: every short sequence over the trigger alphabet of each extension (the
// sequences end a block: an extension's inline parser looks ahead from its trigger byte and must
// stop at the end of the block).
func triggerTokenDocs() []string {
	var out []string
	for _, fam := range extTriggerFamilies {
		n := 4
		if len(fam) > 9 {
			n = 3
		}
		shortStrings(fam, n, func(s string) { out = append(out, s) })
	}
	return out
}
