package main

// Composition (Goldmark.tla): every hook event of whole conversions - Parse followed by Render
// on one instance - is validated by TLC against the phase machine of the specification; the
// render walk is checked against the tree that Parse returned. Mechanism level: rejections
// are CONTRACT-WARNINGs.

import (
	"encoding/json"
	"fmt"
	"time"

	"github.com/yuin/goldmark/ast"
	"github.com/yuin/goldmark/text"
)

type convRec struct {
	Evs    [][]interface{} `json:"evs"`
	Parent []int           `json:"parent"`
	Kids   [][]int         `json:"kids"`
	Inited bool            `json:"inited"`
}

// recordConversions converts docs one after the other (single goroutine; the global sink sees
// every event) and returns the abstract event sequences. A fresh instance is built for every
// fresh-th document, so that first uses (with the initialisation events) are covered.
func recordConversions(cfgs []mdConfig, docs []string, fresh int) []convRec {
	installHooks()
	var cur *convRec
	var index map[ast.Node]int
	globalSinks.Store("pipeline", hookSink(func(ev string, args []interface{}) {
		if cur == nil {
			return
		}
		switch ev {
		case "ParseReturn":
			root := args[2].(ast.Node)
			index = map[ast.Node]int{}
			var walk func(n ast.Node, parent int)
			walk = func(n ast.Node, parent int) {
				id := len(cur.Parent) + 1
				index[n] = id
				cur.Parent = append(cur.Parent, parent)
				cur.Kids = append(cur.Kids, []int{})
				if parent > 0 {
					cur.Kids[parent-1] = append(cur.Kids[parent-1], id)
				}
				for ch := n.FirstChild(); ch != nil; ch = ch.NextSibling() {
					walk(ch, id)
				}
			}
			walk(root, 0)
			cur.Evs = append(cur.Evs, []interface{}{ev, 0})
		case "RenderNode":
			n := args[1].(ast.Node)
			name := "Exit"
			if args[2].(bool) {
				name = "Enter"
			}
			cur.Evs = append(cur.Evs, []interface{}{name, index[n]})
		case "EntInitEnter", "EntInitDone":
			// the process-wide entity table (Once.tla); not part of a conversion's own phases
		default:
			cur.Evs = append(cur.Evs, []interface{}{ev, 0})
		}
	}))
	defer globalSinks.Delete("pipeline")
	var out []convRec
	for ci, cf := range cfgs {
		md := cf.build()
		used := false
		for di, d := range docs {
			if fresh > 0 && (di+ci)%fresh == 0 {
				md = cf.build()
				used = false
			}
			rec := convRec{Evs: [][]interface{}{}, Parent: []int{}, Kids: [][]int{}, Inited: used}
			cur = &rec
			func() {
				defer func() { _ = recover() }()
				src := []byte(d)
				root := md.Parser().Parse(text.NewReader(src))
				w := &recWriter{}
				_ = md.Renderer().Render(w, src, root)
			}()
			cur = nil
			used = true
			out = append(out, rec)
		}
	}
	return out
}

// validatePipeline has TLC judge every distinct conversion against Goldmark.tla.
func validatePipeline(c *Ctx, what string, convs []convRec, wit func(i int) string) {
	seen := map[string]bool{}
	var tr traceBuf
	var first []int
	events := 0
	for i, cv := range convs {
		b, _ := json.Marshal(cv)
		if seen[string(b)] {
			continue
		}
		seen[string(b)] = true
		tr.add(cv)
		first = append(first, i)
		events += len(cv.Evs)
	}
	if len(first) == 0 {
		infra("Goldmark %s: no conversion recorded", what)
	}
	// binding demonstration: two deliberately corrupted copies of a real trace (the exit of the
	// root dropped; the first two render events swapped) must be rejected, or the acceptor is vacuous
	corrupt := map[int]bool{}
	for _, cv := range convs {
		n := len(cv.Evs)
		if n < 8 || cv.Evs[n-1][0] != "Exit" {
			continue
		}
		a := cv
		a.Evs = append([][]interface{}{}, cv.Evs[:n-1]...)
		tr.add(a)
		corrupt[len(first)+1] = true
		b := cv
		b.Evs = append([][]interface{}{}, cv.Evs...)
		for k := 0; k+1 < n; k++ {
			if b.Evs[k][0] == "Enter" {
				b.Evs[k], b.Evs[k+1] = b.Evs[k+1], b.Evs[k]
				break
			}
		}
		tr.add(b)
		corrupt[len(first)+2] = true
		break
	}
	var verdict struct {
		Done     bool     `json:"done"`
		Consumed int      `json:"consumed"`
		Bad      []badRec `json:"bad"`
	}
	got := false
	r := RunTLC(TLCOpts{Module: "Goldmark", Cfg: "Goldmark.cfg", Workers: 1, Timeout: 30 * time.Minute,
		Files: map[string][]byte{"conv.ndjson": tr.bytes()}, OnJSON: func(raw []byte) {
			if json.Unmarshal(raw, &verdict) == nil && verdict.Done {
				got = true
			}
		}})
	r.MustOK("Goldmark " + what)
	if !got || verdict.Consumed != len(first)+len(corrupt) {
		infra("Goldmark %s did not consume all conversions (%d of %d)\n%s", what, verdict.Consumed, len(first)+len(corrupt), r.Tail)
	}
	rejected := map[int]bool{}
	var real []badRec
	for _, b := range verdict.Bad {
		if corrupt[b.L] {
			rejected[b.L] = true
		} else {
			real = append(real, b)
		}
	}
	if len(rejected) != len(corrupt) {
		infra("Goldmark %s: a corrupted trace was accepted (%d of %d rejected): the acceptor does not bind", what, len(rejected), len(corrupt))
	}
	verdict.Bad = real
	c.Ev.Add("pipeline_corrupted_traces_rejected", int64(len(rejected)))
	c.Ev.TLC("Goldmark composition ("+what+")", r)
	c.Ev.Add("pipeline_conversions", int64(len(convs)))
	c.Ev.Add("pipeline_distinct_traces", int64(len(first)))
	c.Ev.Add("pipeline_events", int64(events))
	c.Ev.Add("traces_validated_against_impl", int64(len(first)-len(verdict.Bad)))
	for _, b := range verdict.Bad {
		w := ""
		if wit != nil {
			w = wit(first[b.L-1])
		}
		c.Warn("Goldmark/"+b.Why, fmt.Sprintf("(%s, event %s) %s", what, b.Fn, w))
	}
}
