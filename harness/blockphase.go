package main

// Block-phase protocol (BlockPhase.tla): the hook events Open / Continue / ParaContinue /
// Close / EndOfInput of real parses - of the repository's own tests run with the tag on and
// of harness workloads - are validated by TLC against the open-block list protocol.
// Mechanism level: rejections are CONTRACT-WARNINGs.

import (
	"bufio"
	"bytes"
	"encoding/json"
	"fmt"
	"os"
	"os/exec"
	"path/filepath"
	"sort"
	"sync"
	"time"

	"github.com/yuin/goldmark/parser"
	"github.com/yuin/goldmark/text"
)

type bpEvent struct {
	T      int    `json:"t,omitempty"`
	Ev     string `json:"ev"`
	Node   int    `json:"node"`
	Parent int    `json:"parent"`
	Kind   string `json:"kind"`
	Same   bool   `json:"same"`
	St     int    `json:"st"`
	Ln     int    `json:"ln"`
	Idx    int    `json:"idx"`
	Open   []int  `json:"open"`
}

type bpParse struct {
	T    int       `json:"-"`
	Root int       `json:"root"`
	Evs  []bpEvent `json:"evs"`
}

// bpCollect groups recorder lines into parses.
func bpCollect(lines [][]byte) []bpParse {
	by := map[int]*bpParse{}
	var order []int
	for _, l := range lines {
		var e bpEvent
		if json.Unmarshal(l, &e) != nil {
			continue
		}
		p := by[e.T]
		if p == nil {
			p = &bpParse{T: e.T}
			by[e.T] = p
			order = append(order, e.T)
		}
		if e.Ev == "Open" && p.Root == 0 {
			p.Root = e.Parent
		}
		e.T = 0
		if e.Open == nil {
			e.Open = []int{}
		}
		p.Evs = append(p.Evs, e)
	}
	sort.Ints(order)
	var out []bpParse
	for _, t := range order {
		p := by[t]
		if n := len(p.Evs); n > 0 && p.Evs[n-1].Ev == "ParseReturn" { // complete parses only
			out = append(out, *p)
		}
	}
	return out
}

// repoTestTraces runs the repository's own tests with the tag on and harvests what the
// recorder wrote.
func repoTestTraces() ([]bpParse, string) {
	dir := newWorkDir("repotests")
	defer os.RemoveAll(dir)
	cmd := exec.Command("go", "test", "-tags", "verif", "-vet=off", "-count=1", ".", "./extension/", "./ast/", "./text/")
	cmd.Dir = repoRoot
	cmd.Env = append(os.Environ(), "VERIF_TRACE_DIR="+dir, "GOFLAGS=-mod=mod", "GOPROXY=off", "GOSUMDB=off", "GOTOOLCHAIN=local")
	out, err := cmd.CombinedOutput()
	if err != nil {
		return nil, fmt.Sprintf("go test -tags verif failed: %v\n%s", err, firstLines(string(out), 20))
	}
	files, _ := filepath.Glob(filepath.Join(dir, "parser.*.ndjson"))
	var lines [][]byte
	var all []bpParse
	for _, f := range files {
		b, err := os.ReadFile(f)
		if err != nil {
			continue
		}
		lines = lines[:0]
		sc := bufio.NewScanner(bytes.NewReader(b))
		sc.Buffer(make([]byte, 1<<20), 1<<24)
		for sc.Scan() {
			lines = append(lines, append([]byte(nil), sc.Bytes()...))
		}
		all = append(all, bpCollect(lines)...)
	}
	return all, ""
}

// recordParses parses docs under cfgs with the recorder installed.
func recordParses(cfgs []mdConfig, docs []string) []bpParse {
	installHooks()
	var mu sync.Mutex
	var lines [][]byte
	rec := parser.VerifRecorder(func(l []byte) {
		mu.Lock()
		lines = append(lines, append([]byte(nil), l...))
		mu.Unlock()
	})
	blockRec.Store(&rec)
	defer blockRec.Store(nil)
	for _, cf := range cfgs {
		md := cf.build()
		for _, d := range docs {
			func() {
				defer func() { _ = recover() }()
				md.Parser().Parse(text.NewReader([]byte(d)))
			}()
		}
	}
	return bpCollect(lines)
}

// validateBlockPhase has TLC judge every distinct parse.
func validateBlockPhase(c *Ctx, what string, parses []bpParse, wit func(i int) string) {
	seen := map[string]int{}
	var recs []interface{}
	var first []int
	events := 0
	for i, p := range parses {
		b, _ := json.Marshal(p)
		if _, ok := seen[string(b)]; ok {
			continue
		}
		seen[string(b)] = len(recs)
		recs = append(recs, p)
		first = append(first, i)
		events += len(p.Evs)
	}
	if len(recs) == 0 {
		infra("BlockPhase %s: no parse recorded", what)
	}
	var tr traceBuf
	for _, r := range recs {
		tr.add(r)
	}
	var verdict struct {
		Done     bool     `json:"done"`
		Consumed int      `json:"consumed"`
		Reopen   int      `json:"reopen"`
		Bad      []badRec `json:"bad"`
	}
	got := false
	r := RunTLC(TLCOpts{Module: "BlockPhase", Cfg: "BlockPhase.cfg", Workers: 1, Timeout: 30 * time.Minute,
		Files: map[string][]byte{"blocks.ndjson": tr.bytes()}, OnJSON: func(raw []byte) {
			if json.Unmarshal(raw, &verdict) == nil && verdict.Done {
				got = true
			}
		}})
	r.MustOK("BlockPhase " + what)
	if !got || verdict.Consumed != len(recs) {
		infra("BlockPhase %s did not consume all parses (%d of %d)\n%s", what, verdict.Consumed, len(recs), r.Tail)
	}
	c.Ev.TLC("BlockPhase ("+what+")", r)
	c.Ev.Add("blockphase_parses", int64(len(parses)))
	c.Ev.Add("blockphase_distinct_traces", int64(len(recs)))
	c.Ev.Add("blockphase_events", int64(events))
	c.Ev.Add("blockphase_reopen_deviations", int64(verdict.Reopen))
	c.Ev.Add("traces_validated_against_impl", int64(len(recs)-len(verdict.Bad)))
	for _, b := range verdict.Bad {
		w := ""
		if wit != nil {
			w = wit(first[b.L-1])
		}
		// the events up to the offending one
		p := parses[first[b.L-1]]
		var k int
		fmt.Sscan(b.Fn, &k)
		var es []string
		for i, e := range p.Evs {
			if i > k+1 {
				break
			}
			switch e.Ev {
			case "Open":
				es = append(es, fmt.Sprintf("Open(%s#%d under #%d st=%d)", e.Kind, e.Node, e.Parent, e.St))
			case "Continue", "ParaContinue":
				es = append(es, fmt.Sprintf("%s(#%d st=%d)", e.Ev, e.Node, e.St))
			case "Close":
				es = append(es, fmt.Sprintf("Close(#%d @%d)", e.Node, e.Idx))
			case "EndOfInput":
				es = append(es, fmt.Sprintf("EndOfInput%v", e.Open))
			}
		}
		w += " root=#" + fmt.Sprint(p.Root) + " " + fmt.Sprint(es)
		c.Warn("BlockPhase/"+b.Why, fmt.Sprintf("(%s, event %s) %s", what, b.Fn, w))
	}
}
