package main

// C08 — Prefixing every line with a block-quote marker wraps the same content.
//
//  Law (Meta.tla, QuoteLaw): out(prefix(D)) = <blockquote>\n ++ out(D) ++ </blockquote>\n,
//  applied n times. For spec examples the expected side is spec.json's HTML.
//  Workload: Slots.tla product, repository examples, all short strings, mutated documents —
//  all without tab / CR, non-blank — under {core, GFM} x {safe, unsafe, XHTML}.

import (
	"encoding/json"
	"fmt"
	"strings"
	"time"

	"github.com/yuin/goldmark"
)

func init() {
	register(&Check{ID: "C08", Level: "model_checking", Run: runC08, Replay: replayC08})
}

func quotePrefix(d string) string {
	lines := strings.SplitAfter(d, "\n")
	if lines[len(lines)-1] == "" {
		lines = lines[:len(lines)-1]
	}
	var b strings.Builder
	for _, l := range lines {
		b.WriteString("> ")
		b.WriteString(l)
	}
	return b.String()
}

func c08Eligible(d string) bool {
	return strings.TrimSpace(strings.ReplaceAll(d, "\n", " ")) != "" && !strings.ContainsAny(d, "\t\r") && strings.Trim(d, " \n\v\f") != ""
}

type c08Case struct {
	Config   mdConfig `json:"config"`
	Doc      rawDoc   `json:"doc"`
	N        int      `json:"n"`                  // number of quote levels added to the outer side
	Expected *string  `json:"expected,omitempty"` // expected rendering of Doc taken from spec.json
}

// c08Record converts both sides and builds the law record.
func c08Record(md goldmark.Markdown, cs c08Case) (map[string]interface{}, string, bool) {
	inner := string(cs.Doc)
	for i := 1; i < cs.N; i++ {
		inner = quotePrefix(inner)
	}
	outer := quotePrefix(inner)
	var od []byte
	var err error
	if cs.Expected != nil && cs.N == 1 {
		od = []byte(*cs.Expected)
	} else {
		od, err = convertWith(md, []byte(inner))
		if err != nil {
			return nil, "", false
		}
	}
	oq, err := convertWith(md, []byte(outer))
	if err != nil {
		return nil, "", false
	}
	if len(od) > 0 && od[len(od)-1] != '\n' {
		return nil, "", false // not line-structured; not judged
	}
	lb := newLaw()
	dl, ql := outLines(od), outLines(oq)
	rec := map[string]interface{}{"law": "quote", "d": lb.seq(dl), "q": lb.seq(ql), "open": lb.id("<blockquote>\n"), "close": lb.id("</blockquote>\n")}
	want := append(append([]string{"<blockquote>\n"}, dl...), "</blockquote>\n")
	return rec, fmt.Sprintf("inner document %q renders %q; with '> ' in front of every line it renders %q (%s)", clip(inner, 200), clip(string(od), 300), clip(string(oq), 300), diffLines(want, ql)), true
}

func replayC08(c *Ctx, raw json.RawMessage) (bool, string) {
	var cs c08Case
	if err := json.Unmarshal(raw, &cs); err != nil {
		return false, err.Error()
	}
	rec, detail, ok := c08Record(cs.Config.build(), cs)
	if !ok {
		return false, "not judged (conversion failed or output not line structured)"
	}
	if !judgeLawOne(rec) {
		return true, fmt.Sprintf("config %s, %d level(s): %s", cs.Config, cs.N, detail)
	}
	return false, "QuoteLaw holds"
}

func c08Sig(doc string) string {
	switch {
	case strings.Contains(doc, "<!--") || strings.Contains(doc, "<?") || strings.Contains(doc, "<!") || strings.Contains(doc, "<"):
		return "html"
	case strings.Contains(doc, "```") || strings.Contains(doc, "~~~"):
		return "fenced-code"
	case strings.Contains(doc, "    "):
		return "indented"
	case strings.ContainsAny(doc, "-*+") || strings.Contains(doc, "1."):
		return "list-or-break"
	case strings.Contains(doc, "|"):
		return "table"
	}
	return "other"
}

func runC08(c *Ctx) {
	ev := c.Ev
	ev.Assumptions = []string{
		"TLC/SANY, Json/IOUtils; outputs are compared line by line after an injective renaming of lines (Meta.tla)",
		"side conditions of the statement enforced on the input bytes: no tab, no CR, not blank",
		"spec examples: the inner side is spec.json's HTML (configuration core+unsafe+XHTML, the one the specification's HTML is written in)",
	}
	ev.Set("rule", "case = one (document, configuration, nesting level) instance of QuoteLaw; evaluations counts conversions; distinct = distinct (document, configuration, level); non-trivial = documents with at least one Markdown-significant byte")
	loadCorpus()
	type job struct {
		cs c08Case
	}
	var jobs []c08Case
	var cfgs []mdConfig
	for _, e := range []string{"core", "gfm"} {
		for _, m := range []mdConfig{{}, {Unsafe: true}, {XHTML: true}} {
			m.Ext = e
			cfgs = append(cfgs, m)
		}
	}
	specCfg := mdConfig{Ext: "core", Unsafe: true, XHTML: true}
	maxN := c.Pick(2, 3)
	addDoc := func(d string) {
		if !c08Eligible(d) {
			return
		}
		for ci := range cfgs {
			for n := 1; n <= maxN; n++ {
				if n > 1 && (len(jobs)+ci)%3 != 0 && !c.Thorough() {
					continue
				}
				jobs = append(jobs, c08Case{Config: cfgs[ci], Doc: rawDoc(d), N: n})
			}
		}
	}
	for _, sd := range slotDocs(c) {
		addDoc(sd.Doc)
	}
	for _, d := range repoDocs {
		addDoc(d)
	}
	for _, e := range specExamples {
		if c08Eligible(e.Markdown) {
			h := e.HTML
			jobs = append(jobs, c08Case{Config: specCfg, Doc: rawDoc(e.Markdown), N: 1, Expected: &h})
		}
	}
	alpha := []string{}
	for _, a := range shortAlphabet {
		if a != "\t" {
			alpha = append(alpha, a)
		}
	}
	shortStrings(alpha, 3, addDoc)
	g := newDocGen(c.Rand("mut"))
	for i := 0; i < c.Pick(4000, 80000); i++ {
		addDoc(strings.NewReplacer("\t", " ", "\r", "").Replace(g.next()))
	}
	// every document over line alphabets of BlockSem.tla: for exactly these documents TLC has
	// established the law at model level (invariant QuoteLaw of the reference block semantics), so
	// a disagreement of the library is a disagreement with CommonMark as modelled
	for _, b := range []bsConfig{{"small", c.Pick(3, 4), true, 0}, {"quotes", 2, true, 0}, {"html", 2, true, 0}, {"lists", c.Pick(2, 3), true, 0}} {
		n := 0
		r := RunTLC(TLCOpts{Module: "BlockSem", Cfg: "gen.cfg", CfgText: bsCfg(b.alpha, b.lines, false, true), Workers: 8, Timeout: 60 * time.Minute, OnJSON: func(raw []byte) {
			var d struct {
				Src string `json:"src"`
			}
			if json.Unmarshal(raw, &d) == nil && d.Src != "" {
				n++
				addDoc(d.Src)
			}
		}})
		r.MustOK("BlockSem " + b.alpha + " (QuoteLaw at model level)")
		ev.TLC(fmt.Sprintf("BlockSem alphabet %s, up to %d lines: QuoteLaw holds of the reference semantics; documents replayed", b.alpha, b.lines), r)
		ev.Add("blocksem_documents", int64(n))
	}
	mds := map[string]goldmark.Markdown{}
	for _, cf := range append(cfgs, specCfg) {
		mds[cf.String()] = cf.build()
	}
	ls := newLawSet()
	parallelFor(len(jobs), func(i int) {
		rec, _, ok := c08Record(mds[jobs[i].Config.String()], jobs[i])
		if ok {
			ls.add(rec, i)
		}
	})
	ev.Add("evaluations", int64(2*len(jobs)))
	for i, j := range jobs {
		if strings.ContainsAny(string(j.Doc), "*_`[]()<>#-\\&!:|~>+=") {
			ev.Distinct(fmt.Sprint(i))
		}
	}
	perSig := map[string]int{}
	for _, w := range ls.judge(c, "QuoteLaw") {
		cs := jobs[w.(int)]
		sig := fmt.Sprintf("C08/%s/level-%d", c08Sig(string(cs.Doc)), cs.N)
		if perSig[sig]++; perSig[sig] > 2 {
			continue
		}
		rec, detail, ok := c08Record(cs.Config.build(), cs)
		if !ok || judgeLawOne(rec) {
			infra("QuoteLaw rejected in the batch but holds alone for %q", cs.Doc)
		}
		c.Report(Violation{Signature: sig, Detail: fmt.Sprintf("config %s, %d level(s): %s", cs.Config, cs.N, detail), Replay: cs})
	}
	for i := 0; i < len(jobs); i += len(jobs)/5 + 1 {
		c.Sample("quote-law", 5, map[string]interface{}{"config": jobs[i].Config.String(), "doc": clip(string(jobs[i].Doc), 100), "levels": jobs[i].N})
	}
}
