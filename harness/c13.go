package main

// C13 — AST mutation API and Walk behave like a plain ordered tree.
//
//  MC   AstTree.tla model-checked (forest invariants, count agreement) + two negative
//       controls; Walk.tla (explicit-stack machine = recursive meaning, termination).
//  M2C  every transition TLC enumerates is executed on real ast.Node values (from the
//       shortest path to its source state and again along random walks through the
//       dumped graph), the full projection compared after every call; every
//       (forest, root, script) of Walk.tla executed with the real ast.Walk.
//  C2M  long random call sequences on the real nodes, logged with the observed forest
//       after every call, validated by TLC against TraceAstTree.tla.

import (
	"encoding/json"
	"errors"
	"fmt"
	"math/rand"
	"sort"
	"strings"
	"time"

	"github.com/yuin/goldmark/ast"
)

func init() {
	register(&Check{ID: "C13", Level: "model_checking", Run: runC13, Replay: replayC13})
}

type astEdge struct {
	Op   string                `json:"op"`
	P    string                `json:"p"`
	C    string                `json:"c"`
	Ref  string                `json:"ref"`
	From map[string][]string   `json:"from"`
	To   []map[string][]string `json:"to"`
}

func kidsKey(k map[string][]string) string {
	names := make([]string, 0, len(k))
	for n := range k {
		names = append(names, n)
	}
	sort.Strings(names)
	var b strings.Builder
	for _, n := range names {
		b.WriteString(n)
		b.WriteByte(':')
		b.WriteString(strings.Join(k[n], ","))
		b.WriteByte(';')
	}
	return b.String()
}

// pool of real nodes of assorted concrete types (all embed ast.BaseNode)
func newPool(names []string) map[string]ast.Node {
	p := map[string]ast.Node{}
	for i, n := range names {
		switch i % 6 {
		case 0:
			p[n] = ast.NewDocument()
		case 1:
			p[n] = ast.NewParagraph()
		case 2:
			p[n] = ast.NewBlockquote()
		case 3:
			p[n] = ast.NewEmphasis(1)
		case 4:
			p[n] = ast.NewText()
		default:
			p[n] = ast.NewListItem(2)
		}
	}
	return p
}

type astObs struct {
	Kids    map[string][]string `json:"obs"`
	Cnt     map[string]int      `json:"cnt"`
	LinksOK bool                `json:"linksok"`
	Why     string              `json:"why,omitempty"`
}

// project reads the real forest through the public accessors only.
func projectPool(pool map[string]ast.Node, names []string) astObs {
	rev := map[ast.Node]string{}
	for n, v := range pool {
		rev[v] = n
	}
	o := astObs{Kids: map[string][]string{}, Cnt: map[string]int{}, LinksOK: true}
	bad := func(f string, a ...interface{}) {
		if o.LinksOK {
			o.Why = fmt.Sprintf(f, a...)
		}
		o.LinksOK = false
	}
	limit := len(names) + 2
	parentOf := map[string]string{}
	for _, n := range names {
		v := pool[n]
		fwd := []string{}
		var prev ast.Node
		i := 0
		for c := v.FirstChild(); c != nil; c = c.NextSibling() {
			if i++; i > limit {
				bad("%s: forward list does not terminate", n)
				break
			}
			name, ok := rev[c]
			if !ok {
				bad("%s: unknown child", n)
				break
			}
			fwd = append(fwd, name)
			if c.Parent() != v {
				bad("%s: child %s has Parent %v", n, name, rev[c.Parent()])
			}
			if c.PreviousSibling() != prev {
				bad("%s: child %s PreviousSibling mismatch", n, name)
			}
			parentOf[name] = n
			prev = c
		}
		bwd := []string{}
		i = 0
		for c := v.LastChild(); c != nil; c = c.PreviousSibling() {
			if i++; i > limit {
				bad("%s: backward list does not terminate", n)
				break
			}
			bwd = append(bwd, rev[c])
		}
		if len(bwd) != len(fwd) {
			bad("%s: forward %v backward %v", n, fwd, bwd)
		} else {
			for j := range fwd {
				if fwd[j] != bwd[len(bwd)-1-j] {
					bad("%s: forward %v backward %v", n, fwd, bwd)
					break
				}
			}
		}
		if v.HasChildren() != (len(fwd) > 0) {
			bad("%s: HasChildren=%v with %d children", n, v.HasChildren(), len(fwd))
		}
		o.Kids[n] = fwd
		o.Cnt[n] = v.ChildCount()
	}
	for _, n := range names {
		v := pool[n]
		if _, ok := parentOf[n]; !ok {
			if v.Parent() != nil || v.NextSibling() != nil || v.PreviousSibling() != nil {
				bad("%s: detached node keeps parent/sibling links", n)
			}
		}
	}
	return o
}

// applyOp performs one call on the real nodes; a panic is returned as an error.
func applyOp(pool map[string]ast.Node, keys map[string]int, op, p, ref, c string) (err error) {
	defer func() {
		if r := recover(); r != nil {
			err = fmt.Errorf("panic: %v", r)
		}
	}()
	get := func(n string) ast.Node {
		if n == "nil" || n == "" {
			return nil
		}
		return pool[n]
	}
	pn := pool[p]
	switch op {
	case "AppendChild":
		pn.AppendChild(pn, get(c))
	case "InsertBefore":
		pn.InsertBefore(pn, get(ref), get(c))
	case "InsertAfter":
		pn.InsertAfter(pn, get(ref), get(c))
	case "ReplaceChild":
		pn.ReplaceChild(pn, get(ref), get(c))
	case "RemoveChild":
		pn.RemoveChild(pn, get(c))
	case "RemoveChildren":
		pn.RemoveChildren(pn)
	case "SortChildren":
		rev := map[ast.Node]string{}
		for n, v := range pool {
			rev[v] = n
		}
		pn.SortChildren(func(a, b ast.Node) int { return keys[rev[a]] - keys[rev[b]] })
	default:
		return fmt.Errorf("unknown op %s", op)
	}
	return nil
}

func astKeys(names []string) map[string]int {
	k := map[string]int{}
	if len(names) > 6 { // wide forests: key of n_i = (7 i) mod 5 (KeyWide of AstTreeMC.tla)
		for i, n := range names {
			k[n] = ((i + 1) * 7) % 5
		}
		return k
	}
	for _, n := range names {
		if n == "n1" || n == "n3" || n == "n5" {
			k[n] = 2
		} else {
			k[n] = 1
		}
	}
	return k
}

func sameKids(a, b map[string][]string) bool { return kidsKey(a) == kidsKey(b) }

// argument class for signatures
func astSig(e astEdge) string {
	refc := "ref-none"
	if e.Op == "InsertBefore" || e.Op == "InsertAfter" || e.Op == "ReplaceChild" {
		refc = "ref-foreign"
		if e.Ref == "nil" {
			refc = "ref-nil"
		} else {
			ks := e.From[e.P]
			for i, x := range ks {
				if x == e.Ref {
					switch {
					case len(ks) == 1:
						refc = "ref-only"
					case i == 0:
						refc = "ref-first"
					case i == len(ks)-1:
						refc = "ref-last"
					default:
						refc = "ref-middle"
					}
				}
			}
		}
	}
	cc := "c-none"
	if e.C != "nil" && e.C != "" {
		cc = "c-detached"
		for p, ks := range e.From {
			for _, x := range ks {
				if x == e.C {
					if p == e.P {
						cc = "c-same-parent"
					} else {
						cc = "c-other-parent"
					}
				}
			}
		}
	}
	return fmt.Sprintf("%s/%s/%s", e.Op, refc, cc)
}

type astStep struct {
	Op, P, Ref, C string
}

type astReplay struct {
	Kind  string                `json:"kind"` // "mutators" | "walk"
	Names []string              `json:"names"`
	Path  []astStep             `json:"path,omitempty"` // calls made before the failing one
	Last  astStep               `json:"last,omitempty"`
	Want  []map[string][]string `json:"want,omitempty"`
	Walk  *walkCase             `json:"walk,omitempty"`
}

// runPath executes path then last on a fresh pool; returns the observation after last.
func runAstPath(names []string, path []astStep, last astStep) (astObs, error) {
	pool := newPool(names)
	keys := astKeys(names)
	for _, s := range path {
		if err := applyOp(pool, keys, s.Op, s.P, s.Ref, s.C); err != nil {
			return astObs{}, fmt.Errorf("while building the source state: %v", err)
		}
	}
	if err := applyOp(pool, keys, last.Op, last.P, last.Ref, last.C); err != nil {
		return astObs{}, err
	}
	return projectPool(pool, names), nil
}

func judgeAst(o astObs, err error, want []map[string][]string) (bool, string) {
	if err != nil {
		return false, err.Error()
	}
	okRes := false
	for _, w := range want {
		if sameKids(o.Kids, w) {
			okRes = true
		}
	}
	if !okRes {
		return false, fmt.Sprintf("observed children %s, specification allows %s", jstr(o.Kids), jstr(want))
	}
	if !o.LinksOK {
		return false, "links inconsistent: " + o.Why
	}
	for n, ks := range o.Kids {
		if o.Cnt[n] != len(ks) {
			return false, fmt.Sprintf("ChildCount(%s)=%d but it has %d children %v", n, o.Cnt[n], len(ks), ks)
		}
	}
	return true, ""
}

func replayC13(c *Ctx, raw json.RawMessage) (bool, string) {
	var r astReplay
	if err := json.Unmarshal(raw, &r); err != nil {
		return false, err.Error()
	}
	if r.Kind == "walk" {
		ok, d := runWalkCase(*r.Walk)
		return !ok, d
	}
	if r.Kind == "trace" {
		p := [][]astStep{append(append([]astStep{}, r.Path...), r.Last)}
		names, cfg := astTraceNames, "TraceAstTree.cfg"
		if len(r.Names) > 6 {
			names, cfg = astWideNames, "TraceAstTree_wide.cfg"
		}
		bad, _, _ := validateAstTracesOn(c, names, cfg, p, 0, false)
		if why, ok := bad[0]; ok {
			return true, fmt.Sprintf("call sequence ending in %+v rejected by TraceAstTree: %s", r.Last, why)
		}
		return false, "accepted by TraceAstTree"
	}
	o, err := runAstPath(r.Names, r.Path, r.Last)
	ok, d := judgeAst(o, err, r.Want)
	return !ok, d
}

func runC13(c *Ctx) {
	ev := c.Ev
	ev.Assumptions = []string{
		"TLC/SANY and the CommunityModules Json module",
		"projection reads the real nodes only through ast.Node's public accessors",
		"proviso of the statement: no node inserted into its own subtree or relative to itself (guards OpOk in AstTree.tla)",
	}
	ev.Set("rule", "case = one (source forest, mutator call) transition of AstTree.tla executed on real nodes, or one (forest, root, script) walk, or one logged call of a random sequence validated by TLC; distinct = distinct (source forest, call) / (forest, root, script) / (abstract source forest, call) keys; non-trivial = the call changes the forest or exercises the nil/foreign/not-a-child fallback, or the script contains a non-Continue answer")
	ev.Set("exhaustive", true)

	// ---- MC
	mcCfg := "AstTree_mc4.cfg"
	r := RunTLC(TLCOpts{Module: "AstTreeMC", Cfg: mcCfg, Workers: 8})
	r.MustOK("AstTree MC")
	ev.TLC("AstTree "+mcCfg+" (Forest, CountAgrees)", r)
	RunTLC(TLCOpts{Module: "AstTreeMC", Cfg: "AstTree_neg_nodetach.cfg", Workers: 2}).MustViolate("neg NoDetach", "Forest")
	RunTLC(TLCOpts{Module: "AstTreeMC", Cfg: "AstTree_neg_doublecount.cfg", Workers: 2}).MustViolate("neg DoubleCount", "CountAgrees")
	ev.Set("negative_controls", []string{"NoDetach => Forest violated", "DoubleCount => CountAgrees violated"})
	r = RunTLC(TLCOpts{Module: "Walk", Cfg: "Walk_mc3.cfg", Workers: 8})
	r.MustOK("Walk MC")
	ev.TLC("Walk_mc3 (StepEqualsRec, OncEach, Terminates)", r)

	// ---- M2C: mutators
	genCfg, names := "AstTree_gen4.cfg", []string{"n1", "n2", "n3", "n4"}
	if c.Thorough() {
		genCfg, names = "AstTree_gen5.cfg", []string{"n1", "n2", "n3", "n4", "n5"}
	}
	var edges []astEdge
	seen := map[string]bool{}
	r = RunTLC(TLCOpts{Module: "AstTreeMC", Cfg: genCfg, Workers: 8, Timeout: 20 * time.Minute, OnJSON: func(raw []byte) {
		var e astEdge
		if err := json.Unmarshal(raw, &e); err != nil {
			infra("bad edge json: %v: %s", err, raw)
		}
		k := kidsKey(e.From) + "|" + e.Op + e.P + e.Ref + e.C
		if seen[k] {
			return
		}
		seen[k] = true
		edges = append(edges, e)
	}})
	r.MustOK("AstTree generator")
	ev.TLC("AstTree "+genCfg+" (transition dump)", r)
	if len(edges) == 0 {
		infra("no transitions emitted")
	}
	// graph
	out := map[string][]int{}
	for i, e := range edges {
		out[kidsKey(e.From)] = append(out[kidsKey(e.From)], i)
	}
	initK := map[string][]string{}
	for _, n := range names {
		initK[n] = []string{}
	}
	// BFS shortest paths (deterministic successor = first allowed result)
	type pathT []astStep
	short := map[string]pathT{kidsKey(initK): {}}
	queue := []map[string][]string{initK}
	for len(queue) > 0 {
		s := queue[0]
		queue = queue[1:]
		sk := kidsKey(s)
		for _, ei := range out[sk] {
			e := edges[ei]
			if e.Op == "SortChildren" && len(e.To) > 1 {
				continue // nondeterministic result: not used to build paths
			}
			t := e.To[0]
			tk := kidsKey(t)
			if _, ok := short[tk]; !ok {
				short[tk] = append(append(pathT{}, short[sk]...), astStep{e.Op, e.P, e.Ref, e.C})
				queue = append(queue, t)
			}
		}
	}
	var nEval int64
	report := func(e astEdge, path []astStep, detail string) {
		last := astStep{e.Op, e.P, e.Ref, e.C}
		// reproduce before reporting
		o, err := runAstPath(names, path, last)
		if ok, d := judgeAst(o, err, e.To); !ok {
			c.Report(Violation{Signature: "C13/" + astSig(e), Detail: fmt.Sprintf("%s(p=%s, ref=%s, c=%s) on %s: %s", e.Op, e.P, e.Ref, e.C, jstr(e.From), d),
				Replay: astReplay{Kind: "mutators", Names: names, Path: path, Last: last, Want: e.To}})
		} else {
			infra("unreproducible mismatch: %s", detail)
		}
	}
	for _, e := range edges {
		path, ok := short[kidsKey(e.From)]
		if !ok {
			infra("state without path: %s", kidsKey(e.From))
		}
		o, err := runAstPath(names, path, astStep{e.Op, e.P, e.Ref, e.C})
		nEval++
		nontrivial := len(e.To) > 1 || !sameKids(e.From, e.To[0]) || strings.Contains(astSig(e), "ref-nil") || strings.Contains(astSig(e), "ref-foreign")
		if nontrivial {
			ev.Distinct("edge|" + kidsKey(e.From) + "|" + e.Op + e.P + e.Ref + e.C)
		}
		if ok, d := judgeAst(o, err, e.To); !ok {
			report(e, path, d)
		} else {
			c.Sample("transition", 3, map[string]interface{}{"from": e.From, "call": fmt.Sprintf("%s(p=%s, ref=%s, c=%s)", e.Op, e.P, e.Ref, e.C), "observed": o.Kids})
		}
	}
	// random walks through the graph: same edges from other paths (hidden state such as the
	// cached count depends on the path)
	rng := c.Rand("walks")
	nWalks, walkLen := c.Pick(300, 3000), 60
	for w := 0; w < nWalks; w++ {
		pool := newPool(names)
		keys := astKeys(names)
		cur := initK
		var path []astStep
		for s := 0; s < walkLen; s++ {
			os_ := out[kidsKey(cur)]
			e := edges[os_[rng.Intn(len(os_))]]
			err := applyOp(pool, keys, e.Op, e.P, e.Ref, e.C)
			var o astObs
			if err == nil {
				o = projectPool(pool, names)
			}
			nEval++
			if ok, d := judgeAst(o, err, e.To); !ok {
				report(e, path, d)
				break
			}
			path = append(path, astStep{e.Op, e.P, e.Ref, e.C})
			cur = o.Kids
		}
	}
	ev.Set("graph_states", len(short))
	ev.Set("graph_edges", len(edges))

	// ---- M2C: Walk
	walkCfgs := []string{"Walk_gen4_1.cfg", "Walk_gen3_2.cfg"}
	if c.Thorough() {
		walkCfgs = []string{"Walk_gen4_2.cfg", "Walk_gen3_6.cfg"}
	}
	for _, cfg := range walkCfgs {
		var cases []walkCase
		r = RunTLC(TLCOpts{Module: "Walk", Cfg: cfg, Workers: 8, Timeout: 30 * time.Minute, OnJSON: func(raw []byte) {
			var w walkCase
			if err := json.Unmarshal(raw, &w); err != nil {
				infra("bad walk json: %v: %s", err, raw)
			}
			cases = append(cases, w)
		}})
		r.MustOK("Walk generator " + cfg)
		ev.TLC(cfg+" (walk cases)", r)
		for _, w := range cases {
			nEval++
			special := false
			for _, rr := range w.Resp {
				if rr.Enter != "Continue" || rr.Leave != "Continue" {
					special = true
				}
			}
			key := "walk|" + kidsKey(w.Kids) + "|" + w.Root + "|" + jstr(w.Resp)
			if special {
				ev.Distinct(key)
			}
			if ok, d := runWalkCase(w); !ok {
				wc := w
				c.Report(Violation{Signature: "C13/Walk/" + walkSig(w), Detail: d, Replay: astReplay{Kind: "walk", Walk: &wc}})
			} else if special {
				c.Sample("walk", 2, map[string]interface{}{"forest": w.Kids, "root": w.Root, "script": w.Resp, "visits": w.Visits, "err": w.Err})
			}
		}
	}

	// ---- C2M: random sequences on 6 real nodes, validated by TLC
	nTraces, tlen := c.Pick(150, 1500), 120
	var paths [][]astStep
	for t := 0; t < nTraces; t++ {
		paths = append(paths, nil) // generated while executing, see validateAstTraces
	}
	bad, nev, r := validateAstTraces(c, paths, tlen, true)
	ev.TLC("TraceAstTree (trace validation)", r)
	ev.Add("traces_validated_against_impl", int64(nTraces))
	ev.Set("trace_events", nev)
	nEval += int64(nev)
	for t, why := range bad {
		path := paths[t]
		last := path[len(path)-1]
		// reproduce in isolation: the same sequence alone must be rejected again
		p1 := [][]astStep{path}
		if b2, _, _ := validateAstTraces(c, p1, 0, false); len(b2) == 0 {
			infra("trace %d rejected in the batch but accepted alone", t)
		}
		c.Report(Violation{Signature: "C13/trace/" + last.Op + "/" + why, Detail: fmt.Sprintf("random call sequence rejected by TraceAstTree at its last call %+v after %d calls: %s", last, len(path)-1, why),
			Replay: astReplay{Kind: "trace", Names: astTraceNames, Path: path[:len(path)-1], Last: last}})
	}
	// long sibling lists (10-19 children of one parent): the same monitor over 20 nodes
	var wide [][]astStep
	wrg := c.Rand("wide")
	for t := 0; t < c.Pick(60, 600); t++ {
		wide = append(wide, wideAstPath(wrg))
	}
	wbad, wnev, wr := validateAstTracesOn(c, astWideNames, "TraceAstTree_wide.cfg", wide, 0, false)
	ev.TLC("TraceAstTree over 20 nodes (long sibling lists)", wr)
	ev.Add("traces_validated_against_impl", int64(len(wide)))
	nEval += int64(wnev)
	for t, why := range wbad {
		path := wide[t]
		last := path[len(path)-1]
		if b2, _, _ := validateAstTracesOn(c, astWideNames, "TraceAstTree_wide.cfg", [][]astStep{path}, 0, false); len(b2) == 0 {
			infra("wide trace %d rejected in the batch but accepted alone", t)
		}
		c.Report(Violation{Signature: "C13/trace-wide/" + last.Op + "/" + why, Detail: fmt.Sprintf("call sequence on a long sibling list rejected by TraceAstTree at its last call %+v after %d calls: %s", last, len(path)-1, why),
			Replay: astReplay{Kind: "trace", Names: astWideNames, Path: path[:len(path)-1], Last: last}})
	}
	ev.Add("evaluations", nEval)
}

func emptyObs(names []string) map[string][]string {
	m := map[string][]string{}
	for _, n := range names {
		m[n] = []string{}
	}
	return m
}
func zeroCnt(names []string) map[string]int {
	m := map[string]int{}
	for _, n := range names {
		m[n] = 0
	}
	return m
}

// randomLegalStep picks a call satisfying the proviso, judged on the real tree.
func randomLegalStep(rg *rand.Rand, pool map[string]ast.Node, names []string) astStep {
	ops := []string{"AppendChild", "InsertBefore", "InsertAfter", "ReplaceChild", "RemoveChild", "RemoveChildren", "SortChildren",
		"AppendChild", "InsertBefore", "InsertAfter"}
	for {
		op := ops[rg.Intn(len(ops))]
		p := names[rg.Intn(len(names))]
		cN := names[rg.Intn(len(names))]
		ref := "nil"
		if rg.Intn(4) != 0 {
			// prefer an actual child of p as reference
			var ks []string
			for ch := pool[p].FirstChild(); ch != nil && len(ks) < 10; ch = ch.NextSibling() {
				for n, v := range pool {
					if v == ch {
						ks = append(ks, n)
					}
				}
			}
			if len(ks) > 0 && rg.Intn(5) != 0 {
				ref = ks[rg.Intn(len(ks))]
			} else {
				ref = names[rg.Intn(len(names))]
			}
		}
		switch op {
		case "RemoveChildren", "SortChildren":
			return astStep{op, p, "nil", "nil"}
		case "RemoveChild":
			if cN == p {
				continue
			}
			return astStep{op, p, "nil", cN}
		}
		// legality: c is not p nor an ancestor of p; c # ref
		legal := true
		for a, i := pool[p], 0; a != nil && i < 20; a, i = a.Parent(), i+1 {
			if a == pool[cN] {
				legal = false
			}
		}
		if !legal {
			continue
		}
		if op == "AppendChild" {
			return astStep{op, p, "nil", cN}
		}
		if ref == cN {
			continue
		}
		return astStep{op, p, ref, cN}
	}
}

// ---------------------------------------------------------------------------------
// Walk

type walkResp struct {
	Enter string `json:"enter"`
	Leave string `json:"leave"`
}
type walkVisit struct {
	N string `json:"n"`
	E bool   `json:"e"`
}
type walkCase struct {
	Kids   map[string][]string `json:"kids"`
	Root   string              `json:"root"`
	Resp   map[string]walkResp `json:"resp"`
	Visits []walkVisit         `json:"visits"`
	Err    bool                `json:"err"`
}

var errWalkScript = errors.New("scripted walker error")

func walkSig(w walkCase) string {
	var s []string
	for _, r := range w.Resp {
		if r.Enter != "Continue" {
			s = append(s, "enter-"+r.Enter)
		}
		if r.Leave != "Continue" {
			s = append(s, "leave-"+r.Leave)
		}
	}
	sort.Strings(s)
	return strings.Join(s, "+")
}

func runWalkCase(w walkCase) (ok bool, detail string) {
	names := make([]string, 0, len(w.Kids))
	for n := range w.Kids {
		names = append(names, n)
	}
	sort.Strings(names)
	pool := newPool(names)
	// build by appends, parents before children does not matter for AppendChild
	for _, p := range names {
		for _, ch := range w.Kids[p] {
			pool[p].AppendChild(pool[p], pool[ch])
		}
	}
	rev := map[ast.Node]string{}
	for n, v := range pool {
		rev[v] = n
	}
	var got []walkVisit
	var err error
	func() {
		defer func() {
			if r := recover(); r != nil {
				err = fmt.Errorf("panic: %v", r)
			}
		}()
		err = ast.Walk(pool[w.Root], func(n ast.Node, entering bool) (ast.WalkStatus, error) {
			name := rev[n]
			got = append(got, walkVisit{name, entering})
			if len(got) > 100 {
				return ast.WalkStop, errors.New("runaway walk")
			}
			r := w.Resp[name].Leave
			if entering {
				r = w.Resp[name].Enter
			}
			switch r {
			case "Skip":
				return ast.WalkSkipChildren, nil
			case "Stop":
				return ast.WalkStop, nil
			case "Error":
				return ast.WalkContinue, errWalkScript
			}
			return ast.WalkContinue, nil
		})
	}()
	want := w.Visits
	if jstr(got) != jstr(want) && !(len(got) == 0 && len(want) == 0) {
		return false, fmt.Sprintf("Walk(%s) over %s with script %s visited %s, specification says %s", w.Root, jstr(w.Kids), jstr(w.Resp), jstr(got), jstr(want))
	}
	if w.Err != (err != nil) || (err != nil && !errors.Is(err, errWalkScript)) {
		return false, fmt.Sprintf("Walk(%s) over %s with script %s returned error %v, specification says error=%v", w.Root, jstr(w.Kids), jstr(w.Resp), err, w.Err)
	}
	return true, ""
}

var astTraceNames = []string{"n1", "n2", "n3", "n4", "n5", "n6"}

// validateAstTraces executes call sequences on real nodes (generating them at random when
// gen is set and paths[t] is nil), logs the observed forest after every call and has TLC
// validate the log against TraceAstTree.tla. Returns rejected trace index -> reason.
func validateAstTraces(c *Ctx, paths [][]astStep, tlen int, gen bool) (map[int]string, int, TLCResult) {
	return validateAstTracesOn(c, astTraceNames, "TraceAstTree.cfg", paths, tlen, gen)
}

var astWideNames = []string{"n1", "n2", "n3", "n4", "n5", "n6", "n7", "n8", "n9", "n10", "n11", "n12", "n13", "n14", "n15", "n16", "n17", "n18", "n19", "n20"}

// wideAstPath: all other nodes become children of one parent in random order, then calls that
// work on that long sibling list (sort, insert before / after, replace, remove and re-attach).
func wideAstPath(rg *rand.Rand) []astStep {
	names := astWideNames
	var path []astStep
	perm := rg.Perm(len(names) - 1)
	n := 10 + rg.Intn(10)
	var kids []string
	for _, i := range perm[:n] {
		path = append(path, astStep{"AppendChild", "n1", "nil", names[i+1]})
		kids = append(kids, names[i+1])
	}
	for s := 0; s < 25; s++ {
		a, b := kids[rg.Intn(len(kids))], names[1+rg.Intn(len(names)-1)]
		switch rg.Intn(6) {
		case 0, 1:
			path = append(path, astStep{"SortChildren", "n1", "nil", "nil"})
		case 2:
			if a != b {
				path = append(path, astStep{"InsertBefore", "n1", a, b})
			}
		case 3:
			if a != b {
				path = append(path, astStep{"InsertAfter", "n1", a, b})
			}
		case 4:
			path = append(path, astStep{"RemoveChild", "n1", "nil", a}, astStep{"AppendChild", "n1", "nil", a})
		default:
			if a != b {
				path = append(path, astStep{"ReplaceChild", "n1", a, b})
			}
		}
	}
	return path
}

func validateAstTracesOn(c *Ctx, tnames []string, cfg string, paths [][]astStep, tlen int, gen bool) (map[int]string, int, TLCResult) {
	var tr traceBuf
	for t := range paths {
		pool := newPool(tnames)
		keys := astKeys(tnames)
		tr.add(map[string]interface{}{"ev": "Reset", "t": t})
		var rg *rand.Rand
		steps := len(paths[t])
		if gen && paths[t] == nil {
			rg = c.Rand(fmt.Sprintf("trace%d", t))
			steps = tlen
		}
		var path []astStep
		for s := 0; s < steps; s++ {
			var st astStep
			if rg != nil {
				st = randomLegalStep(rg, pool, tnames)
			} else {
				st = paths[t][s]
			}
			err := applyOp(pool, keys, st.Op, st.P, st.Ref, st.C)
			path = append(path, st)
			if err != nil {
				// a panic: logged with an observation no specification result can equal
				tr.add(map[string]interface{}{"ev": st.Op, "t": t, "p": st.P, "r": st.Ref, "c": st.C, "obs": emptyObs(tnames), "cnt": zeroCnt(tnames), "linksok": false})
				break
			}
			o := projectPool(pool, tnames)
			tr.add(map[string]interface{}{"ev": st.Op, "t": t, "p": st.P, "r": st.Ref, "c": st.C, "obs": o.Kids, "cnt": o.Cnt, "linksok": o.LinksOK})
			if gen {
				c.Ev.Distinct("tr|" + kidsKey(o.Kids) + "|" + st.Op + st.P + st.Ref + st.C)
			}
			if !o.LinksOK || !countsAgree(o) {
				break // the model resynchronises on the observation; stop at the first corrupt one
			}
		}
		paths[t] = path
	}
	var verdict struct {
		Done     bool `json:"done"`
		Consumed int  `json:"consumed"`
		Bad      []struct {
			L   int    `json:"l"`
			T   int    `json:"t"`
			Why string `json:"why"`
		} `json:"bad"`
	}
	got := false
	r := RunTLC(TLCOpts{Module: "TraceAstTree", Cfg: cfg, Workers: 1, Timeout: 20 * time.Minute,
		Files: map[string][]byte{"trace.ndjson": tr.bytes()}, OnJSON: func(raw []byte) {
			if json.Unmarshal(raw, &verdict) == nil && verdict.Done {
				got = true
			}
		}})
	r.MustOK("TraceAstTree")
	if !got || verdict.Consumed != tr.n {
		infra("trace validation did not consume the whole trace (%d of %d)\n%s", verdict.Consumed, tr.n, r.Tail)
	}
	bad := map[int]string{}
	for _, b := range verdict.Bad {
		if _, ok := bad[b.T]; !ok {
			if b.Why == "driver-illegal-call" {
				infra("trace driver issued an illegal call in trace %d line %d", b.T, b.L)
			}
			bad[b.T] = b.Why
		}
	}
	return bad, tr.n, r
}

func countsAgree(o astObs) bool {
	for n, ks := range o.Kids {
		if o.Cnt[n] != len(ks) {
			return false
		}
	}
	return true
}
