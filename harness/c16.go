package main

// C16 — Footnote numbering and cross-links are consistent.
//
//  MC   Footnote.tla: with unrendered references not counted ("Intended") the P-invariants
//       hold on the predicted output; "AsCoded" (every parsed reference counts) is the
//       negative control and exhibits the two known classes of dangling back-links.
//  M2C  every abstract document TLC enumerates (definitions / references in 9 placements,
//       bodies that reference other footnotes, any order) is concretised and converted; the
//       observed ids, hrefs and numbers are judged by TLC against TraceFootnote.tla.
//  C2M  the same acceptor over every workload document that contains "[^".
//  Known findings are matched by cause (image alt / body of a dropped definition), established
//  from the source, so that a different way of breaking the same clause is still reported.

import (
	"encoding/json"
	"fmt"
	"sort"
	"strings"
	"sync"
	"time"

	"github.com/yuin/goldmark"
	"github.com/yuin/goldmark/ast"
	east "github.com/yuin/goldmark/extension/ast"
	"github.com/yuin/goldmark/text"
)

func init() {
	register(&Check{ID: "C16", Level: "model_checking", Run: runC16, Replay: replayC16})
}

type fnItem struct {
	K     string `json:"k"`
	L     string `json:"l"`
	Ref   string `json:"ref,omitempty"`
	Place string `json:"place,omitempty"`
}

func concretiseFootnoteDoc(items []fnItem, variant int) string {
	var b strings.Builder
	prevDef := false
	for i, it := range items {
		wasDef := prevDef
		prevDef = it.K == "def"
		if it.K == "def" {
			body := fmt.Sprintf("note %s%d", it.L, i)
			if it.Ref != "none" && it.Ref != "" {
				body += " see[^" + it.Ref + "]"
			}
			if wasDef && variant%4 == 3 {
				// a definition inside a block quote / list item / directly inside the body of the
				// previous definition: still a definition of the document
				pre := []string{"    > ", "    - ", "    "}[(variant/4+i)%3]
				b.WriteString(pre + "[^" + it.L + "]: " + body + "\n\n")
				continue
			}
			switch variant % 3 {
			case 1:
				body += "\n\n    second paragraph"
			case 2:
				body += "\n    continued"
			}
			b.WriteString("[^" + it.L + "]: " + body + "\n\n")
			continue
		}
		r := "[^" + it.L + "]"
		switch it.Place {
		case "plain":
			b.WriteString("text" + r + " more\n\n")
		case "emph":
			b.WriteString("*em" + r + "* and **st" + "**\n\n")
		case "linktext":
			b.WriteString("[link" + r + " text](/u)\n\n")
		case "imagealt":
			b.WriteString("![alt" + r + "](/i.png)\n\n")
		case "heading":
			b.WriteString("## head" + r + "\n\n")
		case "tablecell":
			b.WriteString("| h | i |\n|---|---|\n| c" + r + " | d |\n\n")
		case "listitem":
			b.WriteString("- li" + r + "\n- other\n\n")
		case "quote":
			b.WriteString("> quoted" + r + "\n\n")
		case "strike":
			b.WriteString("~~gone" + r + "~~\n\n")
		default:
			infra("unknown placement %s", it.Place)
		}
	}
	return b.String()
}

type fnObs struct {
	Items     []string        `json:"items"`
	Refs      [][]string      `json:"refs"`
	Backlinks [][]interface{} `json:"backlinks"`
}

// observeFootnotes reads ids and hrefs of the footnote markup; a configured id prefix is taken off
// where it stands (an id or href without it stays as it is and fails the acceptor's id forms).
func observeFootnotes(out []byte, prefix string) fnObs {
	o := observeFootnotesRaw(out)
	if prefix == "?" {
		// the prefix is a function of the document ("e-" or "o-"): the one the first item carries
		// is taken off everywhere - every id and href of one document must carry the same
		prefix = ""
		if len(o.Items) > 0 && (strings.HasPrefix(o.Items[0], "e-") || strings.HasPrefix(o.Items[0], "o-")) {
			prefix = o.Items[0][:2]
		}
	}
	if prefix == "" {
		return o
	}
	strip := func(v string) string {
		if strings.HasPrefix(v, "#") {
			return "#" + strings.TrimPrefix(v[1:], prefix)
		}
		return strings.TrimPrefix(v, prefix)
	}
	for i := range o.Items {
		o.Items[i] = strip(o.Items[i])
	}
	for i := range o.Refs {
		o.Refs[i][0], o.Refs[i][1] = strip(o.Refs[i][0]), strip(o.Refs[i][1])
	}
	for i := range o.Backlinks {
		o.Backlinks[i][1] = strip(o.Backlinks[i][1].(string))
	}
	return o
}

func observeFootnotesRaw(out []byte) fnObs {
	o := fnObs{Items: []string{}, Refs: [][]string{}, Backlinks: [][]interface{}{}}
	toks := tokenizeHTML(out)
	inList := false
	depth := 0 // list nesting inside the footnote section: its own <ol> is depth 1
	for i, t := range toks {
		if t.K == "open" && t.Tag == "div" {
			if c, _ := t.attr("class"); c == "footnotes" {
				inList = true
			}
		}
		if inList && (t.Tag == "ol" || t.Tag == "ul") {
			if t.K == "open" {
				depth++
			} else if t.K == "close" {
				depth--
			}
		}
		if t.K == "open" && t.Tag == "li" && inList && depth == 1 {
			id, _ := t.attr("id")
			o.Items = append(o.Items, id)
		}
		if t.K == "open" && t.Tag == "sup" {
			id, ok := t.attr("id")
			if !ok || i+1 >= len(toks) {
				continue
			}
			a := toks[i+1]
			if a.K == "open" && a.Tag == "a" {
				href, _ := a.attr("href")
				num := ""
				if i+2 < len(toks) && toks[i+2].K == "text" {
					num = toks[i+2].Text
				}
				o.Refs = append(o.Refs, []string{id, href, num})
			}
		}
		if t.K == "open" && t.Tag == "a" && inList {
			if r, _ := t.attr("role"); r == "doc-backlink" {
				href, _ := t.attr("href")
				o.Backlinks = append(o.Backlinks, []interface{}{len(o.Items), href})
			}
		}
	}
	return o
}

// fnCause explains an anomaly by one of the two known causes. Ground truth comes from parsing
// the same document with the footnote parsers but WITHOUT the footnote AST transformer: that
// tree still holds every definition (Index < 0 = never referenced or duplicate: it will be
// dropped) and every reference. A reference is unrendered when it sits below an Image node
// (alt text) or below a definition that will be dropped. The anomaly of item k is explained
// when the references to k that ARE rendered in that tree are exactly the references the
// output shows, and at least one unrendered reference to k exists. "" = no explanation.
func fnCause(cfg mdConfig, doc string, obs fnObs) string {
	pt := cfg
	pt.Ext = cfg.Ext + "-pt"
	src := []byte(doc)
	var tree ast.Node
	func() {
		defer func() { recover() }()
		tree = pt.build().Parser().Parse(text.NewReader(src))
	}()
	if tree == nil {
		return ""
	}
	type cnt struct{ rendered, image, dropped int }
	per := map[int]*cnt{}
	ast.Walk(tree, func(n ast.Node, entering bool) (ast.WalkStatus, error) {
		fl, ok := n.(*east.FootnoteLink)
		if !ok || !entering {
			return ast.WalkContinue, nil
		}
		c := per[fl.Index]
		if c == nil {
			c = &cnt{}
			per[fl.Index] = c
		}
		img, drop := false, false
		for p := n.Parent(); p != nil; p = p.Parent() {
			if p.Kind() == ast.KindImage {
				img = true
			}
			if f, ok := p.(*east.Footnote); ok && f.Index < 0 {
				drop = true
			}
		}
		switch {
		case img:
			c.image++
		case drop:
			c.dropped++
		default:
			c.rendered++
		}
		return ast.WalkContinue, nil
	})
	shown := map[int]int{}
	supIDs := map[string]bool{}
	for _, r := range obs.Refs {
		var k int
		fmt.Sscanf(r[1], "#fn:%d", &k)
		shown[k]++
		supIDs["#"+r[0]] = true
	}
	anomalous := map[int]bool{}
	for k := range obs.Items {
		if shown[k+1] == 0 {
			anomalous[k+1] = true
		}
	}
	for _, b := range obs.Backlinks {
		if !supIDs[b[1].(string)] {
			anomalous[b[0].(int)] = true
		}
	}
	if len(anomalous) == 0 {
		return ""
	}
	causes := map[string]bool{}
	for k := range anomalous {
		c := per[k]
		if c == nil || c.rendered != shown[k] || c.image+c.dropped == 0 {
			return ""
		}
		if c.image > 0 {
			causes["image-alt"] = true
		}
		if c.dropped > 0 {
			causes["dropped-footnote-body"] = true
		}
	}
	var cs []string
	for c := range causes {
		cs = append(cs, c)
	}
	sort.Strings(cs)
	return strings.Join(cs, "+")
}

type c16Case struct {
	Config mdConfig `json:"config"`
	Doc    rawDoc   `json:"doc"`
}

func c16Judge(md goldmark.Markdown, cs c16Case) (why string, obs fnObs, out []byte) {
	out, err := convertWith(md, []byte(cs.Doc))
	if err != nil {
		return "conversion-failed", obs, out
	}
	obs = observeFootnotes(out, cs.Config.FnPrefix)
	bad, _ := tlcJudge("TraceFootnote", "TraceFootnote.cfg", "footnotes.ndjson", []interface{}{obs})
	if len(bad) > 0 {
		return bad[0].Why, obs, out
	}
	// accepted on an instance that has converted nothing else: once more after other documents on
	// the same instance (documents with two and with three top-level blocks), as in the batch
	for _, before := range []string{"x[^1]\n\n[^1]: n\n", "# h\n\nx[^1]\n\n[^1]: n\n"} {
		if _, e := convertWith(md, []byte(before)); e != nil {
			continue
		}
		o2, e2 := convertWith(md, []byte(cs.Doc))
		if e2 != nil {
			continue
		}
		obs2 := observeFootnotes(o2, cs.Config.FnPrefix)
		if b2, _ := tlcJudge("TraceFootnote", "TraceFootnote.cfg", "footnotes.ndjson", []interface{}{obs2}); len(b2) > 0 {
			return b2[0].Why, obs2, o2
		}
	}
	return "ok", obs, out
}

func c16Signature(cfg mdConfig, doc string, why string, obs fnObs) string {
	if why == "backlink-without-reference" || why == "item-without-rendered-reference" {
		if cause := fnCause(cfg, doc, obs); cause != "" {
			var sigs []string
			for _, c := range strings.Split(cause, "+") {
				sigs = append(sigs, "C16/unrendered-ref/"+c)
			}
			return strings.Join(sigs, "+")
		}
	}
	return "C16/" + why
}

func replayC16(c *Ctx, raw json.RawMessage) (bool, string) {
	var cs c16Case
	if err := json.Unmarshal(raw, &cs); err != nil {
		return false, err.Error()
	}
	md := cs.Config.build()
	why, obs, out := c16Judge(md, cs)
	if why != "ok" && why != "conversion-failed" {
		return true, fmt.Sprintf("config %s, document %q renders %q: %s (items %v, references %v, back-links %v)", cs.Config, clip(string(cs.Doc), 300), clip(string(out), 600), why, obs.Items, obs.Refs, obs.Backlinks)
	}
	return false, "accepted (" + why + ")"
}

func runC16(c *Ctx) {
	ev := c.Ev
	ev.Assumptions = []string{
		"TLC/SANY, Json/IOUtils; strict tokenizer; default footnote id forms fn:k / fnref:k (no id prefix option)",
		"known findings are recognised by their cause, established from a parse of the same document with the footnote parsers but without the footnote AST transformer: the unrendered references to the anomalous item sit below an Image node (alt text) or below a definition that is dropped, and the rendered ones are exactly those the output shows",
	}
	ev.Set("rule", "case = one converted document; distinct = distinct (configuration, document); non-trivial = documents with at least one definition and one reference")
	r := RunTLC(TLCOpts{Module: "Footnote", Cfg: "Footnote_neg_ascoded.cfg", Workers: 2})
	r.MustViolate("neg AsCoded", "BacklinksMatchRefs")
	ev.Set("negative_controls", []string{"AsCoded (every parsed reference counts) => BacklinksMatchRefs violated: image alt / dropped definition body"})
	genCfg := "Footnote_gen.cfg"
	if c.Thorough() {
		genCfg = "Footnote_gen4.cfg"
	}
	cfgs := []mdConfig{{Ext: "footnote"}, {Ext: "nocjk"}, {Ext: "all", XHTML: true}, {Ext: "nocjk", Unsafe: true, AutoID: true},
		{Ext: "footnote", FnPrefix: "p"}, {Ext: "nocjk", FnPrefix: "article12-", XHTML: true}, // id prefixes of 1 and 10 bytes
		{Ext: "fnfunc", FnPrefix: "?"}} // a prefix function whose result differs from document to document
	mds := make([]goldmark.Markdown, len(cfgs))
	for i, cf := range cfgs {
		mds[i] = cf.build()
	}
	var docs []string
	var docCfg []int
	n := 0
	r = RunTLC(TLCOpts{Module: "Footnote", Cfg: genCfg, Workers: 8, Timeout: 40 * time.Minute, OnJSON: func(raw []byte) {
		var d struct {
			Items []fnItem `json:"items"`
		}
		if json.Unmarshal(raw, &d) != nil {
			infra("bad footnote document %s", raw)
		}
		ci := 1 + n%3 // strikethrough / tables need GFM
		docs = append(docs, concretiseFootnoteDoc(d.Items, n))
		docCfg = append(docCfg, ci)
		n++
	}})
	r.MustOK("Footnote generator")
	ev.TLC(genCfg+" (P-invariants on the intended model + document dump)", r)
	// every order of the references x every order of the definitions of 4 (5) labels
	permCfg := "Footnote_perm4.cfg"
	if c.Thorough() {
		permCfg = "Footnote_perm5.cfg"
	}
	r = RunTLC(TLCOpts{Module: "Footnote", Cfg: permCfg, Workers: 8, Timeout: 40 * time.Minute, OnJSON: func(raw []byte) {
		var d struct {
			Items []fnItem `json:"items"`
		}
		if json.Unmarshal(raw, &d) != nil {
			infra("bad footnote document %s", raw)
		}
		docs = append(docs, concretiseFootnoteDoc(d.Items, n))
		docCfg = append(docCfg, n%len(cfgs))
		n++
	}})
	r.MustOK("Footnote order generator")
	ev.TLC(permCfg+" (all orders of references x all orders of definitions)", r)
	ev.Set("exhaustive", true)
	nGen := len(docs)
	ev.Set("generated_documents", nGen)
	loadCorpus()
	for i, d := range repoDocs {
		if strings.Contains(d, "[^") {
			docs = append(docs, d)
			docCfg = append(docCfg, i%len(cfgs))
		}
	}
	g := newDocGen(c.Rand("mut"))
	rng := c.Rand("fn")
	frag := []string{"[^1]", "[^a]", "[^b]", "[^1]: n\n", "[^a]: x[^b]\n", "[^b]: y\n", "\n\n", "![i[^1]](u)", "[l[^a]](u)", "*", "> ", "- ", "    ", "[^1]:", "[^a]: [^a]\n", "| [^b] |\n|---|\n"}
	for i := 0; i < c.Pick(8000, 150000); i++ {
		d := ""
		if i%4 == 0 {
			d = g.next()
		}
		for k := 2 + rng.Intn(8); k > 0; k-- {
			p := rng.Intn(len(d) + 1)
			d = d[:p] + frag[rng.Intn(len(frag))] + d[p:]
		}
		docs = append(docs, d)
		docCfg = append(docCfg, i%len(cfgs))
	}
	var mu sync.Mutex
	seen := map[string]int{}
	var recs []interface{}
	var wits [][]int // documents per distinct observation (first few)
	var nConv int64
	parallelFor(len(docs), func(i int) {
		out, err := convertWith(mds[docCfg[i]], []byte(docs[i]))
		if err != nil {
			return
		}
		o := observeFootnotes(out, cfgs[docCfg[i]].FnPrefix)
		b, _ := json.Marshal(o)
		mu.Lock()
		nConv++
		k, ok := seen[string(b)]
		if !ok {
			k = len(recs)
			seen[string(b)] = k
			recs = append(recs, o)
			wits = append(wits, nil)
		}
		if len(wits[k]) < 400 {
			wits[k] = append(wits[k], i)
		}
		mu.Unlock()
	})
	ev.Add("evaluations", nConv)
	for i, d := range docs {
		if strings.Contains(d, "]:") && strings.Count(d, "[^") >= 2 {
			ev.Distinct(fmt.Sprint(i))
		}
	}
	bad, tr := tlcJudge("TraceFootnote", "TraceFootnote.cfg", "footnotes.ndjson", recs)
	ev.TLC("TraceFootnote (acceptor over distinct observations)", tr)
	ev.Add("traces_validated_against_impl", int64(len(recs)))
	perSig := map[string]int{}
	for _, b := range bad {
		// the same observation can come from documents with different causes: classify each witness
		for _, di := range wits[b.L-1] {
			cs := c16Case{Config: cfgs[docCfg[di]], Doc: rawDoc(docs[di])}
			sig := c16Signature(cfgs[docCfg[di]], docs[di], b.Why, recs[b.L-1].(fnObs))
			known := true
			for _, part := range strings.Split(sig, "+") {
				if lookupKnown("C16", part) == nil {
					known = false
				}
			}
			if perSig[sig]++; perSig[sig] > 2 && !known {
				continue
			}
			if known {
				for _, part := range strings.Split(sig, "+") {
					c.Report(Violation{Signature: part})
				}
				continue
			}
			why, obs, out := c16Judge(mds[docCfg[di]], cs)
			if why == "ok" {
				infra("observation rejected in the batch but accepted alone: %q", docs[di])
			}
			c.Report(Violation{Signature: sig, Detail: fmt.Sprintf("config %s, document %q renders %q: %s (items %v, references %v, back-links %v)", cs.Config, clip(docs[di], 300), clip(string(out), 600), why, obs.Items, obs.Refs, obs.Backlinks), Replay: cs})
		}
	}
	for i := 0; i < nGen; i += nGen/4 + 1 {
		c.Sample("generated-document", 4, map[string]interface{}{"doc": docs[i], "config": cfgs[docCfg[i]].String()})
	}
}
