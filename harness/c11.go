package main

// C11 — Extensions are conservative: no trigger syntax, no change.
//
//  Law (Meta.tla, SameLaw): for a document free of an extension's trigger bytes,
//  out(configuration + extension) = out(configuration); extension.GFM = its four members.
//  Each extension is compared alone (against core) and on top of every other built-in
//  extension; the trigger filter is the statement's, byte for byte.

import (
	"encoding/json"
	"fmt"
	"strings"

	"github.com/yuin/goldmark"
	"github.com/yuin/goldmark/extension"
	"github.com/yuin/goldmark/parser"
	"github.com/yuin/goldmark/renderer"
	"github.com/yuin/goldmark/renderer/html"
)

func init() {
	register(&Check{ID: "C11", Level: "model_checking", Run: runC11, Replay: replayC11})
}

var c11Exts = []string{"strikethrough", "table", "tasklist", "footnote", "deflist", "typographer", "linkify", "cjk", "cjk3", "cjkes"}

func c11Extender(name string) goldmark.Extender {
	switch name {
	case "strikethrough":
		return extension.Strikethrough
	case "table":
		return extension.Table
	case "tasklist":
		return extension.TaskList
	case "footnote":
		return extension.Footnote
	case "deflist":
		return extension.DefinitionList
	case "typographer":
		return extension.Typographer
	case "linkify":
		return extension.Linkify
	case "cjk":
		return extension.NewCJK(extension.WithEastAsianLineBreaks(), extension.WithEscapedSpace())
	case "cjk3":
		return extension.NewCJK(extension.WithEastAsianLineBreaks(extension.EastAsianLineBreaksCSS3Draft), extension.WithEscapedSpace())
	case "cjkes":
		return extension.NewCJK(extension.WithEscapedSpace())
	}
	infra("unknown extension %s", name)
	return nil
}

// triggerFree: the statement's byte-level filter.
func triggerFree(ext, d string) bool {
	switch ext {
	case "strikethrough":
		return !strings.Contains(d, "~")
	case "table":
		return !strings.Contains(d, "-")
	case "tasklist":
		return !strings.Contains(d, "[")
	case "footnote":
		return !strings.Contains(d, "[^")
	case "deflist":
		return !strings.Contains(d, ":")
	case "typographer":
		return !strings.ContainsAny(d, "'\"-.<>")
	case "linkify":
		return !strings.ContainsAny(d, ":@") && !strings.Contains(d, "www.") // byte for byte: "Www." is no trigger
	case "cjk", "cjk3", "cjkes":
		for i := 0; i < len(d); i++ {
			if d[i] >= 0x80 {
				return false
			}
		}
		return !strings.Contains(d, "\\ ")
	}
	return false
}

type c11Case struct {
	Ext    string   `json:"ext"`    // extension under test ("gfm" = GFM versus its members)
	Others []string `json:"others"` // extensions present on both sides
	Flags  mdConfig `json:"flags"`  // renderer / parser options on both sides (Ext field unused)
	Doc    rawDoc   `json:"doc"`
}

func c11Build(exts []string, f mdConfig, gfm bool) goldmark.Markdown {
	var es []goldmark.Extender
	if gfm {
		es = append(es, extension.GFM)
	}
	for _, e := range exts {
		es = append(es, c11Extender(e))
	}
	var popts []parser.Option
	if f.AutoID {
		popts = append(popts, parser.WithAutoHeadingID())
	}
	if f.Attr {
		popts = append(popts, parser.WithAttribute())
	}
	var ropts []renderer.Option
	if f.Unsafe {
		ropts = append(ropts, html.WithUnsafe())
	}
	if f.XHTML {
		ropts = append(ropts, html.WithXHTML())
	}
	if f.HardWraps {
		ropts = append(ropts, html.WithHardWraps())
	}
	return goldmark.New(goldmark.WithExtensions(es...), goldmark.WithParserOptions(popts...), goldmark.WithRendererOptions(ropts...))
}

func c11Sides(cs c11Case) (with, without goldmark.Markdown) {
	if cs.Ext == "gfm" {
		return c11Build(cs.Others, cs.Flags, true), c11Build(append([]string{"linkify", "table", "strikethrough", "tasklist"}, cs.Others...), cs.Flags, false)
	}
	return c11Build(append(append([]string{}, cs.Others...), cs.Ext), cs.Flags, false), c11Build(cs.Others, cs.Flags, false)
}

func c11Record(with, without goldmark.Markdown, doc string) (map[string]interface{}, []byte, []byte, bool) {
	ow, e1 := convertWith(with, []byte(doc))
	oo, e2 := convertWith(without, []byte(doc))
	if e1 != nil || e2 != nil {
		return nil, nil, nil, false
	}
	lb := newLaw()
	return map[string]interface{}{"law": "same", "x": lb.seq(outLines(ow)), "y": lb.seq(outLines(oo))}, ow, oo, true
}

// c11Signature names the class of a difference (known-finding lookup works on it).
func c11Signature(cs c11Case, with, without []byte) string {
	if cs.Ext == "cjk3" && onlyDroppedNewlines(string(with), string(without)) && punctNextToLineBreak(string(cs.Doc)) {
		// the css3-draft rule drops a soft line break when the character before or after it
		// (in the source) is ASCII punctuation
		return "C11/cjk-css3draft/ascii-punctuation-next-to-soft-break"
	}
	base := "alone"
	if len(cs.Others) > 0 {
		base = "with-" + strings.Join(cs.Others, "+")
	}
	return fmt.Sprintf("C11/%s/%s", cs.Ext, base)
}

// onlyDroppedNewlines: with equals without after deleting some newline bytes of without.
func onlyDroppedNewlines(with, without string) bool {
	i, j := 0, 0
	for j < len(without) {
		if i < len(with) && with[i] == without[j] {
			i++
			j++
			continue
		}
		if without[j] == '\n' {
			j++
			continue
		}
		return false
	}
	return i == len(with)
}

// punctNextToLineBreak: some line of the source ends or begins (blanks aside) with ASCII punctuation.
func punctNextToLineBreak(doc string) bool {
	lines := strings.Split(doc, "\n")
	for i := 0; i+1 < len(lines); i++ {
		a := strings.TrimRight(lines[i], " \t\r")
		b := strings.TrimLeft(lines[i+1], " \t>")
		if (a != "" && isASCIIPunct(a[len(a)-1])) || (b != "" && isASCIIPunct(b[0])) {
			return true
		}
	}
	return false
}

func isASCIIPunct(c byte) bool {
	return (c >= '!' && c <= '/') || (c >= ':' && c <= '@') || (c >= '[' && c <= '`') || (c >= '{' && c <= '~')
}

func replayC11(c *Ctx, raw json.RawMessage) (bool, string) {
	var cs c11Case
	if err := json.Unmarshal(raw, &cs); err != nil {
		return false, err.Error()
	}
	if cs.Ext != "gfm" && !triggerFree(cs.Ext, string(cs.Doc)) {
		return false, "document contains trigger bytes of the extension"
	}
	w, o := c11Sides(cs)
	rec, ow, oo, ok := c11Record(w, o, string(cs.Doc))
	if !ok {
		return false, "conversion failed"
	}
	if !judgeLawOne(rec) {
		return true, fmt.Sprintf("%s on top of %v (%s): document %q renders %q with it and %q without", cs.Ext, cs.Others, cs.Flags, clip(string(cs.Doc), 200), clip(string(ow), 300), clip(string(oo), 300))
	}
	return false, "same output"
}

func runC11(c *Ctx) {
	ev := c.Ev
	ev.Assumptions = []string{
		"TLC/SANY, Json/IOUtils; outputs compared line by line after injective renaming (Meta.tla SameLaw)",
		"trigger filters are the statement's byte sets, byte for byte ('Www.' is not 'www.')",
	}
	ev.Set("rule", "case = one (extension, base configuration, document) instance of the conservativity law; distinct = distinct such triples; non-trivial = the document contains Markdown-significant bytes")
	loadCorpus()
	// base configurations: alone, and on top of all the other extensions
	type side struct {
		cs            c11Case
		with, without goldmark.Markdown
	}
	var sides []side
	flagSets := []mdConfig{{}, {Unsafe: true, XHTML: true}, {HardWraps: true, AutoID: true, Attr: true}}
	if c.Thorough() {
		flagSets = append(flagSets, mdConfig{XHTML: true, HardWraps: true}, mdConfig{Unsafe: true, Attr: true})
	}
	for _, e := range c11Exts {
		var others []string
		for _, o := range c11Exts {
			if o != e && !(strings.HasPrefix(o, "cjk") && strings.HasPrefix(e, "cjk")) && o != "cjk3" && o != "cjkes" {
				others = append(others, o)
			}
		}
		bases := [][]string{nil, others}
		// pairs: the extension on top of each single other extension
		for _, o := range others {
			bases = append(bases, []string{o})
		}
		for bi, b := range bases {
			f := flagSets[bi%len(flagSets)]
			cs := c11Case{Ext: e, Others: b, Flags: f}
			w, o := c11Sides(cs)
			sides = append(sides, side{cs, w, o})
		}
	}
	for _, f := range flagSets {
		cs := c11Case{Ext: "gfm", Others: nil, Flags: f}
		w, o := c11Sides(cs)
		sides = append(sides, side{cs, w, o})
		cs2 := c11Case{Ext: "gfm", Others: []string{"footnote", "typographer"}, Flags: f}
		w2, o2 := c11Sides(cs2)
		sides = append(sides, side{cs2, w2, o2})
	}
	ev.Set("comparisons", len(sides))
	// documents
	var docs []string
	for _, sd := range slotDocs(c) {
		docs = append(docs, sd.Doc)
	}
	docs = append(docs, repoDocs...)
	// near misses of every extension's trigger syntax, alone and inside the usual inline / block contexts
	for _, n := range c11NearMiss {
		docs = append(docs, n+"\n", "a "+n+" b\n", "*"+n+"*\n", "- "+n+"\n  "+n+"\n", "> "+n+"\n", "# "+n+"\n", n+"\n"+n+"\n", "("+n+")\n", "["+n+"](/u)\n", "**"+n+"** "+n+"\n\n"+n+"\n===\n")
	}
	// every short sequence over each extension's trigger alphabet (those free of the trigger bytes
	// of an extension are its near misses), alone and as link text
	for _, d := range triggerTokenDocs() {
		docs = append(docs, d)
		if !strings.Contains(d, "\n") {
			docs = append(docs, "[see "+d+"](/u) x\n")
		}
	}
	// words x line endings x inline wrappers (soft / hard breaks next to wide and narrow characters)
	for _, w1 := range []string{"語", "a", "é", "、", "a!", "（"} {
		for _, w2 := range []string{"語", "b", "。", "!b"} {
			for _, sep := range []string{"\n", " \n", "  \n", "   \n", "\\\n", " \n ", "\t\n"} {
				docs = append(docs, w1+sep+w2, "*"+w1+"*"+sep+w2, w1+sep+"*"+w2+"*", w1+" "+w1+sep+w2+"\n", "> "+w1+sep+"> "+w2, "- "+w1+sep+"  "+w2, "# "+w1+" \n"+w2)
			}
		}
	}
	shortStrings(shortAlphabet, 3, func(s string) { docs = append(docs, s) })
	g := newDocGen(c.Rand("mut"))
	for i := 0; i < c.Pick(3000, 60000); i++ {
		d := g.next()
		docs = append(docs, d)
		// trigger-free variants of the same document, so that every filter lets some through
		docs = append(docs, strings.Map(func(r rune) rune {
			if r >= 0x80 || strings.ContainsRune("~-[:'\".<>@", r) {
				return 'x'
			}
			return r
		}, d))
	}
	ev.Set("documents", len(docs))
	type job struct{ s, d int }
	var jobs []job
	for si, s := range sides {
		for di, d := range docs {
			if s.cs.Ext == "gfm" || triggerFree(s.cs.Ext, d) {
				// every document for the "alone" and "all others" bases; a third for pair bases
				if len(s.cs.Others) == 1 && (di+si)%3 != 0 && !c.Thorough() {
					continue
				}
				jobs = append(jobs, job{si, di})
			}
		}
	}
	ls := newLawSet()
	parallelFor(len(jobs), func(i int) {
		j := jobs[i]
		rec, _, _, ok := c11Record(sides[j.s].with, sides[j.s].without, docs[j.d])
		if ok {
			ls.add(rec, i)
		}
	})
	ev.Add("evaluations", int64(2*len(jobs)))
	for i, j := range jobs {
		if strings.ContainsAny(docs[j.d], "*_`[]()<>#\\&!|+=\n") {
			ev.Distinct(fmt.Sprint(i))
		}
	}
	perSig := map[string]int{}
	for _, w := range ls.judge(c, "SameLaw: with versus without the extension") {
		j := jobs[w.(int)]
		cs := sides[j.s].cs
		cs.Doc = rawDoc(docs[j.d])
		rec, ow, oo, ok := c11Record(sides[j.s].with, sides[j.s].without, docs[j.d])
		if !ok {
			continue
		}
		sig := c11Signature(cs, ow, oo)
		if perSig[sig]++; perSig[sig] > 2 && lookupKnown("C11", sig) == nil {
			continue
		}
		if lookupKnown("C11", sig) == nil && judgeLawOne(rec) {
			infra("law rejected in the batch but holds alone: %+v", cs)
		}
		c.Report(Violation{Signature: sig, Detail: fmt.Sprintf("%s on top of %v (%s): document %q renders %q with it and %q without (%s)", cs.Ext, cs.Others, cs.Flags, clip(docs[j.d], 200), clip(string(ow), 300), clip(string(oo), 300), diffLines(outLines(ow), outLines(oo))), Replay: cs})
	}
	for i := 0; i < len(jobs); i += len(jobs)/5 + 1 {
		c.Sample("law-instance", 5, map[string]interface{}{"extension": sides[jobs[i].s].cs.Ext, "others": sides[jobs[i].s].cs.Others, "doc": clip(docs[jobs[i].d], 100)})
	}
}

// c11NearMiss: spellings one step away from an extension's trigger syntax (different letter case,
// a look-alike character, a missing or doubled character). A document made of them contains no
// trigger byte of the extension concerned, so enabling it must change nothing.
var c11NearMiss = []string{
	// linkify: "www." in other letter cases, neighbours of the prefixes, schemes without ':'
	"Www.example.com", "WWW.EXAMPLE.COM", "wWw.a.bc/d?e=f", "wwW.a.bc", "ww.example.com", "wwww.example.com", "www,example.com", "www example.com", "xwww.a.bc",
	"http //a.bc", "https;//a.bc/d", "HTTP//A.BC", "ftp.a.bc", "mailto a.bc", "a.b(at)c.de", "a.b\uff20c.de", "example.com", "sub.example.co.uk/path",
	// table: delimiter rows without '-'
	"| a | b |\n| = | = |\n| c | d |", "| a |\n|:=:|\n| b |", "| a |\n| \u2014 |\n| b |", "a | b\n_ | _\nc | d", "| a |\n| ~ |\n| b |", "| a |\n|:|\n| b |", "|a|b|\n|*|*|",
	// strikethrough: other doubled marks
	"^^a^^", "==a==", "\uff5e\uff5ea\uff5e\uff5e", "++a++",
	// task list: boxes that are not '['
	"(x) a", "( ) a", "{x} a", "x] a", "\u2610 a", "\u2611 a",
	// footnote: brackets and carets that are not "[^"
	"a[1]\n\n[1]: /u", "a [ ^1]", "a^1", "a[1^]", "a[\\^1]", "a (^1)", "[ ^1]: b", "^[inline note]x"[:2] + " b",
	// definition list: markers that are not ':'
	"a\n; b", "a\n\uff1a b", "a\n~ b", "a\n  b", "a\n= b",
	// typographer: sequences near its substitutions, without ' \" - . < >
	"(c) (r) (tm)", "(C) (R) (TM)", "1/2 3/4", "a,,b", "``a``", "+/+", "a\u2026b", "a\u2013b \u2014 c", "\u00aba\u00bb", "\u201ca\u201d \u2018b\u2019", ",,a,,", "a , b ,c", "*,*", "[,]",
	// cjk (pure ASCII, no backslash-space): backslashes and breaks
	"a\\\nb", "a \\b", "a\\", "a\\\tb", "a\\\n\\b",
}
