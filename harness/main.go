package main

import (
	"encoding/json"
	"fmt"
	"os"
	"runtime"
	"sort"
	"time"
)

// A check decides one property. run explores; replay re-executes one recorded violation
// and reports whether it still reproduces.
type Check struct {
	ID     string
	Level  string
	Run    func(c *Ctx)
	Replay func(c *Ctx, raw json.RawMessage) (reproduced bool, detail string)
}

var checks = map[string]*Check{}

func register(ch *Check) { checks[ch.ID] = ch }

func usage() {
	var ids []string
	for k := range checks {
		ids = append(ids, k)
	}
	sort.Strings(ids)
	fmt.Fprintf(os.Stderr, "usage: vh <id> quick|thorough | vh <id> --replay <file>\nids: %v\n", ids)
	os.Exit(2)
}

func main() {
	runtime.GOMAXPROCS(runtime.NumCPU())
	if len(os.Args) < 3 {
		if len(os.Args) == 2 && os.Args[1] == "selftest" {
			os.Exit(selftest())
		}
		usage()
	}
	id := os.Args[1]
	ch := checks[id]
	if ch == nil {
		// internal sub-commands (child processes of checks)
		if sub, ok := subcommands[id]; ok {
			os.Exit(sub(os.Args[2:]))
		}
		usage()
	}
	if os.Args[2] == "--replay" {
		if len(os.Args) < 4 {
			usage()
		}
		b, err := os.ReadFile(os.Args[3])
		must(err)
		var v struct {
			Signature string          `json:"signature"`
			Replay    json.RawMessage `json:"replay"`
		}
		must(json.Unmarshal(b, &v))
		c := newCtx(ch, "quick")
		if ch.Replay == nil {
			infra("check %s has no replay", id)
		}
		ok, detail := ch.Replay(c, v.Replay)
		if ok {
			fmt.Printf("VIOLATION property=%s replay=%s\n  signature=%s\n  %s\n", id, os.Args[3], v.Signature, firstLines(detail, 20))
			os.Exit(1)
		}
		fmt.Printf("NOT-REPRODUCED property=%s replay=%s\n  %s\n", id, os.Args[3], firstLines(detail, 20))
		os.Exit(0)
	}
	tier := os.Args[2]
	if t := os.Getenv("VERIF_TIER"); t == "quick" || t == "thorough" {
		tier = t
	}
	if tier != "quick" && tier != "thorough" {
		usage()
	}
	c := newCtx(ch, tier)
	ch.Run(c)
	os.Exit(c.finish())
}

func newCtx(ch *Check, tier string) *Ctx {
	c := &Ctx{ID: ch.ID, Tier: tier, Seed: envInt("VERIF_SEED", 1), Start: time.Now()}
	c.Ev = &Evidence{PropertyID: ch.ID, Tier: tier, Seed: c.Seed, Level: ch.Level, Coverage: map[string]interface{}{}}
	return c
}

var subcommands = map[string]func(args []string) int{}

func selftest() int {
	fmt.Println("selftest: see ./selftest.sh")
	return 0
}
