package main

// C19 — Escaping and normalisation utilities obey their algebraic laws; BytesFilter is a set.
//
//  MC   BytesFilter.tla (filters as independent sets; negative control SharedBuckets).
//  M2C  every transition of BytesFilter.tla (3 filters x 5 keys colliding in one hash bucket
//       and sharing 3-byte prefixes; New / Add / Extend / ExtendString) executed on real
//       filters from the shortest path and along random walks; after every call the complete
//       Contains table (all filters x all keys + near-miss probes) is compared with the sets.
//  C2M  call pairs (fn, in, out, f(f(in)), variant) for all byte strings up to a length bound
//       over a representative byte alphabet + random longer ones, judged by TLC against the
//       law predicates of UtilLaws.tla.

import (
	"encoding/json"
	"fmt"
	"math/big"
	"math/rand"
	"sort"
	"strings"
	"time"
	"unicode"
	"unicode/utf8"

	"github.com/yuin/goldmark/util"
)

func init() {
	register(&Check{ID: "C19", Level: "model_checking", Run: runC19, Replay: replayC19})
}

// ---- keys: all in one bucket of the 64-bucket table, sharing their first three bytes ----
func djb2(b []byte) uint64 {
	var h uint64 = 5381
	for _, c := range b {
		h = ((h << 5) + h) + uint64(c)
	}
	return h
}

var (
	bfKeys   map[string][]byte // k1..k6
	bfProbes [][]byte          // never added
)

func initBfKeys() {
	if bfKeys != nil {
		return
	}
	// keys p1p2p3 + "de": one bucket, pairwise different characters at each of the first three
	// positions, so that probes MIXING the prefixes of members (same length, same tail, every
	// character seen at its position in some member, some of them in the members' bucket) exist
	byBucket := map[uint64][][]byte{}
	for a := 'a'; a <= 'z'; a++ {
		for b := 'a'; b <= 'z'; b++ {
			for c := 'a'; c <= 'z'; c++ {
				k := []byte(string(a) + string(b) + string(c) + "de")
				byBucket[djb2(k)%64] = append(byBucket[djb2(k)%64], k)
			}
		}
	}
	pick := func(ks [][]byte) [][]byte {
		var out [][]byte
		used := [3]map[byte]bool{{}, {}, {}}
		for _, k := range ks {
			if used[0][k[0]] || used[1][k[1]] || used[2][k[2]] {
				continue
			}
			for p := 0; p < 3; p++ {
				used[p][k[p]] = true
			}
			out = append(out, k)
			if len(out) == 8 {
				break
			}
		}
		return out
	}
	var best [][]byte
	var bestBucket uint64
	for b := uint64(0); b < 64; b++ {
		if ks := pick(byBucket[b]); len(ks) > len(best) {
			best, bestBucket = ks, b
		}
	}
	if len(best) < 8 {
		infra("no colliding key set found")
	}
	bfKeys = map[string][]byte{}
	member := map[string]bool{}
	for i := 0; i < 6; i++ {
		bfKeys[fmt.Sprintf("k%d", i+1)] = best[i]
		member[string(best[i])] = true
	}
	bfProbes = [][]byte{best[6], best[7], []byte("ab"), []byte("abc"), []byte("a"), []byte("xbcde"), []byte("abcd"), append(append([]byte{}, best[0]...), 'z'), best[0][:4]}
	// mixes of the members' prefixes, in the members' bucket first
	var other [][]byte
	for _, x := range best[:6] {
		for _, y := range best[:6] {
			for _, z := range best[:6] {
				k := []byte{x[0], y[1], z[2], 'd', 'e'}
				if member[string(k)] {
					continue
				}
				if djb2(k)%64 == bestBucket {
					bfProbes = append(bfProbes, k)
				} else if len(other) < 12 {
					other = append(other, k)
				}
			}
		}
	}
	bfProbes = append(bfProbes, other...)
}

type bfEdge struct {
	Op   string     `json:"op"`
	F    int        `json:"f"`
	Ks   []string   `json:"ks"`
	From [][]string `json:"from"`
	To   [][]string `json:"to"`
}

func setsKey(s [][]string) string {
	var b strings.Builder
	for _, f := range s {
		c := append([]string{}, f...)
		sort.Strings(c)
		b.WriteString(strings.Join(c, ","))
		b.WriteByte(';')
	}
	return b.String()
}

type bfStep struct {
	Op string   `json:"op"`
	F  int      `json:"f"`
	Ks []string `json:"ks"`
}

// runBf executes steps on real filters; variant 1 uses the ...String constructors.
// bfKeysFor: variants 0 and 1 use the short colliding keys, variants 2 and 3 the same two
// constructor families with LONG keys (63, 64, 65, 127, 128 and 200 bytes: lengths around the
// word sizes an implementation may index by length)
func bfKeysFor(variant int) (map[string][]byte, [][]byte) {
	if variant < 2 {
		return bfKeys, bfProbes
	}
	if bfLong == nil {
		bfLong = map[string][]byte{}
		for i, l := range []int{63, 64, 65, 127, 128, 200} {
			bfLong[fmt.Sprintf("k%d", i+1)] = []byte(strings.Repeat(fmt.Sprintf("key%d-", i+1), l)[:l])
		}
		for _, l := range []int{62, 63, 64, 65, 66, 127, 128, 129, 200, 256} {
			bfLongProbes = append(bfLongProbes, []byte(strings.Repeat("probe-", l)[:l]))
		}
	}
	return bfLong, bfLongProbes
}

var (
	bfLong       map[string][]byte
	bfLongProbes [][]byte
)

func runBf(steps []bfStep, variant int) (fs []util.BytesFilter, err error) {
	bfKeys, _ := bfKeysFor(variant)
	defer func() {
		if r := recover(); r != nil {
			err = fmt.Errorf("panic: %v", r)
		}
	}()
	initBfKeys()
	kb := func(ks []string) [][]byte {
		var o [][]byte
		for _, k := range ks {
			o = append(o, bfKeys[k])
		}
		return o
	}
	join := func(ks []string) string {
		var o []string
		for _, k := range ks {
			o = append(o, string(bfKeys[k]))
		}
		return strings.Join(o, ",")
	}
	for _, s := range steps {
		switch s.Op {
		case "New":
			if variant%2 == 1 {
				fs = append(fs, util.NewBytesFilterString(join(s.Ks)))
			} else {
				fs = append(fs, util.NewBytesFilter(kb(s.Ks)...))
			}
		case "Add":
			fs[s.F-1].Add(bfKeys[s.Ks[0]])
		case "Extend":
			if variant%2 == 1 {
				fs = append(fs, fs[s.F-1].ExtendString(join(s.Ks)))
			} else {
				fs = append(fs, fs[s.F-1].Extend(kb(s.Ks)...))
			}
		}
	}
	return fs, nil
}

func judgeBf(fs []util.BytesFilter, err error, want [][]string) (bool, string) {
	return judgeBfV(fs, err, want, 0)
}

func judgeBfV(fs []util.BytesFilter, err error, want [][]string, variant int) (bool, string) {
	bfKeys, bfProbes := bfKeysFor(variant)
	if err != nil {
		return false, err.Error()
	}
	if len(fs) != len(want) {
		return false, fmt.Sprintf("%d filters, want %d", len(fs), len(want))
	}
	names := []string{"k1", "k2", "k3", "k4", "k5", "k6"}
	for i, f := range fs {
		in := map[string]bool{}
		for _, k := range want[i] {
			in[k] = true
		}
		for _, n := range names {
			if got := f.Contains(bfKeys[n]); got != in[n] {
				return false, fmt.Sprintf("filter %d: Contains(%s=%q) = %v, the set model says %v (sets %v)", i+1, n, bfKeys[n], got, in[n], want)
			}
		}
		for _, p := range bfProbes {
			if f.Contains(p) {
				return false, fmt.Sprintf("filter %d: Contains(%q) = true for a key that was never added", i+1, p)
			}
		}
	}
	return true, ""
}

type c19Replay struct {
	Kind    string     `json:"kind"` // "filter" | "law"
	Steps   []bfStep   `json:"steps,omitempty"`
	Variant int        `json:"variant,omitempty"`
	Want    [][]string `json:"want,omitempty"`
	Fn      string     `json:"fn,omitempty"`
	In      []int      `json:"in,omitempty"`
	Var     []int      `json:"variant_in,omitempty"`
}

func replayC19(c *Ctx, raw json.RawMessage) (bool, string) {
	var r c19Replay
	if err := json.Unmarshal(raw, &r); err != nil {
		return false, err.Error()
	}
	if r.Kind == "filter" {
		fs, err := runBf(r.Steps, r.Variant)
		ok, d := judgeBfV(fs, err, r.Want, r.Variant)
		return !ok, fmt.Sprintf("steps %v (variant %d): %s", r.Steps, r.Variant, d)
	}
	p := makePair(r.Fn, intsToBytes(r.In), intsToBytes(r.Var))
	bad, _ := judgePairs(c, []utilPair{p})
	if len(bad) > 0 {
		return true, fmt.Sprintf("%s(%q) = %q violates its law (out2=%q variant=%q outv=%q)", r.Fn, intsToBytes(r.In), intsToBytes(p.Out), intsToBytes(p.Out2), intsToBytes(r.Var), intsToBytes(p.OutV))
	}
	return false, "law holds"
}

func runC19(c *Ctx) {
	ev := c.Ev
	initBfKeys()
	ev.Assumptions = []string{
		"TLC/SANY, Json/IOUtils community modules",
		"keys are chosen with a re-implementation of the filter's hash so that they collide in one bucket (if the hash changes the keys merely stop colliding)",
		"law predicates of UtilLaws.tla are the statement's clauses; 'preserves existing %XX triples' is checked as percent-decode(out) = percent-decode(in) for valid UTF-8 input",
		"case variants of labels are generated with unicode.SimpleFold (Go standard library)",
	}
	ev.Set("rule", "case = one BytesFilter transition executed on real filters (two constructor variants) or one (function, input) pair judged by TLC; distinct = distinct (sets, call) / (function, input bytes); non-trivial = transitions with two or more filters or an Extend, pairs whose output differs from the input or that carry a variant")
	ev.Set("exhaustive", true)
	var nEval int64

	// ---- MC
	r := RunTLC(TLCOpts{Module: "BytesFilter", Cfg: "BytesFilter_mc5.cfg", Workers: 8})
	r.MustOK("BytesFilter MC")
	ev.TLC("BytesFilter_mc5 (TypeOK)", r)
	RunTLC(TLCOpts{Module: "BytesFilter", Cfg: "BytesFilter_neg_shared.cfg", Workers: 2}).MustViolate("neg SharedBuckets", "BehavesAsSet")
	ev.Set("negative_controls", []string{"SharedBuckets (Extend keeps the parent's bucket) => BehavesAsSet violated"})

	// ---- M2C
	cfg := "BytesFilter_gen5.cfg"
	if c.Thorough() {
		cfg = "BytesFilter_gen6.cfg"
	}
	var edges []bfEdge
	seen := map[string]bool{}
	r = RunTLC(TLCOpts{Module: "BytesFilter", Cfg: cfg, Workers: 8, Timeout: 40 * time.Minute, OnJSON: func(raw []byte) {
		var e bfEdge
		if err := json.Unmarshal(raw, &e); err != nil {
			infra("bad filter edge: %v: %s", err, raw)
		}
		k := setsKey(e.From) + "|" + e.Op + fmt.Sprint(e.F, e.Ks)
		if seen[k] {
			return
		}
		seen[k] = true
		edges = append(edges, e)
	}})
	r.MustOK("BytesFilter generator")
	ev.TLC(cfg+" (transition dump)", r)
	out := map[string][]int{}
	for i, e := range edges {
		out[setsKey(e.From)] = append(out[setsKey(e.From)], i)
	}
	short := map[string][]bfStep{"": {}}
	queue := []string{""}
	for len(queue) > 0 {
		s := queue[0]
		queue = queue[1:]
		for _, ei := range out[s] {
			e := edges[ei]
			tk := setsKey(e.To)
			if _, ok := short[tk]; !ok {
				short[tk] = append(append([]bfStep{}, short[s]...), bfStep{e.Op, e.F, e.Ks})
				queue = append(queue, tk)
			}
		}
	}
	report := func(steps []bfStep, variant int, want [][]string) {
		fs, err := runBf(steps, variant)
		if ok, d := judgeBfV(fs, err, want, variant); !ok {
			last := steps[len(steps)-1]
			c.Report(Violation{Signature: fmt.Sprintf("C19/BytesFilter/%s/filters-%d", last.Op, len(want)),
				Detail: fmt.Sprintf("steps %v (variant %d): %s", steps, variant, d),
				Replay: c19Replay{Kind: "filter", Steps: steps, Variant: variant, Want: want}})
		} else {
			infra("unreproducible filter mismatch")
		}
	}
	for _, e := range edges {
		path, ok := short[setsKey(e.From)]
		if !ok {
			infra("filter state without path %s", setsKey(e.From))
		}
		steps := append(append([]bfStep{}, path...), bfStep{e.Op, e.F, e.Ks})
		for variant := 0; variant < 4; variant++ {
			fs, err := runBf(steps, variant)
			nEval++
			if ok, _ := judgeBfV(fs, err, e.To, variant); !ok {
				report(steps, variant, e.To)
			}
		}
		if len(e.To) >= 2 {
			ev.Distinct("bf|" + setsKey(e.From) + e.Op + fmt.Sprint(e.F, e.Ks))
		}
		if len(e.To) == 3 && e.Op == "Add" {
			c.Sample("filter-transition", 2, map[string]interface{}{"steps": steps, "sets_after": e.To})
		}
	}
	// random walks (bucket capacity and aliasing depend on the order of appends)
	rng := c.Rand("bfwalks")
	for w := 0; w < c.Pick(3000, 60000); w++ {
		cur := ""
		var steps []bfStep
		var want [][]string
		for s := 0; s < 14; s++ {
			os_ := out[cur]
			if len(os_) == 0 {
				break
			}
			e := edges[os_[rng.Intn(len(os_))]]
			steps = append(steps, bfStep{e.Op, e.F, e.Ks})
			want = e.To
			cur = setsKey(e.To)
		}
		// judge after every prefix
		for n := 1; n <= len(steps); n++ {
			_ = n
		}
		variant := w % 2
		fs, err := runBf(steps, variant)
		nEval++
		if ok, _ := judgeBf(fs, err, want); !ok {
			// shrink to the shortest failing prefix
			wantAt := func(n int) [][]string {
				k := ""
				var wt [][]string
				for _, st := range steps[:n] {
					for _, ei := range out[k] {
						e := edges[ei]
						if e.Op == st.Op && e.F == st.F && fmt.Sprint(e.Ks) == fmt.Sprint(st.Ks) {
							wt = e.To
							k = setsKey(e.To)
							break
						}
					}
				}
				return wt
			}
			for n := 1; n <= len(steps); n++ {
				fs2, err2 := runBf(steps[:n], variant)
				if ok2, _ := judgeBf(fs2, err2, wantAt(n)); !ok2 {
					report(steps[:n], variant, wantAt(n))
					break
				}
			}
		}
	}
	ev.Set("graph_states", len(short))
	ev.Set("graph_edges", len(edges))

	// ---- C2M: law pairs
	pairs := genUtilPairs(c)
	bad, tr := judgePairs(c, pairs)
	ev.TLC("UtilLaws (law evaluation on recorded pairs)", tr)
	ev.Add("traces_validated_against_impl", int64(len(pairs)))
	nEval += int64(len(pairs))
	for _, p := range pairs {
		if string(intsToBytes(p.In)) != string(intsToBytes(p.Out)) || p.Var != nil {
			ev.Distinct("law|" + p.Fn + "|" + string(intsToBytes(p.In)) + "|" + string(intsToBytes(p.Var)))
		}
	}
	perSig := map[string]int{}
	for _, i := range bad {
		p := pairs[i]
		if perSig[p.Fn+lawClass(p)]++; perSig[p.Fn+lawClass(p)] > 3 {
			continue // each reproduction is a TLC run
		}
		// reproduce alone
		if b2, _ := judgePairs(c, []utilPair{makePair(p.Fn, intsToBytes(p.In), intsToBytes(p.Var))}); len(b2) == 0 {
			infra("pair rejected in the batch but accepted alone")
		}
		c.Report(Violation{Signature: "C19/" + p.Fn + "/" + lawClass(p),
			Detail: fmt.Sprintf("%s(%q) = %q; applied twice %q; variant %q -> %q", p.Fn, intsToBytes(p.In), intsToBytes(p.Out), intsToBytes(p.Out2), intsToBytes(p.Var), intsToBytes(p.OutV)),
			Replay: c19Replay{Kind: "law", Fn: p.Fn, In: p.In, Var: p.Var}})
	}
	for i, p := range pairs {
		if i%9973 == 5 {
			c.Sample("law-pair", 4, map[string]interface{}{"fn": p.Fn, "in": string(intsToBytes(p.In)), "out": string(intsToBytes(p.Out))})
		}
	}
	ev.Add("evaluations", nEval)
}

// ---------------------------------------------------------------------------------
// law pairs

type utilPair struct {
	Fn      string `json:"fn"`
	In      []int  `json:"in"`
	Out     []int  `json:"out"`
	Out2    []int  `json:"out2"`
	Var     []int  `json:"var,omitempty"`
	OutV    []int  `json:"outv"`
	Oor     bool   `json:"oor"`
	OorLong bool   `json:"oorlong"`
}

func bytesToInts(b []byte) []int {
	o := make([]int, len(b))
	for i, c := range b {
		o[i] = int(c)
	}
	return o
}
func intsToBytes(a []int) []byte {
	o := make([]byte, len(a))
	for i, c := range a {
		o[i] = byte(c)
	}
	return o
}

func lawClass(p utilPair) string {
	in := intsToBytes(p.In)
	switch {
	case p.Var != nil:
		return "variant"
	case !utf8.Valid(in):
		return "invalid-utf8-input"
	case strings.ContainsRune(string(in), '%'):
		return "percent"
	case strings.ContainsRune(string(in), '&'):
		return "reference"
	}
	return "other"
}

func callUtil(fn string, in []byte) []byte {
	cp := append([]byte{}, in...)
	switch fn {
	case "EscapeHTML":
		return util.EscapeHTML(cp)
	case "URLEscape":
		return util.URLEscape(cp, false)
	case "UnescapePunctuations":
		return util.UnescapePunctuations(cp)
	case "ResolveNumericReferences":
		return util.ResolveNumericReferences(cp)
	case "ResolveEntityNames":
		return util.ResolveEntityNames(cp)
	case "ToLinkReference":
		return []byte(util.ToLinkReference(cp))
	}
	infra("unknown util function %s", fn)
	return nil
}

func makePair(fn string, in, variant []byte) (p utilPair) {
	p = utilPair{Fn: fn, In: bytesToInts(in), Out: []int{}, Out2: []int{}, OutV: []int{}}
	defer func() {
		if r := recover(); r != nil {
			// a panic: recorded as an output no law accepts
			p.Out = []int{60}
			p.Out2 = []int{62}
			p.OutV = []int{34}
		}
	}()
	out := callUtil(fn, in)
	p.Out = bytesToInts(out)
	if fn == "URLEscape" || fn == "ToLinkReference" {
		p.Out2 = bytesToInts(callUtil(fn, out))
	}
	if fn == "ToLinkReference" {
		if variant == nil {
			variant = in
		}
		p.Var = bytesToInts(variant)
		p.OutV = bytesToInts(callUtil(fn, variant))
	}
	if fn == "ResolveNumericReferences" {
		p.Oor = numericRefOutOfRange(in)
		p.OorLong = numericRefTooLarge(in)
	}
	return p
}

// numericRefTooLarge: the whole input is one numeric reference, of ANY number of digits, whose
// value is above U+10FFFF: whether or not more digits than CommonMark allows still count as a
// reference, the result may be U+FFFD or the unchanged text, never some other character.
func numericRefTooLarge(in []byte) bool {
	s := string(in)
	if !strings.HasPrefix(s, "&#") || !strings.HasSuffix(s, ";") {
		return false
	}
	body := s[2 : len(s)-1]
	base := 10
	if strings.HasPrefix(body, "x") || strings.HasPrefix(body, "X") {
		base = 16
		body = body[1:]
	}
	if body == "" {
		return false
	}
	v, ok := new(big.Int).SetString(body, base)
	return ok && v.Cmp(big.NewInt(0x10FFFF)) > 0
}

// numericRefOutOfRange: the whole input is one numeric reference to 0, a surrogate or a
// code point above U+10FFFF (at most 7 digits, as CommonMark allows).
func numericRefOutOfRange(in []byte) bool {
	s := string(in)
	if !strings.HasPrefix(s, "&#") || !strings.HasSuffix(s, ";") {
		return false
	}
	body := s[2 : len(s)-1]
	base := 10
	if strings.HasPrefix(body, "x") || strings.HasPrefix(body, "X") {
		base = 16
		body = body[1:]
	}
	if len(body) == 0 || (base == 10 && len(body) > 7) || (base == 16 && len(body) > 6) {
		return false
	}
	var v int64
	for _, ch := range body {
		var d int64
		switch {
		case ch >= '0' && ch <= '9':
			d = int64(ch - '0')
		case base == 16 && ch >= 'a' && ch <= 'f':
			d = int64(ch-'a') + 10
		case base == 16 && ch >= 'A' && ch <= 'F':
			d = int64(ch-'A') + 10
		default:
			return false
		}
		v = v*int64(base) + d
	}
	return v == 0 || v > 0x10FFFF || (v >= 0xD800 && v <= 0xDFFF)
}

var utilAlphabet = [][]byte{{'a'}, {'A'}, {'%'}, {'4'}, {'g'}, {'&'}, {'#'}, {';'}, {'x'}, {' '}, {'<'}, {'"'}, {0xC3}, {0xA9}, {0xFF}, {'\\'}, {'>'}, {0x01}, {'\t'}, {0x7f}}

func genUtilPairs(c *Ctx) []utilPair {
	fns := []string{"EscapeHTML", "URLEscape", "UnescapePunctuations", "ResolveNumericReferences", "ResolveEntityNames", "ToLinkReference"}
	var pairs []utilPair
	add := func(fn string, in, variant []byte) { pairs = append(pairs, makePair(fn, in, variant)) }
	// exhaustive short strings
	maxLen := c.Pick(3, 4)
	var rec func(prefix []byte, n int)
	rec = func(prefix []byte, n int) {
		for _, fn := range fns {
			add(fn, prefix, nil)
		}
		if n == 0 {
			return
		}
		for _, a := range utilAlphabet {
			rec(append(append([]byte{}, prefix...), a...), n-1)
		}
	}
	rec(nil, maxLen)
	// structured seeds
	seeds := []string{"%4g", "%41", "%4", "%%41", "a%zzb", "%c3%a9", "é", "a b", "&amp;", "&lt;&gt;&quot;", "&#0;", "&#x110000;", "&#1114112;", "&#xD800;", "&#55296;", "&#xDFFF;", "&#x10FFFF;", "&#65;", "&#x41;",
		"&#9999999;", "&#xFFFFFF;", "&#x100000041;", "&#x100000000;", "&#xFFFFFFFF;", "&#x1000000000000041;", "&#x10000000000000041;", "&#X80000041;", "&#4294967361;", "&#18446744073709551681;", "&#99999999;", "&#x0000000041;", "&#0000000065;", "&#x00110000;", "&#2147483713;", "&copy;", "&nosuch;", "&nvlt;", "&nvgt;", "\\&\\#\\;", "\\a\\\\", "ẞ", "ß", "µ", "Μ", "K", "ǅ", "İ", "ſ", "ς", "Σ", " a  b ", "a\tb\n c", "http://a/b?c=d&e=f#g", "a\x00b", "\xe3", "\xf0\x9f", "\xc3",
		"日本語", "😀", "​", "a+b", "~", "'", "`", "{}", "|", "^", "[x]", " ", " "}
	for _, s := range seeds {
		for _, fn := range fns {
			add(fn, []byte(s), nil)
		}
	}
	// code points at the boundaries of the encoding and of the planes (U+FFFD, the replacement
	// character itself, is a VALID code point), a dense block around the Latin-1 boundary and a
	// stride through the whole range; literally, percent-encoded context and as numeric references
	var runes []rune
	for r := rune(0x7F); r <= 0x2FF; r++ {
		runes = append(runes, r)
	}
	runes = append(runes, 0x7FF, 0x800, 0xFFF, 0x1000, 0x2028, 0xD7FF, 0xE000, 0xFDD0, 0xFEFF, 0xFFFC, 0xFFFD, 0xFFFE, 0xFFFF, 0x10000, 0x1FFFE, 0x1FFFF, 0xE0000, 0xFFFFF, 0x100000, 0x10FFFD, 0x10FFFE, 0x10FFFF)
	for r := rune(0x300); r <= 0x10FFFF; r += 251 {
		if r < 0xD800 || r > 0xDFFF {
			runes = append(runes, r)
		}
	}
	for _, r := range runes {
		for _, fn := range fns {
			add(fn, []byte("a"+string(r)+"b"), nil)
			add(fn, []byte("/p%20"+string(r)+string(r)+"?q="+string(r)), nil)
		}
		add("URLEscape", []byte(fmt.Sprintf("/x&#%d;y&#x%X;", r, r)), nil)
		add("ResolveNumericReferences", []byte(fmt.Sprintf("&#%d;&#x%x;", r, r)), nil)
	}
	// every rune with a non-trivial simple-fold orbit: label case variants
	rng := c.Rand("pairs")
	nFold := 0
	for r := rune(0x41); r <= 0x1FFFF; r++ {
		o := unicode.SimpleFold(r)
		if o == r {
			continue
		}
		nFold++
		if !c.Thorough() && nFold%3 != int(c.Seed%3) && r > 0x250 {
			continue
		}
		base := "x " + string(r) + "y"
		for v := o; v != r; v = unicode.SimpleFold(v) {
			add("ToLinkReference", []byte(base), []byte("x  "+string(v)+"Y"))
		}
	}
	// random longer strings
	frag := []string{"%", "%4", "%41", "%zz", "&", "&#", "&#x", ";", "amp;", "lt;", "copy;", "nvlt;", "#55296;", "#x110000;", "#0;", "\\", "\\&", "<", ">", "\"", " ", "  ", "\t", "\n", "a", "B", "é", "ẞ", "µ", "K", "Σ", "ς", "\xc3", "\xa9", "\xff", "\xf0\x9f\x98", "\x00", "\x01", "\x7f", "日", "😀", "+", "/", ":", "?", "=", "'", "`", "|"}
	for i := 0; i < c.Pick(4000, 60000); i++ {
		var b []byte
		for n := 1 + rng.Intn(8); n > 0; n-- {
			b = append(b, frag[rng.Intn(len(frag))]...)
		}
		fn := fns[rng.Intn(len(fns))]
		var variant []byte
		if fn == "ToLinkReference" {
			variant = labelVariant(rng, b)
		}
		add(fn, b, variant)
	}
	return pairs
}

// labelVariant: same label up to whitespace runs and letter case.
func labelVariant(rng *rand.Rand, b []byte) []byte {
	if !utf8.Valid(b) {
		return nil
	}
	ws := []string{" ", "  ", "\t", "\n", " \t ", "\n "}
	var o []byte
	if rng.Intn(2) == 0 {
		o = append(o, ws[rng.Intn(len(ws))]...)
	}
	s := string(b)
	inWs := false
	for _, r := range s {
		if r == ' ' || r == '\t' || r == '\n' || r == '\r' {
			if !inWs {
				o = append(o, ws[rng.Intn(len(ws))]...)
			}
			inWs = true
			continue
		}
		inWs = false
		v := r
		for k := rng.Intn(3); k > 0; k-- {
			v = unicode.SimpleFold(v)
		}
		o = utf8.AppendRune(o, v)
	}
	if rng.Intn(2) == 0 {
		o = append(o, ws[rng.Intn(len(ws))]...)
	}
	return o
}

func judgePairs(c *Ctx, pairs []utilPair) ([]int, TLCResult) {
	var tr traceBuf
	for _, p := range pairs {
		if p.Var == nil {
			p.Var = []int{}
		}
		tr.add(p)
	}
	var verdict struct {
		Done     bool `json:"done"`
		Consumed int  `json:"consumed"`
		Bad      []struct {
			L  int    `json:"l"`
			Fn string `json:"fn"`
		} `json:"bad"`
	}
	got := false
	r := RunTLC(TLCOpts{Module: "UtilLaws", Cfg: "UtilLaws.cfg", Workers: 1, Timeout: 40 * time.Minute,
		Files: map[string][]byte{"pairs.ndjson": tr.bytes()}, OnJSON: func(raw []byte) {
			if json.Unmarshal(raw, &verdict) == nil && verdict.Done {
				got = true
			}
		}})
	r.MustOK("UtilLaws")
	if !got || verdict.Consumed != tr.n {
		infra("UtilLaws did not consume all pairs (%d of %d)\n%s", verdict.Consumed, tr.n, r.Tail)
	}
	var bad []int
	for _, b := range verdict.Bad {
		bad = append(bad, b.L-1)
	}
	return bad, r
}
