package main

// A strict tokenizer for the HTML goldmark emits, independent of goldmark's code. It refuses
// to guess: anything it cannot classify becomes a "bad" token with a reason.

import (
	"strings"
)

type hAttr struct {
	Name     string
	Value    string // raw (still escaped) value
	HasValue bool
}

type hTok struct {
	K     string // open | close | void(self-closing syntax) | text | comment | bad
	Tag   string
	Attrs []hAttr
	Text  string // text / comment body / offending bytes
	Why   string // for bad
	Pos   int
}

func (t hTok) attr(name string) (string, bool) {
	for _, a := range t.Attrs {
		if a.Name == name {
			return a.Value, true
		}
	}
	return "", false
}

func isAlpha(c byte) bool { return (c >= 'a' && c <= 'z') || (c >= 'A' && c <= 'Z') }
func isDigit(c byte) bool { return c >= '0' && c <= '9' }
func isHexC(c byte) bool  { return isDigit(c) || (c >= 'a' && c <= 'f') || (c >= 'A' && c <= 'F') }
func isWS(c byte) bool    { return c == ' ' || c == '\n' || c == '\t' || c == '\r' || c == '\f' }

// badAmpersand reports whether s contains an '&' that does not start a well-formed
// character reference (&name; &#digits; &#xhex;).
func badAmpersand(s string) bool {
	for i := 0; i < len(s); i++ {
		if s[i] != '&' {
			continue
		}
		j := i + 1
		ok := false
		if j < len(s) && s[j] == '#' {
			j++
			if j < len(s) && (s[j] == 'x' || s[j] == 'X') {
				j++
				st := j
				for j < len(s) && isHexC(s[j]) {
					j++
				}
				ok = j > st && j < len(s) && s[j] == ';'
			} else {
				st := j
				for j < len(s) && isDigit(s[j]) {
					j++
				}
				ok = j > st && j < len(s) && s[j] == ';'
			}
		} else if j < len(s) && isAlpha(s[j]) {
			for j < len(s) && (isAlpha(s[j]) || isDigit(s[j])) {
				j++
			}
			ok = j < len(s) && s[j] == ';'
		}
		if !ok {
			return true
		}
	}
	return false
}

func tokenizeHTML(b []byte) []hTok {
	var toks []hTok
	s := string(b)
	i := 0
	bad := func(pos int, why string, end int) {
		if end > len(s) {
			end = len(s)
		}
		toks = append(toks, hTok{K: "bad", Why: why, Text: s[pos:end], Pos: pos})
	}
	for i < len(s) {
		if s[i] != '<' {
			j := strings.IndexByte(s[i:], '<')
			if j < 0 {
				j = len(s) - i
			}
			toks = append(toks, hTok{K: "text", Text: s[i : i+j], Pos: i})
			i += j
			continue
		}
		// s[i] == '<'
		if strings.HasPrefix(s[i:], "<!--") {
			j := strings.Index(s[i+4:], "-->")
			if j < 0 {
				bad(i, "unterminated-comment", len(s))
				return toks
			}
			toks = append(toks, hTok{K: "comment", Text: s[i+4 : i+4+j], Pos: i})
			i += 4 + j + 3
			continue
		}
		if i+1 < len(s) && s[i+1] == '/' {
			j := i + 2
			st := j
			for j < len(s) && (isAlpha(s[j]) || isDigit(s[j])) {
				j++
			}
			if j == st || j >= len(s) || s[j] != '>' {
				bad(i, "malformed-close-tag", j+1)
				i++
				continue
			}
			toks = append(toks, hTok{K: "close", Tag: s[st:j], Pos: i})
			i = j + 1
			continue
		}
		if i+1 < len(s) && isAlpha(s[i+1]) {
			j := i + 1
			for j < len(s) && (isAlpha(s[j]) || isDigit(s[j])) {
				j++
			}
			t := hTok{K: "open", Tag: s[i+1 : j], Pos: i}
			okTag := false
			for j < len(s) {
				k := j
				for k < len(s) && isWS(s[k]) {
					k++
				}
				if k < len(s) && s[k] == '>' {
					j = k + 1
					okTag = true
					break
				}
				if k+1 < len(s) && s[k] == '/' && s[k+1] == '>' {
					t.K = "void"
					j = k + 2
					okTag = true
					break
				}
				if k == j { // an attribute must be preceded by white space
					break
				}
				// attribute name
				st := k
				for k < len(s) && (isAlpha(s[k]) || isDigit(s[k]) || s[k] == '-' || s[k] == '_' || s[k] == ':' || s[k] == '.') {
					k++
				}
				if k == st || !(isAlpha(s[st]) || s[st] == '_' || s[st] == ':') {
					break
				}
				a := hAttr{Name: s[st:k]}
				if k < len(s) && s[k] == '=' {
					if k+1 >= len(s) || s[k+1] != '"' {
						break
					}
					e := strings.IndexByte(s[k+2:], '"')
					if e < 0 {
						break
					}
					a.Value = s[k+2 : k+2+e]
					a.HasValue = true
					k = k + 2 + e + 1
				}
				t.Attrs = append(t.Attrs, a)
				j = k
			}
			if !okTag {
				bad(i, "malformed-tag", j+12)
				i++
				continue
			}
			toks = append(toks, t)
			i = j
			continue
		}
		bad(i, "raw-lt", i+12)
		i++
	}
	return toks
}

// headingIDs returns the id attribute of every h1..h6 start tag ("" when missing).
func headingIDs(out []byte) []string {
	ids := []string{}
	for _, t := range tokenizeHTML(out) {
		if t.K == "open" && len(t.Tag) == 2 && t.Tag[0] == 'h' && t.Tag[1] >= '1' && t.Tag[1] <= '6' {
			v, _ := t.attr("id")
			ids = append(ids, v)
		}
	}
	return ids
}
