package main

// C05 — Every parsed AST is a well-formed tree with all positions inside the source.
//
//  The tree returned by Parse is projected through the public ast.Node accessors (children
//  forward and backward, Parent / NextSibling / PreviousSibling, ChildCount, HasChildren,
//  kind, type, levels, every recorded segment) and TLC judges the projection against
//  AstShape.tla: link consistency in the sense of AstTree.tla, kind grammar, positions.
//  Positions are renamed order-preservingly per tree so that trees of the same shape are
//  judged once. Workload: Slots.tla product, short strings, repository and mutated documents
//  under every parser configuration.

import (
	"encoding/json"
	"fmt"
	"sort"
	"strings"
	"sync"

	"github.com/yuin/goldmark"
	"github.com/yuin/goldmark/ast"
	"github.com/yuin/goldmark/text"
)

func init() {
	register(&Check{ID: "C05", Level: "model_checking", Run: runC05, Replay: replayC05})
}

type projNode struct {
	K  string   `json:"k"`
	T  string   `json:"t"`
	F  []int    `json:"f"`
	B  []int    `json:"b"`
	C  int      `json:"c"`
	H  bool     `json:"h"`
	Pa int      `json:"pa"`
	Nx int      `json:"nx"`
	Pv int      `json:"pv"`
	Lv int      `json:"lv"`
	Ln [][3]int `json:"ln"`
	Sg [][3]int `json:"sg"`
	Tx bool     `json:"tx"`
}

type projTree struct {
	Len   int        `json:"len"`
	Nodes []projNode `json:"nodes"`
}

// projectTree reads the tree through public accessors only.
func projectTree(root ast.Node, srcLen int) (pt projTree, ok bool) {
	defer func() {
		if r := recover(); r != nil {
			ok = false
		}
	}()
	ids := map[ast.Node]int{}
	var order []ast.Node
	const limit = 20000
	var visit func(n ast.Node)
	visit = func(n ast.Node) {
		if _, seen := ids[n]; seen || len(order) >= limit {
			return
		}
		ids[n] = len(order) + 1
		order = append(order, n)
		k := 0
		for c := n.FirstChild(); c != nil && k < limit; c = c.NextSibling() {
			visit(c)
			k++
		}
		// nodes reachable only backwards must be seen too
		k = 0
		for c := n.LastChild(); c != nil && k < limit; c = c.PreviousSibling() {
			visit(c)
			k++
		}
	}
	visit(root)
	idOf := func(n ast.Node) int {
		if n == nil {
			return 0
		}
		if v, ok := ids[n]; ok {
			return v
		}
		return len(order) + 1 // a node outside the tree: an id no node has
	}
	seg3 := func(s text.Segment) [3]int { return [3]int{s.Start, s.Stop, s.Padding} }
	pt.Len = srcLen
	for _, n := range order {
		pn := projNode{K: n.Kind().String(), F: []int{}, B: []int{}, C: n.ChildCount(), H: n.HasChildren(),
			Pa: idOf(n.Parent()), Nx: idOf(n.NextSibling()), Pv: idOf(n.PreviousSibling()), Ln: [][3]int{}, Sg: [][3]int{}}
		switch n.Type() {
		case ast.TypeDocument:
			pn.T = "document"
		case ast.TypeBlock:
			pn.T = "block"
		default:
			pn.T = "inline"
		}
		k := 0
		for c := n.FirstChild(); c != nil && k < limit; c = c.NextSibling() {
			pn.F = append(pn.F, idOf(c))
			k++
		}
		k = 0
		for c := n.LastChild(); c != nil && k < limit; c = c.PreviousSibling() {
			pn.B = append(pn.B, idOf(c))
			k++
		}
		if n.Type() != ast.TypeInline {
			if ls := n.Lines(); ls != nil {
				for i := 0; i < ls.Len(); i++ {
					pn.Ln = append(pn.Ln, seg3(ls.At(i)))
				}
			}
		}
		switch t := n.(type) {
		case *ast.Text:
			pn.Sg = append(pn.Sg, seg3(t.Segment))
			pn.Tx = true
		case *ast.Heading:
			pn.Lv = t.Level
		case *ast.Emphasis:
			pn.Lv = t.Level
		case *ast.FencedCodeBlock:
			if t.Info != nil {
				pn.Sg = append(pn.Sg, seg3(t.Info.Segment))
			}
		case *ast.HTMLBlock:
			if t.HasClosure() {
				pn.Sg = append(pn.Sg, seg3(t.ClosureLine))
			}
		case *ast.RawHTML:
			if t.Segments != nil {
				for i := 0; i < t.Segments.Len(); i++ {
					pn.Sg = append(pn.Sg, seg3(t.Segments.At(i)))
				}
			}
		}
		pt.Nodes = append(pt.Nodes, pn)
	}
	return pt, len(order) < limit
}

// canonPositions renames all positions of the tree order-preservingly (0 and len included).
func canonPositions(pt *projTree) {
	set := map[int]bool{0: true, pt.Len: true}
	for _, n := range pt.Nodes {
		for _, s := range n.Ln {
			set[s[0]], set[s[1]] = true, true
		}
		for _, s := range n.Sg {
			set[s[0]], set[s[1]] = true, true
		}
	}
	var vals []int
	for v := range set {
		vals = append(vals, v)
	}
	sort.Ints(vals)
	rank := map[int]int{}
	zero := 0
	for i, v := range vals {
		rank[v] = i
		if v == 0 {
			zero = i
		}
	}
	// keep 0 at 0 so that negative positions stay negative
	for v := range rank {
		rank[v] -= zero
	}
	for i := range pt.Nodes {
		for j := range pt.Nodes[i].Ln {
			s := &pt.Nodes[i].Ln[j]
			s[0], s[1] = rank[s[0]], rank[s[1]]
			if s[2] > 0 {
				s[2] = 1
			}
		}
		for j := range pt.Nodes[i].Sg {
			s := &pt.Nodes[i].Sg[j]
			s[0], s[1] = rank[s[0]], rank[s[1]]
			if s[2] > 0 {
				s[2] = 1
			}
		}
	}
	pt.Len = rank[pt.Len]
}

type c05Case struct {
	Config mdConfig `json:"config"`
	Doc    rawDoc   `json:"doc"`
}

func c05Project(md goldmark.Markdown, doc string) (projTree, bool) {
	src := []byte(doc)
	var tree ast.Node
	func() {
		defer func() { recover() }()
		tree = md.Parser().Parse(text.NewReader(src))
	}()
	if tree == nil {
		return projTree{}, false
	}
	pt, ok := projectTree(tree, len(src))
	if !ok {
		// the walk did not terminate within the limit: report as a tree whose root has a parent
		return projTree{Len: len(src), Nodes: []projNode{{K: "Document", T: "document", F: []int{}, B: []int{}, Pa: 1, Ln: [][3]int{}, Sg: [][3]int{}}}}, true
	}
	canonPositions(&pt)
	return pt, true
}

func replayC05(c *Ctx, raw json.RawMessage) (bool, string) {
	var cs c05Case
	if err := json.Unmarshal(raw, &cs); err != nil {
		return false, err.Error()
	}
	pt, ok := c05Project(cs.Config.build(), string(cs.Doc))
	if !ok {
		return false, "parse failed"
	}
	bad, _ := tlcJudge("AstShape", "AstShape.cfg", "trees.ndjson", []interface{}{pt})
	if len(bad) > 0 {
		return true, fmt.Sprintf("config %s, document %q: %s", cs.Config, clip(string(cs.Doc), 300), bad[0].Why)
	}
	return false, "accepted"
}

func runC05(c *Ctx) {
	ev := c.Ev
	ev.Assumptions = []string{
		"TLC/SANY, Json/IOUtils; the projection reads the tree through ast.Node's public accessors only",
		"positions are renamed order-preservingly per tree (all position clauses are order comparisons), padding is abstracted to zero / positive",
		"kind grammar constants of AstShape.tla: ListItem only in List, table / definition-list / footnote containers, CodeSpan holds Text, no Link below Link, no Delimiter / LinkLabelState node",
	}
	ev.Set("rule", "case = one parsed document; distinct = distinct tree shapes after position renaming (judged by TLC) ; non-trivial = every shape with at least three nodes")
	var cfgs []mdConfig
	for _, e := range extSets {
		for m := 0; m < 4; m++ {
			cfgs = append(cfgs, mdConfig{Ext: e, AutoID: m&1 != 0, Attr: m&2 != 0})
		}
	}
	mds := make([]goldmark.Markdown, len(cfgs))
	for i, cf := range cfgs {
		mds[i] = cf.build()
	}
	step := c.Pick(4, 1)
	loadCorpus()
	var docs []string
	for _, sd := range slotDocs(c) {
		docs = append(docs, sd.Doc)
	}
	docs = append(docs, repoDocs...)
	shortStrings(shortAlphabet, 3, func(s string) { docs = append(docs, s) })
	g := newDocGen(c.Rand("mut"))
	for i := 0; i < c.Pick(3000, 60000); i++ {
		docs = append(docs, g.next())
	}
	// what the other generator modules enumerate: table candidates (escaped pipes in cells
	// and code spans are where the table transformer splices), CMGen / InlineGen documents
	gen := generatedDocs(c, c.Pick(16000, 200000))
	ev.Set("generated_documents", len(gen))
	docs = append(docs, gen...)
	// footnote orders, tab-indented fences, setext fallbacks, tables: where splices happen
	docs = append(docs, "one[^x] two[^z] three[^y]\n\n[^x]: X\n\n[^y]: Y\n\n[^z]: Z\n", "a[^3] b[^1] c[^2] d[^4]\n\n[^1]: 1\n[^2]: 2\n[^3]: 3\n[^4]: 4\n",
		">\t```c\nx\n", "- a\n\n\t```c\n\tx\n\t```\n", ">\t~~~ go\n> x\n", "- Foo\n--\n", "Foo\n---\n", "| a |\n|---|\n| b |\n", "t\n: d\n: e\n")
	perm := [][]int{{1, 2, 3}, {1, 3, 2}, {2, 1, 3}, {2, 3, 1}, {3, 1, 2}, {3, 2, 1}, {1, 3, 2, 4}, {4, 2, 3, 1}, {2, 4, 1, 3}}
	for _, p := range perm {
		var refs, defs strings.Builder
		for _, k := range p {
			fmt.Fprintf(&refs, "r[^n%d] ", k)
		}
		for k := 1; k <= len(p); k++ {
			fmt.Fprintf(&defs, "[^n%d]: note %d\n\n", k, k)
		}
		docs = append(docs, refs.String()+"\n\n"+defs.String())
	}
	// ATX headings with a trailing attribute block: the content line is re-cut around the closing
	// sequence and the attributes, also when the content is empty. Each document is listed `step`
	// times in a row so that it meets every (AutoID, Attr) combination in the quick rotation too.
	nAtx := 0
	for _, pre := range []string{"", "> ", "- ", "  "} {
		for _, lv := range []string{"#", "##", "###"} {
			for _, content := range []string{"", " ", "a", "a b", "\\#", "*e*"} {
				for _, closing := range []string{"", " #", " ##", "#", "  ###  ", "\t#"} {
					for _, attr := range []string{"{#id}", " {.c}", "  {k=v}", "{#i .c k=\"v\"}", "{", "{}"} {
						d := pre + lv + " " + content + closing + attr + "\n"
						for k := 0; k < step; k++ {
							docs = append(docs, d)
						}
						nAtx++
					}
				}
			}
		}
	}
	ev.Set("atx_attribute_headings", nAtx)
	ev.Set("documents", len(docs))
	ev.Set("configurations", len(cfgs))
	type wit struct{ d, c int }
	var mu sync.Mutex
	seen := map[string]int{}
	var recs []interface{}
	var wits []wit
	var nParse int64
	parallelFor(len(docs), func(di int) {
		for ci := di % step; ci < len(cfgs); ci += step {
			pt, ok := c05Project(mds[ci], docs[di])
			if !ok {
				continue
			}
			b, _ := json.Marshal(pt)
			mu.Lock()
			nParse++
			if _, ok := seen[string(b)]; !ok {
				seen[string(b)] = len(recs)
				recs = append(recs, pt)
				wits = append(wits, wit{di, ci})
			}
			mu.Unlock()
		}
	})
	ev.Add("evaluations", nParse)
	for i, r := range recs {
		if len(r.(projTree).Nodes) >= 3 {
			ev.Distinct(fmt.Sprint(i))
		}
	}
	bad, tr := tlcJudge("AstShape", "AstShape.cfg", "trees.ndjson", recs)
	ev.TLC("AstShape (acceptor over distinct tree shapes)", tr)
	ev.Add("traces_validated_against_impl", int64(len(recs)))
	perSig := map[string]int{}
	for _, b := range bad {
		w := wits[b.L-1]
		sig := "C05/" + b.Why
		if perSig[sig]++; perSig[sig] > 2 {
			continue
		}
		cs := c05Case{Config: cfgs[w.c], Doc: rawDoc(docs[w.d])}
		raw, _ := json.Marshal(cs)
		ok, detail := replayC05(c, raw)
		if !ok {
			infra("tree rejected in the batch but accepted alone: %s", raw)
		}
		c.Report(Violation{Signature: sig, Detail: detail, Replay: cs})
	}
	for i := 0; i < len(recs); i += len(recs)/4 + 1 {
		c.Sample("tree-shape", 4, map[string]interface{}{"doc": clip(docs[wits[i].d], 100), "config": cfgs[wits[i].c].String(), "nodes": len(recs[i].(projTree).Nodes)})
	}
}
