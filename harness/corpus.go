package main

// Workload sources shared by the document-level checks: configurations of the library,
// the repository's own example documents, and the seeded mutational generator.

import (
	"bytes"
	"encoding/json"
	"fmt"
	"math/rand"
	"os"
	"path/filepath"
	"strings"
	"sync"

	"github.com/yuin/goldmark"
	"github.com/yuin/goldmark/ast"
	"github.com/yuin/goldmark/extension"
	"github.com/yuin/goldmark/parser"
	"github.com/yuin/goldmark/renderer"
	"github.com/yuin/goldmark/renderer/html"
	"github.com/yuin/goldmark/util"
)

// repoRoot is /repo; VERIF_REPO points a background run at a snapshot of it (the registered
// commands never set it).
var repoRoot = func() string {
	if r := os.Getenv("VERIF_REPO"); r != "" {
		return r
	}
	return "/repo"
}()

// ---------------------------------------------------------------------------------
// configurations

type mdConfig struct {
	Ext       string `json:"ext"` // core gfm deflist footnote typographer cjk cjk3 all (+ single members)
	AutoID    bool   `json:"autoid,omitempty"`
	Attr      bool   `json:"attr,omitempty"`
	Unsafe    bool   `json:"unsafe,omitempty"`
	XHTML     bool   `json:"xhtml,omitempty"`
	HardWraps bool   `json:"hardwraps,omitempty"`
	// FnPrefix: footnote id prefix (renderer option of the Footnote extension), handed over as a
	// byte slice with spare capacity, as a caller that builds it with append would
	FnPrefix string `json:"fnprefix,omitempty"`
}

func (c mdConfig) String() string {
	s := c.Ext
	for _, f := range []struct {
		on bool
		n  string
	}{{c.AutoID, "autoid"}, {c.Attr, "attr"}, {c.Unsafe, "unsafe"}, {c.XHTML, "xhtml"}, {c.HardWraps, "hardwraps"}} {
		if f.on {
			s += "+" + f.n
		}
	}
	if c.FnPrefix != "" {
		s += "+fnprefix=" + c.FnPrefix
	}
	return s
}

var extSets = []string{"core", "gfm", "deflist", "footnote", "typographer", "cjk", "cjk3", "all"}

func extensionsOf(name string) []goldmark.Extender {
	switch name {
	case "core":
		return nil
	case "gfm":
		return []goldmark.Extender{extension.GFM}
	case "gfm4":
		return []goldmark.Extender{extension.Linkify, extension.Table, extension.Strikethrough, extension.TaskList}
	case "table":
		return []goldmark.Extender{extension.Table}
	case "tableattr":
		return []goldmark.Extender{extension.NewTable(extension.WithTableCellAlignMethod(extension.TableCellAlignAttribute))}
	case "strikethrough":
		return []goldmark.Extender{extension.Strikethrough}
	case "tasklist":
		return []goldmark.Extender{extension.TaskList}
	case "linkify":
		return []goldmark.Extender{extension.Linkify}
	case "deflist":
		return []goldmark.Extender{extension.DefinitionList}
	case "footnote":
		return []goldmark.Extender{extension.Footnote}
	case "typographer":
		return []goldmark.Extender{extension.Typographer}
	case "cjk":
		return []goldmark.Extender{extension.NewCJK(extension.WithEastAsianLineBreaks(), extension.WithEscapedSpace())}
	case "cjk3":
		return []goldmark.Extender{extension.NewCJK(extension.WithEastAsianLineBreaks(extension.EastAsianLineBreaksCSS3Draft), extension.WithEscapedSpace())}
	case "cjkes":
		return []goldmark.Extender{extension.NewCJK(extension.WithEscapedSpace())}
	case "all":
		return []goldmark.Extender{extension.GFM, extension.DefinitionList, extension.Footnote, extension.Typographer,
			extension.NewCJK(extension.WithEastAsianLineBreaks(), extension.WithEscapedSpace())}
	case "allattr": // all, table alignment pinned to the attribute method, east-asian line breaks off (C10)
		return []goldmark.Extender{extension.Linkify, extension.NewTable(extension.WithTableCellAlignMethod(extension.TableCellAlignAttribute)),
			extension.Strikethrough, extension.TaskList, extension.DefinitionList, extension.Footnote, extension.Typographer}
	case "gfmattr": // GFM members with table alignment pinned to the attribute method (C10)
		return []goldmark.Extender{extension.Linkify, extension.NewTable(extension.WithTableCellAlignMethod(extension.TableCellAlignAttribute)), extension.Strikethrough, extension.TaskList}
	case "footnote-pt", "fnfunc-pt": // footnote parsers without the AST transformer (ground truth for C16)
		return []goldmark.Extender{fnParsersOnly{}}
	case "fnfunc": // footnote ids prefixed by a function of the document (differs from document to document)
		return []goldmark.Extender{extension.NewFootnote(extension.WithFootnoteIDPrefixFunction(func(n ast.Node) []byte {
			b := make([]byte, 0, 32)
			if d := n.OwnerDocument(); d != nil && d.ChildCount()%2 == 0 {
				return append(b, "e-"...)
			}
			return append(b, "o-"...)
		}))}
	case "nocjk-pt":
		return []goldmark.Extender{extension.GFM, extension.DefinitionList, fnParsersOnly{}, extension.Typographer}
	case "all-pt":
		return []goldmark.Extender{extension.GFM, extension.DefinitionList, fnParsersOnly{}, extension.Typographer,
			extension.NewCJK(extension.WithEastAsianLineBreaks(), extension.WithEscapedSpace())}
	case "allopts": // every extension with non-default options (templates, functions, regexps, substitutions)
		return []goldmark.Extender{
			extension.NewLinkify(extension.WithLinkifyAllowedProtocols([]string{"http:", "https:", "ftp:"})),
			extension.NewTable(extension.WithTableCellAlignMethod(extension.TableCellAlignStyle), extension.WithTableHTMLOptions(html.WithXHTML())),
			extension.Strikethrough, extension.TaskList, extension.DefinitionList,
			extension.NewFootnote(extension.WithFootnoteLinkClass("fn-^^-%%"), extension.WithFootnoteBacklinkClass("bk-%%"), extension.WithFootnoteLinkTitle("to ^^"),
				extension.WithFootnoteBacklinkTitle("back %% of ^^"), extension.WithFootnoteBacklinkHTML("^"), extension.WithFootnoteIDPrefixFunction(func(n ast.Node) []byte {
					if n.OwnerDocument() != nil && n.OwnerDocument().ChildCount()%2 == 0 {
						return []byte("e-")
					}
					return []byte("o-")
				})),
			extension.NewTypographer(extension.WithTypographicSubstitutions(map[extension.TypographicPunctuation]string{
				extension.LeftDoubleQuote: "<<", extension.RightDoubleQuote: ">>", extension.EnDash: "--", extension.Ellipsis: "...."})),
			extension.NewCJK(extension.WithEastAsianLineBreaks(extension.EastAsianLineBreaksCSS3Draft), extension.WithEscapedSpace())}
	case "nocjk": // everything except CJK
		return []goldmark.Extender{extension.GFM, extension.DefinitionList, extension.Footnote, extension.Typographer}
	}
	infra("unknown extension set %q", name)
	return nil
}

func (c mdConfig) build() goldmark.Markdown {
	var popts []parser.Option
	if c.AutoID {
		popts = append(popts, parser.WithAutoHeadingID())
	}
	if c.Attr {
		popts = append(popts, parser.WithAttribute())
	}
	var ropts []renderer.Option
	if c.Unsafe {
		ropts = append(ropts, html.WithUnsafe())
	}
	if c.XHTML {
		ropts = append(ropts, html.WithXHTML())
	}
	if c.HardWraps {
		ropts = append(ropts, html.WithHardWraps())
	}
	if c.FnPrefix != "" && c.FnPrefix != "?" {
		ropts = append(ropts, extension.WithFootnoteIDPrefix(append(make([]byte, 0, 64), c.FnPrefix...)))
	}
	return goldmark.New(goldmark.WithExtensions(extensionsOf(c.Ext)...), goldmark.WithParserOptions(popts...), goldmark.WithRendererOptions(ropts...))
}

// the full lattice of C01: 8 extension sets x {autoid, attr} x {unsafe, xhtml, hardwraps}
func allConfigs() []mdConfig {
	var out []mdConfig
	for _, e := range extSets {
		for m := 0; m < 32; m++ {
			out = append(out, mdConfig{Ext: e, AutoID: m&1 != 0, Attr: m&2 != 0, Unsafe: m&4 != 0, XHTML: m&8 != 0, HardWraps: m&16 != 0})
		}
	}
	return out
}

func safeConfigs() []mdConfig {
	var out []mdConfig
	for _, c := range allConfigs() {
		if !c.Unsafe {
			out = append(out, c)
		}
	}
	return out
}

// fnParsersOnly registers the footnote block and inline parsers (same priorities as the
// extension) but neither its AST transformer nor its renderer: the parsed tree keeps every
// definition and every reference.
type fnParsersOnly struct{}

func (fnParsersOnly) Extend(m goldmark.Markdown) {
	m.Parser().AddOptions(
		parser.WithBlockParsers(util.Prioritized(extension.NewFootnoteBlockParser(), 999)),
		parser.WithInlineParsers(util.Prioritized(extension.NewFootnoteParser(), 101)),
	)
}

// convert runs Convert with panic capture.
func convertWith(md goldmark.Markdown, src []byte) (out []byte, err error) {
	defer func() {
		if r := recover(); r != nil {
			err = fmt.Errorf("panic: %v", r)
		}
	}()
	var buf bytes.Buffer
	if e := md.Convert(src, &buf); e != nil {
		return buf.Bytes(), e
	}
	return buf.Bytes(), nil
}

// ---------------------------------------------------------------------------------
// repository documents

type specExample struct {
	Markdown string `json:"markdown"`
	HTML     string `json:"html"`
	Example  int    `json:"example"`
	Section  string `json:"section"`
}

var (
	corpusOnce   sync.Once
	specExamples []specExample
	repoDocs     []string // markdown of every example in the repository's test files
)

func loadCorpus() {
	corpusOnce.Do(func() {
		b, err := os.ReadFile(filepath.Join(repoRoot, "_test", "spec.json"))
		if err != nil {
			infra("cannot read spec.json: %v", err)
		}
		if err := json.Unmarshal(b, &specExamples); err != nil {
			infra("spec.json: %v", err)
		}
		for _, e := range specExamples {
			repoDocs = append(repoDocs, e.Markdown)
		}
		files, _ := filepath.Glob(filepath.Join(repoRoot, "_test", "*.txt"))
		f2, _ := filepath.Glob(filepath.Join(repoRoot, "extension", "_test", "*.txt"))
		for _, f := range append(files, f2...) {
			b, err := os.ReadFile(f)
			if err != nil {
				continue
			}
			parts := strings.Split(string(b), "//- - - - - - - - -//\n")
			for i := 1; i+1 < len(parts); i += 2 {
				repoDocs = append(repoDocs, parts[i])
			}
		}
		repoDocs = append(repoDocs, exoticDocs...)
		for _, p := range []string{"- a\n", "> a\n", "a\n\n", "1. a\n", "- a\n  - b\n", "- a\n\n", "| a |\n", "a[^1]\n\n[^1]: n\n\n"} {
			for _, n := range []int{2, 17, 60, 61, 62, 63, 64, 65, 123, 124, 125, 127, 128, 129, 255, 256, 257} {
				repoDocs = append(repoDocs, strings.Repeat(p, n)+"- x\n\n- y\n")
			}
		}
		if len(specExamples) < 600 || len(repoDocs) < 700 {
			infra("corpus too small: %d spec examples, %d documents", len(specExamples), len(repoDocs))
		}
	})
}

// exoticDocs: hand-written documents for constructs the repository's examples do not contain
// (most of them were added after a seeded change slipped through because no workload
// document had the construct). They join repoDocs and are therefore mutated and spliced too.
var exoticDocs = []string{
	// attribute blocks that repeat a name or mix the shorthand and the long form (values are merged)
	"## Title {class=a .b}\n", "## T ## {class=a .b} x\n", "# h {.a class=b .c class=\"d e\"}\n", "h {class=a class=b}\n===\n", "# h {#i id=j .k}\n", "### h {class=first .second .third k=v k=w}\n\ntext\n",
	// headings whose ids differ only in separators at the edges
	"# a\n\n# a_\n\n# a -\n\n# -a\n\n# a--\n\n# a-1-\n\n# a\n", "# FAQ\n\n## FAQ -\n\nRelease notes\n===\n\n## Release notes \u2728\n",
	"# h {id=\"a<b\" class=\"c&d\" data-x='y\"z'}\n\nh {.a Class=1 cLASS=null}\n===\n\n## t {#i .c k=v title=\"q\"}\n",
	"# a {ID=x #y Id=\"z\"}\n\n## b {class=1 .c}\n\n### c {style=\"x:y\" lang=en}\n\n#### d {.a .b .a}\n",
	"<DIV>\nx\n</DIV>\n\n<Table>\n<TR><TD>a</TD></TR>\n</Table>\n\n<sCript>\ny\n</sCript>\n\n<Pre>\nz\n</Pre>\n\ntext <Span CLASS=\"x\">i</Span> <BR/>\n",
	"&#x100000041; &#4294967361; &#x0; &#xD800; &#1114112; &#x10FFFF; &#0000065; [a](/p&#8364;q&#x20AC; \"t&#8364;\") ![i](/i&#233;.png) [b](&#65;bc) <http://a.b/&#233;>\n\n[r]: &#x41;bc '&#66;'\n\n[r]\n",
	"| a | b |\n|---|:-:|\n| `x\\|y\\|z` | *e\\|f* |\n| 1 | 2 ||\n| \\| | `\\|\\|` |\n|\n| only |\n",
	"| h |\n|--|\n| [l](/u \"t\\|t\") ![i](/s) |\n\n|a|b|\n|-|-|\n|`c`|~~d~~|\n\nx | y\n--|--\n1 | 2\n",
	"first[^x] and again[^x] and[^z]\n\n[^x]: one\n[^y]: never\n[^z]: two[^x]\n\n> [^q]: in quote\n\n- [^l]: in list[^q]\n",
	"a[^1][^2][^1]\n\n[^1]: x\n\n    y\n\n[^2]: ![i[^1]](/u)\n\n[^3]: z[^4]\n\n[^4]: w\n",
	"1.\n   - - -\n\n*\n  +\n    a\n\n-\n  foo\n-\n\n  bar\n\n7)\n   7) x\n",
	"- a\n\n  Foo\n  ---\n- b\n\n1. x\n\n   y\n   ===\n\n- p\n\n      code\n- q\n",
	"> `foo\n> bar` and [l\n> m](/u 't\n> u') <b a='x\n> y'>\n\n- `a\n  b` [x\n  y]\n\n[x y]: /z\n",
	">```\n```\nfoo\n\n- ~~~\n- ~~~\n  bar\n\n> <!--\n<!--\n-->\n\n1. <div>\n2. <div>\n   x\n",
	"`a`  \nb *c*  \nd [e](/f)  \ng <h>  \ni ![j](/k)  \nl\\\n\\\tm \\ n\n",
	"\"open 'single -- and --- dash... <<q>> \"close\"\n\n'tis \"a\" 'b' 1'2\" x--y a...b\n",
	"www.a.b/c_d http://a.b/(x) a@b.c ftp://f.g/h https://x.y/z?q=1&r=2, (www.p.q) mailto:m@n.o x.y@z\n\n<www.a.b> www.a.b/<c>\n",
	"- [ ]\n- [X] x\n- [x]y\n1. [ ] o\n   - [ ] n\n\n* [ ] [l](/u)\n+ [x] `c`\n",
	"t1\nt2\n: d1\n\n  p\n: d2\n\nt3\n\n: d3\n:d4\n\n> t\n> : d\n\n- t\n  : d\n",
	"日本語\\ \nの *文*\n章。a\nb，\nc\\ d\n\n全角　空白\n",
	"~~a~~ ~b~ ~~~c~~~ ~~d ~e~ f~~ a~~b~~c ~~ g ~~\n",
	"*a **b** _c_* __d *e* f__ ***g*** *__h__* _**i**_ a*b*c a_b_c *(j)* *\"k\"* **l*m*n**\n",
	"[a [b] c](/u) [![i](/s)](/u) [x [y](/z) w](/v) [a](<b c> 'd') [e](f (g)) [h]( i ) [j](k\\)l) [m](n(o)p)\n",
	"[A]: /1\n[a]: /2\n[ a ]: /3\n[ẞ]: /4\n\n[a] [A] [ a ] [SS] [ss] [ẞ] [a][] [x][A]\n",
	"    code\n\n\tcode2\n  \tcode3\n\n- a\n\n\tb\n\n>\tq\n\n-\tli\n\n1.\tol\n",
	"# \n#\n## \n\n===\n\n---\na\n---\n\n***\n* * *\n_ _ _\n\n+++\n",
	"```\n\n```\n\n~~~ a b\n~~~\n\n```` x\n```\n````\n\n   ```\n   x\n  ```\n\n```\nunclosed\n",
	"<!-- c -->\n\n<?p?>\n\n<!D>\n\n<![CDATA[x]]>\n\n<a\nb>\n\n</c>\n\n<d e=\"f\" g='h' i=j k>\n",
	"a\\\nb\\\\\nc\\\\\\\nd  \ne   \nf \ng\n",
	"\\!\\\"\\#\\$\\%\\&\\'\\(\\)\\*\\+\\,\\-\\.\\/\\:\\;\\<\\=\\>\\?\\@\\[\\\\\\]\\^\\_\\`\\{\\|\\}\\~ \\a \\1 \\ \n",
	"&amp; &AMP; &Aacute; &aacute; &nbsp; &ThickSpace; &nosuch; &amp &#; &#x; &#xg; &#12345678; &#x1234567;\n",
	"[^a]\n\n[^a]:\n    x\n\n[^b]: y\n[^a]: dup\n\nz[^b][^B]\n",
	"> - a\n>\n>   b\n> - c\n>\n> 1. d\n>\n>    > e\n>    f\n",
	"- a\n - b\n  - c\n   - d\n    - e\n\n1. a\n 2. b\n  3. c\n   4. d\n    5. e\n",
}

// ---------------------------------------------------------------------------------
// mutational generator

var mutTokens = []string{
	"\n", "\n", "\n\n", " ", "  ", "    ", "\t", "\r\n", "\r", "\x00", "\x80", "\xc3", "\xe3\x81", "é", "日本", "，", "​", " ",
	"*", "**", "_", "__", "~", "~~", "`", "``", "```", "~~~", "#", "## ", "###### ", "=", "===", "-", "--", "---", "- ", "* ", "+ ", "1. ", "1) ", "10. ", "> ", ">",
	"[", "]", "(", ")", "[^", "[^1]", "[^1]: ", "[a]: /u \"t\"\n", "[a]", "[a][]", "[x](y)", "![", "](", "<", ">", "</", "<!--", "-->", "<?", "?>", "<![CDATA[", "]]>", "<!A", "<div>", "</div>", "<script>", "<pre>", "<a href=\"x\">",
	"&", "&amp;", "&#", "&#x", "&#0;", "&#x110000;", "&copy;", "&colon;", "&Tab;", ";", "\\", "\\\\", "\\*", "\\\n", "  \n", "|", "| a | b |\n", "|---|---|\n", "|:-:|", ":", ": def\n", "\"", "'", "...", "--", "<<", ">>",
	"{", "}", "{#id}", "{.c}", "{k=v}", "{id=1}", "{k=\"v\\", "{id=\"a<\"}", "{class=\"b&\"}", "{Class=1 .c}", " {.x}\n===\n", "<DIV>", "</DIV>", "<Table>", "&#x100000041;", "&#4294967361;", "`x\\|y\\|z`", "\\|", "||\n", "[^x][^x]", "-\n  ", "1.\n   ", "\\\t", "  \n", "`a\n", "\n---\n", "\n===\n", "[l\nm]", "(/u 't\nu')", "http://a.b/c", "www.a.b", "a@b.c", "javascript:", "[ ] ", "[x] ", "a", "b", "foo", "Bar", "x y", "1", "0",
	"Www.a.bc", "WWW.A.BC", "wWw.", "ww.", "http //", "(c)", "(tm)", "1/2", ",,", "(x) ", "[1]", "^1", "\n; ", "\n~ ", "| = |\n", "|:=:|", "==", "^^", "\u0100", "\u00ff", "\u2003", "\u3000", "\\  \n\\", "{k=[1]}", "{data-x=[true, \"a\"]}", "{title=1.5}", "{k=null}", ">\t```\n", "<a&b@c.de>",
}

type docGen struct {
	rng *rand.Rand
}

func newDocGen(rng *rand.Rand) *docGen {
	loadCorpus()
	return &docGen{rng: rng}
}

func (g *docGen) base() string {
	switch g.rng.Intn(10) {
	case 0:
		return ""
	case 1, 2:
		// splice lines of two documents
		a := strings.SplitAfter(repoDocs[g.rng.Intn(len(repoDocs))], "\n")
		b := strings.SplitAfter(repoDocs[g.rng.Intn(len(repoDocs))], "\n")
		i, j := g.rng.Intn(len(a)+1), g.rng.Intn(len(b)+1)
		return strings.Join(a[:i], "") + strings.Join(b[j:], "")
	}
	return repoDocs[g.rng.Intn(len(repoDocs))]
}

// next returns a mutated document.
func (g *docGen) next() string {
	s := g.base()
	n := g.rng.Intn(6)
	if s == "" {
		n = 2 + g.rng.Intn(10)
	}
	b := []byte(s)
	for ; n > 0; n-- {
		tok := mutTokens[g.rng.Intn(len(mutTokens))]
		pos := 0
		if len(b) > 0 {
			pos = g.rng.Intn(len(b) + 1)
		}
		switch g.rng.Intn(4) {
		case 0: // delete
			if len(b) > 0 {
				l := 1 + g.rng.Intn(3)
				if pos+l > len(b) {
					l = len(b) - pos
				}
				b = append(b[:pos:pos], b[pos+l:]...)
			}
		case 1: // replace
			if pos < len(b) {
				b = append(append(append([]byte{}, b[:pos]...), tok...), b[pos+1:]...)
			}
		default: // insert
			b = append(append(append([]byte{}, b[:pos]...), tok...), b[pos:]...)
		}
	}
	if len(b) > 4096 {
		b = b[:4096]
	}
	return string(b)
}

// shortStrings enumerates every string of length <= n over alphabet (as byte strings).
func shortStrings(alphabet []string, n int, f func(string)) {
	var rec func(prefix string, k int)
	rec = func(prefix string, k int) {
		f(prefix)
		if k == 0 {
			return
		}
		for _, a := range alphabet {
			rec(prefix+a, k-1)
		}
	}
	rec("", n)
}

var shortAlphabet = []string{"a", " ", "\n", "\t", "*", "_", "`", "[", "]", "(", ")", "<", ">", "#", "-", "\\", "&", "!", ":", "|", "\x80", "\xe3"}
