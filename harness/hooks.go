package main

// Installation of the verif-tagged hooks of /repo (parser.VerifHook, renderer.VerifHook,
// util.VerifHook). Events are routed to per-call sinks keyed by the object the caller
// passed in (the text.Reader for parse events, the writer for render events), so
// concurrent calls are attributed without goroutine ids.

import (
	"sync"
	"sync/atomic"

	"github.com/yuin/goldmark/ast"
	"github.com/yuin/goldmark/parser"
	"github.com/yuin/goldmark/renderer"
	"github.com/yuin/goldmark/text"
	"github.com/yuin/goldmark/util"
)

type hookSink func(ev string, args []interface{})

var (
	hookSinks   sync.Map // key (reader / writer / "*") -> hookSink
	hooksOnce   sync.Once
	globalSinks sync.Map // name -> hookSink receiving every event (gates for C07)
)

// blockRec, when set, receives every parser event (the block-phase recorder of /repo)
var blockRec atomic.Pointer[func(ev string, args ...interface{})]

func installHooks() {
	hooksOnce.Do(func() {
		dispatch := func(ev string, args ...interface{}) {
			if r := blockRec.Load(); r != nil {
				(*r)(ev, args...)
			}
			globalSinks.Range(func(_, v interface{}) bool {
				v.(hookSink)(ev, args)
				return true
			})
			if len(args) == 0 {
				return
			}
			// which argument identifies the call (an object the caller passed in)
			var key interface{}
			switch ev {
			case "ParseEnter", "InitEnter", "InitStep", "InitDone", "TablesRead", "ParseReturn", "RInitEnter", "RInitDone", "RTablesRead":
				if len(args) > 1 {
					key = args[1]
				}
			case "EndOfInput", "Open", "Continue", "RenderNode":
				key = args[0]
			}
			if key == nil {
				return
			}
			if s, ok := hookSinks.Load(key); ok {
				s.(hookSink)(ev, args)
			}
		}
		parser.VerifHook = dispatch
		renderer.VerifHook = dispatch
		util.VerifHook = dispatch
	})
}

// openKindsAtEOF parses src with p and returns the kinds of the blocks that are still open
// when the input ends (hook event EndOfInput), outermost first.
func openKindsAtEOF(p parser.Parser, src []byte) (kinds []string, root ast.Node) {
	installHooks()
	rd := text.NewReader(src)
	got := false
	hookSinks.Store(rd, hookSink(func(ev string, args []interface{}) {
		if ev == "EndOfInput" && !got {
			got = true
			for _, b := range args[1].([]parser.Block) {
				kinds = append(kinds, b.Node.Kind().String())
			}
		}
	}))
	defer hookSinks.Delete(rd)
	root = p.Parse(rd)
	if !got {
		infra("hook EndOfInput was not emitted (harness must be built with -tags verif)")
	}
	return kinds, root
}
