package main

// C09 — Closed blocks render independently; reference definitions work from anywhere.
//
//  Laws (Meta.tla): ConcatLaw  out(A ++ blank ++ "# h" ++ blank ++ B) = out(A) ++ out("# h") ++ out(B)
//                   SameLaw    out(defs ++ D) = out(D ++ defs)
//  Side condition "A does not end inside an open fenced / indented code block or HTML block"
//  is read off the real parse: the hook event EndOfInput lists the blocks still open when
//  the input ends (a textual heuristic mis-classifies fences opened inside list items).
//  Workload: ALL pairs of short block-structure strings (exhaustive), pairs of Slots.tla /
//  repository / mutated documents; definition sets in every spelling x placement.

import (
	"encoding/json"
	"fmt"
	"sort"
	"strings"
	"sync"
	"time"

	"github.com/yuin/goldmark"
)

func init() {
	register(&Check{ID: "C09", Level: "model_checking", Run: runC09, Replay: replayC09})
}

type c09Case struct {
	Kind   string   `json:"kind"` // concat | defs
	Config mdConfig `json:"config"`
	A      rawDoc   `json:"a,omitempty"`
	B      rawDoc   `json:"b,omitempty"`
	D      rawDoc   `json:"d,omitempty"`
	Defs   rawDoc   `json:"defs,omitempty"`
	// ModelClosed: A comes from BlockSem.tla and the MODEL holds no fenced code or HTML block open
	// after its last line; the side condition is then the model's, not the one read from the
	// implementation's own state (a parser that fails to close a block must not excuse itself)
	ModelClosed bool `json:"model_closed,omitempty"`
}

const c09Heading = "# zq\n"

func c09Join(a, b string) string {
	sep := "\n"
	if a != "" && !strings.HasSuffix(a, "\n") {
		sep = "\n\n"
	}
	return a + sep + c09Heading + "\n" + b
}

func closedAtEOF(md goldmark.Markdown, doc string) bool {
	kinds, _ := openKindsAtEOF(md.Parser(), []byte(doc))
	for _, k := range kinds {
		if k == "FencedCodeBlock" || k == "CodeBlock" || k == "HTMLBlock" {
			return false
		}
	}
	return true
}

// c09Record: the law record for one case; ok=false when the side conditions fail.
func c09Record(md goldmark.Markdown, cs c09Case) (rec map[string]interface{}, detail string, ok bool) {
	lb := newLaw()
	if cs.Kind == "concat" {
		a, b := string(cs.A), string(cs.B)
		if strings.ContainsAny(a+b, "[\r") || (!cs.ModelClosed && !closedAtEOF(md, a)) {
			return nil, "", false
		}
		oa, e1 := convertWith(md, []byte(a))
		oh, e2 := convertWith(md, []byte(c09Heading))
		ob, e3 := convertWith(md, []byte(b))
		oab, e4 := convertWith(md, []byte(c09Join(a, b)))
		if e1 != nil || e2 != nil || e3 != nil || e4 != nil {
			return nil, "", false
		}
		// the end of input counts as a line ending (CommonMark 2.1): a raw HTML block whose last
		// source line has no terminator is rendered without one, in the concatenation it has one
		nl := func(b []byte) []byte {
			if len(b) > 0 && b[len(b)-1] != '\n' {
				return append(append([]byte{}, b...), '\n')
			}
			return b
		}
		oa, oh, ob, oab = nl(oa), nl(oh), nl(ob), nl(oab)
		la, lh, lbb, lab := outLines(oa), outLines(oh), outLines(ob), outLines(oab)
		rec = map[string]interface{}{"law": "concat", "a": lb.seq(la), "h": lb.seq(lh), "b": lb.seq(lbb), "ab": lb.seq(lab)}
		want := append(append(append([]string{}, la...), lh...), lbb...)
		return rec, fmt.Sprintf("A=%q renders %q, B=%q renders %q, A+heading+B=%q renders %q (%s)", clip(a, 150), clip(string(oa), 200), clip(b, 150), clip(string(ob), 200), clip(c09Join(a, b), 300), clip(string(oab), 400), diffLines(want, lab)), true
	}
	d, defs := string(cs.D), string(cs.Defs)
	if strings.Contains(d+defs, "\r") || !closedAtEOF(md, d) {
		return nil, "", false
	}
	top := defs
	if !strings.HasSuffix(top, "\n") {
		top += "\n"
	}
	top += "\n" + d
	end := d
	if !strings.HasSuffix(end, "\n") {
		end += "\n"
	}
	end += "\n" + defs
	ot, e1 := convertWith(md, []byte(top))
	oe, e2 := convertWith(md, []byte(end))
	if e1 != nil || e2 != nil {
		return nil, "", false
	}
	lt, le := outLines(ot), outLines(oe)
	rec = map[string]interface{}{"law": "same", "x": lb.seq(lt), "y": lb.seq(le)}
	return rec, fmt.Sprintf("definitions %q on top of %q render %q; at the end they render %q (%s)", clip(defs, 200), clip(d, 200), clip(string(ot), 300), clip(string(oe), 300), diffLines(lt, le)), true
}

func replayC09(c *Ctx, raw json.RawMessage) (bool, string) {
	var cs c09Case
	if err := json.Unmarshal(raw, &cs); err != nil {
		return false, err.Error()
	}
	rec, detail, ok := c09Record(cs.Config.build(), cs)
	if !ok {
		return false, "side conditions not met / conversion failed"
	}
	if !judgeLawOne(rec) {
		return true, fmt.Sprintf("config %s: %s", cs.Config, detail)
	}
	return false, "law holds"
}

var c09DefSpellings = []string{
	"[zqa]: /ua", "[zqa]: /ua 'Ta'", "[zqa]: </u a>", "[zqa]: </u a> \"T a\"", "[ZQA]:\n  /ua\n  'multi\n  line'", "[zqa]: /ua\n[zqb]: /ub \"Tb\"", "[zqb]: /ub\n[ zq  A ]: <ua>",
	"[zqa]:/ua", "[zqa]: /ua (T)", "[zqa]: /ua\n\n[zqb]: /ub",
}
var c09RefSpellings = []string{"[zqa]", "[ZQA][]", "[x][ zqa ]", "[x][ZqA]", "![i][zqa]", "[zq\n A]", "[zqb] and [zqa]", "*[zqa]*", "> [zqa]", "- [x][zqb]"}

func runC09(c *Ctx) {
	ev := c.Ev
	ev.Assumptions = []string{
		"TLC/SANY, Json/IOUtils; outputs compared line by line after injective renaming (Meta.tla)",
		"side condition read from the hook event EndOfInput of the real parse of A (kinds on the open-block stack when the input ends); 'no link reference syntax' = no '[' byte; no CR",
		"definition labels zqa / zqb are assumed not to be defined by the base documents",
	}
	ev.Set("rule", "case = one instance of ConcatLaw (pair A,B) or of the definition-mobility law; distinct = distinct (configuration, A, B) / (configuration, document, definition block); non-trivial = A and B both non-blank, or any definition instance")
	installHooks()
	cfgs := []mdConfig{{Ext: "core"}, {Ext: "gfm"}, {Ext: "core", Unsafe: true}, {Ext: "gfm", Unsafe: true, XHTML: true}}
	mds := make([]goldmark.Markdown, len(cfgs))
	for i, cf := range cfgs {
		mds[i] = cf.build()
	}
	var jobs []c09Case
	var jobCfg []int
	add := func(cs c09Case, ci int) {
		cs.Config = cfgs[ci]
		jobs = append(jobs, cs)
		jobCfg = append(jobCfg, ci)
	}
	// exhaustive pairs of short block-structure strings
	alpha := []string{"- ", "-", "\n", "a", "  ", "```"}
	maxLen := 3
	if c.Thorough() {
		alpha = append(alpha, ">", "#")
	}
	var shorts []string
	shortStrings(alpha, maxLen, func(s string) { shorts = append(shorts, s) })
	extra := []string{"-\n  a", "- a\n-\n", "-\n\n  a", "1.\n   a", "- a\n\n  b", "```\na\n```", "    a", ">\n> a", "a\n---", "- a\n  - b\n\n  c"}
	shorts = append(shorts, extra...)
	// scaled documents: a pattern repeated N times for EVERY N up to 260 (size thresholds of
	// internal buffers and statistics), each against a few second documents
	var scaledA []string
	for _, p := range []string{"- a\n", "> a\n", "a\n\n", "1. a\n", "- a\n  - b\n", "- a\n\n", "a\n", "- a\n\n  b\n"} {
		for n := 1; n <= c.Pick(260, 1100); n++ {
			scaledA = append(scaledA, strings.Repeat(p, n))
		}
	}
	scaledB := []string{"- x\n\n- y\n", "- x\n- y\n", "> q\n\n> r\n", "1. x\n\n   y\n", "- x\n\n  - y\n  - z\n"}
	ev.Set("short_strings", len(shorts))
	for i, a := range shorts {
		for j, b := range shorts {
			add(c09Case{Kind: "concat", A: rawDoc(a), B: rawDoc(b)}, (i+j)%2)
		}
	}
	ev.Set("exhaustive", true)
	// pairs of larger documents
	loadCorpus()
	var pool []string
	for _, sd := range slotDocs(c) {
		if !strings.ContainsAny(sd.Doc, "[\r") {
			pool = append(pool, sd.Doc)
		}
	}
	for _, d := range repoDocs {
		if !strings.ContainsAny(d, "[\r") {
			pool = append(pool, d)
		}
	}
	g := newDocGen(c.Rand("mut"))
	for i := 0; i < c.Pick(3000, 40000); i++ {
		pool = append(pool, strings.NewReplacer("[", "(", "\r", "").Replace(g.next()))
	}
	rng := c.Rand("pairs")
	for i := 0; i < c.Pick(40000, 600000); i++ {
		add(c09Case{Kind: "concat", A: rawDoc(pool[rng.Intn(len(pool))]), B: rawDoc(pool[rng.Intn(len(pool))])}, i%len(cfgs))
	}
	// pairs of tables (Table.tla candidates, by cell kind): per-document bookkeeping of an extension
	// (escaped pipes, alignments) must not survive into the next table
	tdocs, tkinds := tableDocs(c)
	byKind := map[string][]string{}
	for i, d := range tdocs {
		if !strings.ContainsAny(d, "[\r") {
			byKind[tkinds[i]] = append(byKind[tkinds[i]], d)
		}
	}
	var tsel []string
	for _, k := range sortedKeys(byKind) {
		ds := byKind[k]
		for n := 0; n < c.Pick(14, 60) && len(ds) > 0; n++ {
			tsel = append(tsel, ds[rng.Intn(len(ds))])
		}
	}
	tsel = append(tsel, "| `a` \\| b |\n|---|\n| c |\n", "| a ` b \\| c |\n|---|\n", "| `a\\|b` | c |\n|---|\n", "| h |\n|---|\n| `p\\|q` |\n", "| `a\\|b` |\n|---|---|\n")
	ev.Set("table_documents_paired", len(tsel))
	for i, a := range tsel {
		for j, b := range tsel {
			add(c09Case{Kind: "concat", A: rawDoc(a), B: rawDoc(b)}, 1+2*((i+j)%2))
		}
	}
	// first documents from BlockSem.tla: for these TLC has established at model level that a
	// document whose blocks are closed renders independently of what follows (invariant ConcatLaw)
	for bi, b := range []bsConfig{{"small", 3, true, 0}, {"html", 2, true, 0}, {"fencetabs", 3, true, 0}} {
		n := 0
		r := RunTLC(TLCOpts{Module: "BlockSem", Cfg: "gen.cfg", CfgText: bsCfg(b.alpha, b.lines, false, true), Workers: 8, Timeout: 60 * time.Minute, OnJSON: func(raw []byte) {
			var d struct {
				Src  string   `json:"src"`
				Open []string `json:"open"`
			}
			if json.Unmarshal(raw, &d) == nil && d.Src != "" {
				n++
				closed := !strings.Contains(d.Src, "\t") // (with tabs the recorded list-marker finding of C02 can change what is open)
				for _, k := range d.Open {
					if k == "fence" || k == "html" {
						closed = false
					}
				}
				for j, second := range []string{"a\n", "# a\n", "- x\n\n- y\n", "    c\n"} {
					if (n+j)%2 == 0 || c.Thorough() {
						add(c09Case{Kind: "concat", A: rawDoc(d.Src), B: rawDoc(second), ModelClosed: closed}, (n+j+bi)%len(cfgs))
					}
				}
			}
		}})
		r.MustOK("BlockSem " + b.alpha + " (ConcatLaw at model level)")
		ev.TLC(fmt.Sprintf("BlockSem alphabet %s, up to %d lines: ConcatLaw holds of the reference semantics; documents replayed as first documents", b.alpha, b.lines), r)
		ev.Add("blocksem_first_documents", int64(n))
	}
	for i, a := range scaledA {
		for j, b := range scaledB {
			add(c09Case{Kind: "concat", A: rawDoc(a), B: rawDoc(b)}, (i+j)%len(cfgs))
		}
	}
	// definition mobility
	var bases []string
	for i := 0; i < c.Pick(600, 8000); i++ {
		if i%3 == 0 {
			bases = append(bases, strings.ReplaceAll(g.next(), "\r", ""))
		} else {
			bases = append(bases, strings.ReplaceAll(repoDocs[rng.Intn(len(repoDocs))], "\r", ""))
		}
	}
	bases = append(bases, "", "x\n", "> q\n", "- l\n", "a\n===\n")
	for i := 0; i < len(scaledA); i += 3 {
		bases = append(bases, scaledA[i]+"\n- x\n\n- y\n") // a loose list after a scaled prefix
	}
	for bi, base := range bases {
		for di, defs := range c09DefSpellings {
			ref := c09RefSpellings[(bi+di)%len(c09RefSpellings)]
			d := base
			if d != "" && !strings.HasSuffix(d, "\n") {
				d += "\n"
			}
			d += "\n" + ref + "\n"
			for _, nl := range []string{"\n", ""} {
				add(c09Case{Kind: "defs", D: rawDoc(d), Defs: rawDoc(defs + nl)}, (bi+di)%len(cfgs))
			}
		}
	}
	// run
	ls := newLawSet()
	var mu sync.Mutex
	var nJudged, nSkipped int64
	parallelFor(len(jobs), func(i int) {
		rec, _, ok := c09Record(mds[jobCfg[i]], jobs[i])
		mu.Lock()
		if ok {
			nJudged++
		} else {
			nSkipped++
		}
		mu.Unlock()
		if ok {
			ls.add(rec, i)
		}
	})
	ev.Add("evaluations", nJudged*4)
	ev.Set("instances_judged", nJudged)
	ev.Set("instances_outside_side_conditions", nSkipped)
	for i, j := range jobs {
		if j.Kind == "defs" || (strings.TrimSpace(string(j.A)) != "" && strings.TrimSpace(string(j.B)) != "") {
			ev.Distinct(fmt.Sprint(i))
		}
	}
	perSig := map[string]int{}
	for _, w := range ls.judge(c, "ConcatLaw / definition mobility") {
		cs := jobs[w.(int)]
		sig := "C09/" + cs.Kind
		if cs.Kind == "concat" {
			sig += "/" + c08Sig(string(cs.A)+string(cs.B))
		}
		if perSig[sig]++; perSig[sig] > 2 {
			continue
		}
		rec, detail, ok := c09Record(cs.Config.build(), cs)
		if !ok || judgeLawOne(rec) {
			infra("law rejected in the batch but holds alone: %+v", cs)
		}
		c.Report(Violation{Signature: sig, Detail: fmt.Sprintf("config %s: %s", cs.Config, detail), Replay: cs})
	}
	for i := len(shorts) * len(shorts); i < len(jobs); i += (len(jobs)-len(shorts)*len(shorts))/5 + 1 {
		c.Sample("law-instance", 6, jobs[i])
	}
}

func sortedKeys(m map[string][]string) []string {
	var ks []string
	for k := range m {
		ks = append(ks, k)
	}
	sort.Strings(ks)
	return ks
}
