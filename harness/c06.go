package main

// C06 — Output is a pure function of configuration and source.
//
//  MC   Instance.tla: Pure holds of the design (fresh context per parse, render leaves the
//       tree alone); negative controls LeakyContext and RenderMutates.
//  M2C  every history TLC enumerates (Convert / Parse+Render / ReRender of 4 abstract
//       documents, each on the long-lived or on a fresh instance) is replayed on real
//       instances for many assignments of concrete documents that exercise per-document
//       state; all ordered pairs (X then Y on one instance) of a document set.
//  C2M  per document the outputs of all calls (and the tree digests around every render) form
//       an "allsame" record judged by TLC (Meta.tla).

import (
	"bufio"
	"bytes"
	"crypto/sha1"
	"encoding/json"
	"fmt"
	"io"
	"runtime"
	"sort"
	"strings"
	"sync"

	"github.com/yuin/goldmark"
	"github.com/yuin/goldmark/ast"
	"github.com/yuin/goldmark/text"
)

func init() {
	register(&Check{ID: "C06", Level: "model_checking", Run: runC06, Replay: replayC06})
}

var c06StateDocs = []string{
	"[a]: /one\n\n[a] [b]\n", "[a]: /two 't'\n[b]: /bee\n\n[a] [b][] [A]\n", "[a] [b]\n", "# a\n\n# a\n\n# a-1\n", "# a\n", "a\n===\n\nb\n---\n\n# a {#x}\n",
	"x[^1] y[^n]\n\n[^1]: one\n[^n]: two[^1]\n", "x[^1]\n\n[^1]: other\n", "He said \"hello\n", "the end\" of it\n", "'single\n", "rest' -- and ... <<q>>\n", "\"a\" 'b'\n",
	"| a | b |\n|:--|--:|\n| c | d |\n", "| a |\n|:-:|\n| b |\n| c | d |\n", "```go\nx\n```\n", "```\n\ncode\n```\n", "~~~ info\ny\n\n", "- a\n- b\n  - c\n", "- a\n\n- b\n", "1. x\n2. y\n",
	"- [ ] t\n- [x] u\n", "term\n: def\n\nterm2\n: def2\n", "# h {#id .c k=v}\n", "## h {#id}\n\n## h\n", "<div>\nx\n</div>\n\ny\n", "a <b>c</b> <!-- d -->\n", "> q\n> r\n\n> s\n", "*e* **s** `c` ~~d~~\n",
	"http://a.b www.c.d e@f.g\n", "![i](/s \"t\") [l](/u)\n", "a  \nb\\\nc\n", "\n\n\n", "", "    code\n\n    more\n", "***\n", "-\n  a\n", "- a\n-\n", "&amp; &copy; &#35; &#x110000;\n", "日本語\n日本語\n", "a b\n",
	"> `foo\n> bar`\n", "- `a\n  b` c\n", "`a\n   b`\n", "> [l\n> m](/u 't\n> u')\n", "> <b a='x\n> y'>\n", "1. *e\n   f* ``g\n   h``\n", "> [x\n> y]\n\n[x y]: /u\n", "a\\\nb  \nc\n",
}

type c06Op struct {
	Op    string `json:"op"`
	Doc   int    `json:"doc"` // index into the pool
	Fresh bool   `json:"fresh"`
}

type c06Case struct {
	Config mdConfig `json:"config"`
	Pool   []rawDoc `json:"pool"`
	Hist   []c06Op  `json:"hist"`
}

// treeDigest: everything a renderer can read from the tree.
func treeDigest(n ast.Node, src []byte) string {
	h := sha1.New()
	var walk func(n ast.Node, depth int)
	walk = func(n ast.Node, depth int) {
		fmt.Fprintf(h, "%d:%s:%d|", depth, n.Kind(), n.ChildCount())
		attrs := n.Attributes()
		keys := make([]string, 0, len(attrs))
		for _, a := range attrs {
			keys = append(keys, fmt.Sprintf("%s=%v", a.Name, a.Value))
		}
		sort.Strings(keys)
		fmt.Fprintf(h, "%v|", keys)
		if n.Type() == ast.TypeBlock && n.Lines() != nil {
			for i := 0; i < n.Lines().Len(); i++ {
				s := n.Lines().At(i)
				fmt.Fprintf(h, "L%d,%d,%d|", s.Start, s.Stop, s.Padding)
			}
		}
		switch t := n.(type) {
		case *ast.Text:
			fmt.Fprintf(h, "T%d,%d,%v,%v,%v|", t.Segment.Start, t.Segment.Stop, t.SoftLineBreak(), t.HardLineBreak(), t.IsRaw())
		case *ast.String:
			fmt.Fprintf(h, "S%q|", t.Value)
		case *ast.Link:
			fmt.Fprintf(h, "K%q%q|", t.Destination, t.Title)
		case *ast.Image:
			fmt.Fprintf(h, "I%q%q|", t.Destination, t.Title)
		case *ast.Heading:
			fmt.Fprintf(h, "H%d|", t.Level)
		case *ast.FencedCodeBlock:
			if t.Info != nil {
				fmt.Fprintf(h, "F%d,%d|", t.Info.Segment.Start, t.Info.Segment.Stop)
			}
		}
		for c := n.FirstChild(); c != nil; c = c.NextSibling() {
			walk(c, depth+1)
		}
	}
	walk(n, 0)
	return fmt.Sprintf("%x", h.Sum(nil))
}

// runHistory replays a history; returns per pool document the list of observed outputs
// (first = reference: Convert on a fresh instance) and the digests around every render.
// c06GCAfterOp: replay attempts run a collection after every call (a collection may happen at
// any time; pools hand their contents on at collections)
var c06GCAfterOp bool

func runHistory(cs c06Case) (outs map[int][]string, digests [][]string, err error) {
	defer func() {
		if r := recover(); r != nil {
			err = fmt.Errorf("panic: %v", r)
		}
	}()
	outs = map[int][]string{}
	long := cs.Config.build()
	type keptTree struct {
		md   goldmark.Markdown
		tree ast.Node
		src  []byte
	}
	kept := map[int]*keptTree{}
	// the caller hands the SAME buffer to every call of the history (with spare capacity
	// behind it, as a buffer read from a file has); the reference run gets a private copy
	bufs := map[int][]byte{}
	var callerBuf bytes.Buffer
	callerW := bufio.NewWriterSize(&callerBuf, 64)
	opIndex := 0
	for _, op := range cs.Hist {
		if _, ok := bufs[op.Doc]; !ok {
			b := make([]byte, len(cs.Pool[op.Doc]), len(cs.Pool[op.Doc])+64)
			copy(b, cs.Pool[op.Doc])
			bufs[op.Doc] = b
		}
		src := bufs[op.Doc]
		if _, ok := outs[op.Doc]; !ok {
			ref, e := convertWith(cs.Config.build(), []byte(cs.Pool[op.Doc]))
			if e != nil {
				return nil, nil, e
			}
			outs[op.Doc] = []string{string(ref)}
		}
		md := long
		if op.Fresh {
			md = cs.Config.build()
		}
		// destinations: every second call of a history writes through ONE caller-owned
		// *bufio.Writer (a util.BufWriter, used by the renderer as it is) over one caller-owned
		// buffer, the others into a buffer of their own; a destination receives exactly the output
		// of the calls it was handed to
		var own bytes.Buffer
		var buf io.Writer = &own
		before := callerBuf.Len()
		useCaller := opIndex%2 == 1
		opIndex++
		if useCaller {
			buf = callerW
		}
		switch op.Op {
		case "convert":
			if e := md.Convert(src, buf); e != nil {
				return nil, nil, e
			}
		case "parse+render":
			tree := md.Parser().Parse(text.NewReader(src))
			d0 := treeDigest(tree, src)
			if e := md.Renderer().Render(buf, src, tree); e != nil {
				return nil, nil, e
			}
			digests = append(digests, []string{d0, treeDigest(tree, src)})
			kept[op.Doc] = &keptTree{md, tree, src}
		case "foreign":
			// another instance built from the same package-level extension values, every option flipped
			f := cs.Config
			f.Unsafe, f.XHTML, f.HardWraps, f.AutoID, f.Attr = !f.Unsafe, !f.XHTML, !f.HardWraps, !f.AutoID, !f.Attr
			var sink bytes.Buffer
			_ = f.build().Convert(src, &sink)
			opIndex-- // no destination of the history was used
			continue
		case "rerender":
			k := kept[op.Doc]
			if k == nil {
				opIndex--
				continue
			}
			d0 := treeDigest(k.tree, k.src)
			if e := k.md.Renderer().Render(buf, k.src, k.tree); e != nil {
				return nil, nil, e
			}
			digests = append(digests, []string{d0, treeDigest(k.tree, k.src)})
		}
		if c06GCAfterOp {
			runtime.GC()
		}
		if useCaller {
			_ = callerW.Flush()
			outs[op.Doc] = append(outs[op.Doc], string(callerBuf.Bytes()[before:]))
		} else {
			if callerBuf.Len() != before {
				outs[op.Doc] = append(outs[op.Doc], "(bytes of this call arrived in a destination it was not given) "+string(callerBuf.Bytes()[before:]))
				continue
			}
			outs[op.Doc] = append(outs[op.Doc], own.String())
		}
	}
	return outs, digests, nil
}

func c06Records(cs c06Case) ([]map[string]interface{}, []string) {
	outs, digests, err := runHistory(cs)
	if err != nil {
		return nil, nil
	}
	var recs []map[string]interface{}
	var descs []string
	for d, os := range outs {
		lb := newLaw()
		var seqs [][]int
		for _, o := range os {
			seqs = append(seqs, lb.seq(outLines([]byte(o))))
		}
		recs = append(recs, map[string]interface{}{"law": "allsame", "outs": seqs})
		desc := ""
		for i := 1; i < len(os); i++ {
			if os[i] != os[0] {
				desc = fmt.Sprintf("document %q renders %q on a fresh instance but call %d of the history on it gives %q", clip(string(cs.Pool[d]), 150), clip(os[0], 300), i, clip(os[i], 300))
				break
			}
		}
		descs = append(descs, desc)
	}
	for _, dg := range digests {
		lb := newLaw()
		recs = append(recs, map[string]interface{}{"law": "allsame", "outs": [][]int{{lb.id(dg[0])}, {lb.id(dg[1])}}})
		descs = append(descs, "rendering changed the tree (digest of kinds, attributes, segments before / after Render differs)")
	}
	return recs, descs
}

func replayC06(c *Ctx, raw json.RawMessage) (bool, string) {
	var cs c06Case
	if err := json.Unmarshal(raw, &cs); err != nil {
		return false, err.Error()
	}
	base := cs.Hist
	defer func() { c06GCAfterOp = false }()
	for attempt := 0; attempt < 6; attempt++ {
		if attempt > 0 {
			// the history twice in a row is a history too; destinations and instance are reused,
			// so that what a call leaves behind in the process meets its own caller again
			cs.Hist = append(append(append([]c06Op{}, base...), base...), base...)
			c06GCAfterOp = attempt%2 == 1
		}
		recs, descs := c06Records(cs)
		for i, r := range recs {
			if !judgeLawOne(r) {
				note := ""
				if attempt > 0 {
					note = " (seen after garbage collections: the outcome depends on process-wide state such as a pool)"
				}
				return true, fmt.Sprintf("config %s, history %v: %s%s", cs.Config, cs.Hist, descs[i], note)
			}
		}
		// process-wide state that a history may depend on (pools are emptied by the collector) is
		// not part of a history: try again after two collections, as may happen at any time
		runtime.GC()
		runtime.GC()
	}
	return false, "every call gave the fresh-instance output"
}

func runC06(c *Ctx) {
	ev := c.Ev
	ev.Assumptions = []string{
		"TLC/SANY, Json/IOUtils; outputs compared line by line after injective renaming (Meta.tla AllSame)",
		"the tree digest covers what renderers read: kinds, child counts, attributes, line and text segments, flags, link/image fields",
	}
	ev.Set("rule", "case = one history (sequence of Convert / Parse+Render / ReRender calls, long-lived or fresh instance) replayed with concrete documents, or one ordered pair X then Y; evaluations counts API calls; distinct = distinct (configuration, document assignment, history); non-trivial = histories in which a document is processed after a different document on the long-lived instance or a tree is rendered twice")
	// ---- before anything else runs in this process: instances built from the same package-level
	// extension values must not reach each other. Something an instance sets on a shared object
	// at its first use sticks for the rest of the process, so the reference outputs are taken
	// before any instance with other options has converted anything (action Foreign of
	// Instance.tla; negative control SharedSingleton).
	c06CrossInstance(c)
	// ---- MC
	RunTLC(TLCOpts{Module: "Instance", Cfg: "Instance_neg_shared.cfg", Workers: 2}).MustViolate("neg SharedSingleton", "Pure")
	RunTLC(TLCOpts{Module: "Instance", Cfg: "Instance_neg_leaky.cfg", Workers: 2}).MustViolate("neg LeakyContext", "Pure")
	RunTLC(TLCOpts{Module: "Instance", Cfg: "Instance_neg_mutates.cfg", Workers: 2}).MustViolate("neg RenderMutates", "Pure")
	ev.Set("negative_controls", []string{"LeakyContext => Pure violated", "RenderMutates => Pure violated", "SharedSingleton => Pure violated"})
	genCfg, maxLen := "Instance_gen3.cfg", 3
	if c.Thorough() {
		genCfg, maxLen = "Instance_gen4.cfg", 4
	}
	var hists [][]c06Op
	r := RunTLC(TLCOpts{Module: "Instance", Cfg: genCfg, Workers: 8, OnJSON: func(raw []byte) {
		var h [][]interface{}
		if json.Unmarshal(raw, &h) != nil {
			infra("bad history %s", raw)
		}
		if len(h) != maxLen {
			return
		}
		var ops []c06Op
		for _, e := range h {
			d := int(e[1].(string)[1] - '1')
			ops = append(ops, c06Op{Op: e[0].(string), Doc: d, Fresh: e[2].(bool)})
		}
		hists = append(hists, ops)
	}})
	r.MustOK("Instance generator")
	ev.TLC(genCfg+" (Pure + history dump)", r)
	ev.Set("histories", len(hists))
	ev.Set("exhaustive", true)

	loadCorpus()
	rng := c.Rand("pools")
	g := newDocGen(c.Rand("mut"))
	cfgs := []mdConfig{{Ext: "all", AutoID: true, Attr: true}, {Ext: "gfm"}, {Ext: "nocjk", AutoID: true, XHTML: true}, {Ext: "footnote", HardWraps: true}, {Ext: "typographer", Unsafe: true}, {Ext: "core", AutoID: true}, {Ext: "deflist", Attr: true}, {Ext: "all", Unsafe: true, XHTML: true, HardWraps: true},
		{Ext: "allopts", AutoID: true}, {Ext: "allopts", XHTML: true, Attr: true}} // every extension with non-default options (templates, functions, substitutions)
	if c.Thorough() {
		cfgs = nil
		for i, cf := range allConfigs() {
			if i%8 == 0 {
				cfgs = append(cfgs, cf)
			}
		}
		cfgs = append(cfgs, mdConfig{Ext: "allopts", AutoID: true}, mdConfig{Ext: "allopts", XHTML: true, Attr: true}, mdConfig{Ext: "allopts", Unsafe: true, HardWraps: true})
	}
	pick := func() string {
		switch rng.Intn(4) {
		case 0:
			return repoDocs[rng.Intn(len(repoDocs))]
		case 1:
			return g.next()
		}
		return c06StateDocs[rng.Intn(len(c06StateDocs))]
	}
	var cases []c06Case
	nPools := c.Pick(40, 400)
	for p := 0; p < nPools; p++ {
		pool := []rawDoc{rawDoc(pick()), rawDoc(pick()), rawDoc(pick()), rawDoc(pick())}
		cf := cfgs[p%len(cfgs)]
		for hi, h := range hists {
			if (hi+p)%c.Pick(4, 2) != 0 {
				continue
			}
			cases = append(cases, c06Case{Config: cf, Pool: pool, Hist: h})
		}
	}
	// all ordered pairs X then Y of a document set, as histories of length 2 on one instance
	var set []string
	set = append(set, c06StateDocs...)
	for i := 0; i < c.Pick(160, 600); i++ {
		set = append(set, repoDocs[rng.Intn(len(repoDocs))])
	}
	for i := 0; i < c.Pick(40, 300); i++ {
		set = append(set, g.next())
	}
	ev.Set("pair_set", len(set))
	for i, x := range set {
		for j, y := range set {
			cases = append(cases, c06Case{Config: cfgs[(i+j)%len(cfgs)], Pool: []rawDoc{rawDoc(x), rawDoc(y)}, Hist: []c06Op{{"convert", 0, false}, {"parse+render", 1, false}, {"rerender", 1, false}}})
		}
	}
	// the same document converted again and again from one buffer
	for i, x := range set {
		for k := 0; k < 2; k++ {
			cases = append(cases, c06Case{Config: cfgs[(i+k*3)%len(cfgs)], Pool: []rawDoc{rawDoc(x)},
				Hist: []c06Op{{"convert", 0, false}, {"convert", 0, k == 1}, {"parse+render", 0, false}, {"rerender", 0, false}, {"convert", 0, true}}})
		}
	}
	ls := newLawSet()
	var mu sync.Mutex
	var nCalls int64
	type wit struct {
		cs   int
		desc string
	}
	parallelFor(len(cases), func(i int) {
		recs, descs := c06Records(cases[i])
		mu.Lock()
		nCalls += int64(len(cases[i].Hist) + 2)
		mu.Unlock()
		for k, rec := range recs {
			ls.add(rec, wit{i, descs[k]})
		}
	})
	ev.Add("evaluations", nCalls)
	for i, cs := range cases {
		nt := false
		seenLong := map[int]bool{}
		for _, op := range cs.Hist {
			if op.Op == "rerender" {
				nt = true
			}
			if !op.Fresh {
				for d := range seenLong {
					if d != op.Doc {
						nt = true
					}
				}
				seenLong[op.Doc] = true
			}
		}
		if nt {
			ev.Distinct(fmt.Sprint(i))
		}
	}
	perSig := map[string]int{}
	for _, w := range ls.judge(c, "AllSame over the outputs of each document in a history") {
		wt := w.(wit)
		cs := cases[wt.cs]
		sig := "C06/history-dependent"
		if strings.Contains(wt.desc, "changed the tree") {
			sig = "C06/render-alters-tree"
		} else {
			for _, op := range cs.Hist {
				if op.Op == "rerender" && strings.Contains(wt.desc, "call") {
					sig = "C06/output-differs"
				}
			}
		}
		if perSig[sig]++; perSig[sig] > 3 {
			continue
		}
		raw, _ := json.Marshal(cs)
		ok, detail := replayC06(c, raw)
		if !ok {
			infra("history rejected in the batch but accepted alone: %s", raw)
		}
		c.Report(Violation{Signature: sig, Detail: detail, Replay: cs})
	}
	for i := 0; i < len(cases); i += len(cases)/4 + 1 {
		c.Sample("history", 4, map[string]interface{}{"config": cases[i].Config.String(), "history": cases[i].Hist, "documents": len(cases[i].Pool)})
	}
}

// c06CrossInstance: for every extension set, the documents are converted by a first instance
// with all options off, then by instances with every other option combination, then by a new
// instance with all options off again (and the same the other way round, starting from all
// options on, in a child... the process can only be clean once, so the all-off direction is the
// one taken here; C07's fresh-process runs cover start-up in the other order).
func c06CrossInstance(c *Ctx) {
	docs := append([]string{}, c06StateDocs...)
	docs = append(docs, "a[^1] b[^2]\n\n[^1]: x\n\n[^2]: y\n", "a\nb <br> ![i](/s) ***\n\n---\n", "- [ ] a\n- [x] b\n\n| a |\n|:-:|\n| b |\n", "# h\n\nterm\n: def\n\n\"q\" -- www.a.bc\n")
	exts := []string{"all", "gfm", "footnote", "nocjk", "deflist", "typographer", "table", "tasklist", "linkify", "strikethrough"}
	n := 0
	for _, e := range exts {
		base := mdConfig{Ext: e}
		first := base.build()
		refs := make([]string, len(docs))
		for i, d := range docs {
			o, err := convertWith(first, []byte(d))
			if err != nil {
				infra("C06 prologue: %v", err)
			}
			refs[i] = string(o)
		}
		for mask := 1; mask < 32; mask++ {
			f := mdConfig{Ext: e, Unsafe: mask&1 != 0, XHTML: mask&2 != 0, HardWraps: mask&4 != 0, AutoID: mask&8 != 0, Attr: mask&16 != 0}
			md := f.build()
			for _, d := range docs {
				_, _ = convertWith(md, []byte(d))
				n++
			}
		}
		again := base.build()
		for i, d := range docs {
			o, err := convertWith(again, []byte(d))
			n++
			if err != nil || string(o) != refs[i] {
				cs := c06Case{Config: base, Pool: []rawDoc{rawDoc(d)}, Hist: []c06Op{{"convert", 0, true}, {"foreign", 0, true}, {"convert", 0, true}}}
				c.Report(Violation{Signature: "C06/other-instance-changes-output", Detail: fmt.Sprintf("extension set %s, all options off: document %q renders %q on the first instance of the process and %q on a new instance after instances with other options have converted it", e, clip(d, 120), clip(refs[i], 300), clip(string(o), 300)), Replay: cs})
				break
			}
		}
	}
	c.Ev.Add("cross_instance_conversions", int64(n))
}
