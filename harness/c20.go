package main

// C20 — Registered parsers, transformers and renderers are applied strictly by priority.
//
//  MC   Registry.tla: the registration list / sort / dispatch-table mechanism yields a log and
//       winner that depend on priorities alone (all registration orders, routes, accept and
//       trigger scripts); negative controls NoSort and RendererAscending. RenderWalk.tla:
//       expected output of a render walk when some kinds have no renderer function.
//  M2C  every configuration TLC enumerates becomes a real goldmark.New(...) with probe
//       components registered in that order through those routes, under three concrete
//       priority scales (adjacent to the built-in, wide, MinInt/MaxInt extremes); the probes'
//       invocation log and the rendered output are compared with the model's log / winner.

import (
	"bytes"
	"encoding/json"
	"fmt"
	"math"
	"sort"
	"strings"
	"time"

	"github.com/yuin/goldmark"
	"github.com/yuin/goldmark/ast"
	"github.com/yuin/goldmark/parser"
	"github.com/yuin/goldmark/renderer"
	"github.com/yuin/goldmark/renderer/html"
	"github.com/yuin/goldmark/text"
	"github.com/yuin/goldmark/util"
)

func init() {
	register(&Check{ID: "C20", Level: "model_checking", Run: runC20, Replay: replayC20})
}

type regCfg struct {
	Class  string            `json:"class"`
	Rank   map[string]int    `json:"rank"`
	Accept map[string]bool   `json:"accept"`
	Trig   map[string]bool   `json:"trig"`
	Route  map[string]string `json:"route"`
	Order  []string          `json:"order"`
	Log    []string          `json:"log"`
	Winner string            `json:"winner"`
	Scale  int               `json:"scale"`
}

// ---- probe components ----
type probeLog struct{ ev []string }

type probeInline struct {
	name   string
	accept bool
	log    *probeLog
}

func (p *probeInline) Trigger() []byte { return []byte{'*'} }
func (p *probeInline) Parse(parent ast.Node, block text.Reader, pc parser.Context) ast.Node {
	p.log.ev = append(p.log.ev, p.name)
	if !p.accept {
		return nil
	}
	block.Advance(1)
	return ast.NewString([]byte("[" + p.name + "]"))
}

var kindProbeBlock = ast.NewNodeKind("VerifProbeBlock")

type probeBlockNode struct {
	ast.BaseBlock
	name string
}

func (n *probeBlockNode) Kind() ast.NodeKind         { return kindProbeBlock }
func (n *probeBlockNode) Dump(src []byte, level int) { ast.DumpHelper(n, src, level, nil, nil) }
func (n *probeBlockNode) IsRaw() bool                { return true }

type probeBlock struct {
	name   string
	accept bool
	trig   bool
	log    *probeLog
	// after: the probe is triggered by '=' and cannot interrupt a paragraph (scale 4: it is asked
	// only once the paragraph before the line has been transformed away)
	after bool
	// only: the probe looks at lines that begin with this byte only (0 = every line); scale 5 - a
	// trigger-less probe on a paragraph continuation line that begins with a trigger byte
	only byte
}

func (p *probeBlock) Trigger() []byte {
	if p.trig && p.after {
		return []byte{'='}
	}
	if p.trig {
		return []byte{'@'}
	}
	return nil
}
func (p *probeBlock) Open(parent ast.Node, reader text.Reader, pc parser.Context) (ast.Node, parser.State) {
	if p.only != 0 {
		if line, _ := reader.PeekLine(); len(line) == 0 || line[0] != p.only {
			return nil, parser.NoChildren
		}
	}
	p.log.ev = append(p.log.ev, p.name)
	if !p.accept {
		return nil, parser.NoChildren
	}
	_, seg := reader.PeekLine()
	reader.Advance(seg.Len() - 1)
	return &probeBlockNode{name: p.name}, parser.NoChildren
}
func (p *probeBlock) Continue(node ast.Node, reader text.Reader, pc parser.Context) parser.State {
	return parser.Close
}
func (p *probeBlock) Close(node ast.Node, reader text.Reader, pc parser.Context) {}
func (p *probeBlock) CanInterruptParagraph() bool                                { return !p.after }
func (p *probeBlock) CanAcceptIndentedLine() bool                                { return false }

type probePara struct {
	name string
	log  *probeLog
}

func (p *probePara) Transform(node *ast.Paragraph, reader text.Reader, pc parser.Context) {
	p.log.ev = append(p.log.ev, p.name)
}

type probeAST struct {
	name string
	log  *probeLog
}

func (p *probeAST) Transform(node *ast.Document, reader text.Reader, pc parser.Context) {
	p.log.ev = append(p.log.ev, p.name)
}

type probeRenderer struct{ name string }

func (p *probeRenderer) RegisterFuncs(reg renderer.NodeRendererFuncRegisterer) {
	reg.Register(ast.KindThematicBreak, func(w util.BufWriter, source []byte, n ast.Node, entering bool) (ast.WalkStatus, error) {
		if entering {
			_, _ = w.WriteString("<hr data-by=\"" + p.name + "\">\n")
		}
		return ast.WalkContinue, nil
	})
}

type probeBlockRenderer struct{}

func (probeBlockRenderer) RegisterFuncs(reg renderer.NodeRendererFuncRegisterer) {
	reg.Register(kindProbeBlock, func(w util.BufWriter, source []byte, n ast.Node, entering bool) (ast.WalkStatus, error) {
		if entering {
			_, _ = w.WriteString("<probe by=\"" + n.(*probeBlockNode).name + "\">\n")
		}
		return ast.WalkContinue, nil
	})
}

type extFunc func(m goldmark.Markdown)

func (f extFunc) Extend(m goldmark.Markdown) { f(m) }

var builtinPrio = map[string]int{"inline": 500, "block": 1000, "para": 100, "ast": 500, "render": 1000}

// concrete priority of a rank (1..5, built-in at 3) under a scale
func concretePrio(class string, rank, scale int) int {
	b := builtinPrio[class]
	switch scale {
	case 0, 3, 5:
		return b + (rank - 3)
	case 1:
		return b + (rank-3)*100000
	default: // 2 and 4
		switch rank {
		case 1:
			return math.MinInt
		case 2:
			return -5
		case 4:
			return b + 1
		case 5:
			return math.MaxInt
		}
		return b
	}
}

// runRegCfg builds the real instance and returns the observed log (probes only) and winner.
func runRegCfg(cf regCfg) (log []string, winner string, out string, err error) {
	defer func() {
		if r := recover(); r != nil {
			err = fmt.Errorf("panic: %v", r)
		}
	}()
	pl := &probeLog{}
	var opts []goldmark.Option
	// scale 3: the first component is registered from a slice with spare capacity that a second
	// instance is configured from as well; that instance adds a decoy of the highest precedence
	// before this one converts anything. Instances share nothing: the decoy must never be seen here.
	shared := make([]util.PrioritizedValue, 0, 8)
	var sibling []goldmark.Option
	decoyPrio := math.MinInt
	if cf.Class == "render" {
		decoyPrio = math.MaxInt
	}
	for oi, name := range cf.Order {
		prio := concretePrio(cf.Class, cf.Rank[name], cf.Scale)
		var popt parser.Option
		var ropt renderer.Option
		if cf.Scale == 3 && oi == 0 {
			dl := &probeLog{}
			var decoy parser.Option
			var rdecoy renderer.Option
			switch cf.Class {
			case "inline":
				shared = append(shared, util.Prioritized(&probeInline{name, cf.Accept[name], pl}, prio))
				popt = parser.WithInlineParsers(shared[:1]...)
				decoy = parser.WithInlineParsers(util.Prioritized(&probeInline{"decoy", true, dl}, decoyPrio))
			case "block":
				shared = append(shared, util.Prioritized(&probeBlock{name, cf.Accept[name], cf.Trig[name], pl, cf.Scale == 4, onlyByte(cf.Scale)}, prio))
				popt = parser.WithBlockParsers(shared[:1]...)
				decoy = parser.WithBlockParsers(util.Prioritized(&probeBlock{"decoy", true, true, dl, false, 0}, decoyPrio))
			case "para":
				shared = append(shared, util.Prioritized(&probePara{name, pl}, prio))
				popt = parser.WithParagraphTransformers(shared[:1]...)
				decoy = parser.WithParagraphTransformers(util.Prioritized(&probePara{"decoy", pl}, decoyPrio))
			case "ast":
				shared = append(shared, util.Prioritized(&probeAST{name, pl}, prio))
				popt = parser.WithASTTransformers(shared[:1]...)
				decoy = parser.WithASTTransformers(util.Prioritized(&probeAST{"decoy", pl}, decoyPrio))
			case "render":
				shared = append(shared, util.Prioritized(&probeRenderer{name}, prio))
				ropt = renderer.WithNodeRenderers(shared[:1]...)
				rdecoy = renderer.WithNodeRenderers(util.Prioritized(&probeRenderer{"decoy"}, decoyPrio))
			}
			if popt != nil {
				opts = append(opts, goldmark.WithParserOptions(popt))
				sibling = append(sibling, goldmark.WithParserOptions(popt), goldmark.WithParserOptions(decoy))
			} else {
				opts = append(opts, goldmark.WithRendererOptions(ropt))
				sibling = append(sibling, goldmark.WithRendererOptions(ropt), goldmark.WithRendererOptions(rdecoy))
			}
			continue
		}
		switch cf.Class {
		case "inline":
			popt = parser.WithInlineParsers(util.Prioritized(&probeInline{name, cf.Accept[name], pl}, prio))
		case "block":
			popt = parser.WithBlockParsers(util.Prioritized(&probeBlock{name, cf.Accept[name], cf.Trig[name], pl, cf.Scale == 4, onlyByte(cf.Scale)}, prio))
		case "para":
			popt = parser.WithParagraphTransformers(util.Prioritized(&probePara{name, pl}, prio))
		case "ast":
			popt = parser.WithASTTransformers(util.Prioritized(&probeAST{name, pl}, prio))
		case "render":
			ropt = renderer.WithNodeRenderers(util.Prioritized(&probeRenderer{name}, prio))
		}
		if cf.Route[name] == "option" {
			if popt != nil {
				opts = append(opts, goldmark.WithParserOptions(popt))
			} else {
				opts = append(opts, goldmark.WithRendererOptions(ropt))
			}
		} else {
			po, ro := popt, ropt
			opts = append(opts, goldmark.WithExtensions(extFunc(func(m goldmark.Markdown) {
				if po != nil {
					m.Parser().AddOptions(po)
				} else {
					m.Renderer().AddOptions(ro)
				}
			})))
		}
	}
	opts = append(opts, goldmark.WithRendererOptions(renderer.WithNodeRenderers(util.Prioritized(probeBlockRenderer{}, 7777))))
	md := goldmark.New(opts...)
	if cf.Scale == 3 {
		_ = goldmark.New(sibling...) // configured after md, before md's first conversion
	}
	doc := map[string]string{"inline": "*a\n", "block": "@x\n", "para": "x\n", "ast": "x\n", "render": "---\n"}[cf.Class]
	plain := "<p>@x</p>\n"
	if cf.Scale == 5 {
		// the line "=x" continues a paragraph and begins with a byte that triggers a built-in parser
		// (Setext) which declines: the trigger-less parsers that may interrupt a paragraph are asked
		// next, in priority order; the paragraph parser itself takes no part on such a line
		doc, plain = "a\n=x\n", "<p>a\n=x</p>\n"
	}
	if cf.Scale == 4 {
		// the line "===" follows a paragraph that a paragraph transformer removes (a link reference
		// definition): the Setext parser is discarded and the parsers are asked again, in priority order
		doc, plain = "[a]: /u\n===\n", "<p>===</p>\n"
	}
	var buf bytes.Buffer
	if e := md.Convert([]byte(doc), &buf); e != nil {
		return nil, "", "", e
	}
	out = buf.String()
	switch cf.Class {
	case "inline":
		winner = "builtin"
		if i := strings.Index(out, "["); i >= 0 {
			winner = out[i+1 : strings.Index(out, "]")]
		} else if out != "<p>*a</p>\n" {
			winner = "?" + out
		}
	case "block":
		winner = "builtin"
		if i := strings.Index(out, "<probe by=\""); i >= 0 {
			winner = out[i+11 : i+11+strings.Index(out[i+11:], "\"")]
		} else if out != plain {
			winner = "?" + out
		}
	case "render":
		winner = "builtin"
		if i := strings.Index(out, "data-by=\""); i >= 0 {
			winner = out[i+9 : i+9+strings.Index(out[i+9:], "\"")]
		} else if out != "<hr>\n" {
			winner = "?" + out
		}
	default:
		winner = "none"
	}
	return pl.ev, winner, out, nil
}

func onlyByte(scale int) byte {
	if scale == 5 {
		return '='
	}
	return 0
}

func judgeReg(cf regCfg) (bool, string) {
	log, winner, out, err := runRegCfg(cf)
	if err != nil {
		return false, err.Error()
	}
	var want []string
	for _, n := range cf.Log {
		if n != "builtin" {
			want = append(want, n)
		}
	}
	if cf.Scale == 5 {
		// by priority alone, without the built-in paragraph parser: the probes in ascending rank
		// up to the first that accepts
		names := append([]string{}, cf.Order...)
		sort.Slice(names, func(i, j int) bool { return cf.Rank[names[i]] < cf.Rank[names[j]] })
		want, cf.Winner = nil, "builtin"
		for _, n := range names {
			want = append(want, n)
			if cf.Accept[n] {
				cf.Winner = n
				break
			}
		}
	}
	if strings.Join(log, ",") != strings.Join(want, ",") {
		return false, fmt.Sprintf("probes invoked in order %v, priorities say %v (output %q)", log, want, out)
	}
	if winner != cf.Winner {
		return false, fmt.Sprintf("winner %s, priorities say %s (output %q)", winner, cf.Winner, out)
	}
	return true, ""
}

func regDesc(cf regCfg) string {
	var ps []string
	for _, n := range cf.Order {
		ps = append(ps, fmt.Sprintf("%s(prio=%d accept=%v trig=%v via %s)", n, concretePrio(cf.Class, cf.Rank[n], cf.Scale), cf.Accept[n], cf.Trig[n], cf.Route[n]))
	}
	return fmt.Sprintf("class %s, built-in priority %d, registered in order: %s", cf.Class, builtinPrio[cf.Class], strings.Join(ps, ", "))
}

// ---- missing renderer functions (RenderWalk.tla) ----
type rwCase struct {
	Parent []int    `json:"parent"`
	Kind   []string `json:"kind"`
	Expect []struct {
		T string `json:"t"`
		N int    `json:"n"`
	} `json:"expect"`
}

type rwNode struct {
	ast.BaseBlock
	kind ast.NodeKind
	id   int
}

func (n *rwNode) Kind() ast.NodeKind         { return n.kind }
func (n *rwNode) Dump(src []byte, level int) { ast.DumpHelper(n, src, level, nil, nil) }

var (
	rwKindK = ast.NewNodeKind("VerifK")
	rwKindS = ast.NewNodeKind("VerifS")
	rwKindL = ast.NewNodeKind("VerifL")
	rwKindU = ast.NewNodeKind("VerifU")
)

type rwRenderer struct{}

func (rwRenderer) RegisterFuncs(reg renderer.NodeRendererFuncRegisterer) {
	reg.Register(rwKindK, func(w util.BufWriter, source []byte, n ast.Node, entering bool) (ast.WalkStatus, error) {
		if entering {
			fmt.Fprintf(w, "open%d;", n.(*rwNode).id)
		} else {
			fmt.Fprintf(w, "close%d;", n.(*rwNode).id)
		}
		return ast.WalkContinue, nil
	})
	reg.Register(rwKindL, func(w util.BufWriter, source []byte, n ast.Node, entering bool) (ast.WalkStatus, error) {
		if entering {
			fmt.Fprintf(w, "open%d;", n.(*rwNode).id)
			return ast.WalkContinue, nil
		}
		fmt.Fprintf(w, "close%d;", n.(*rwNode).id)
		return ast.WalkSkipChildren, nil
	})
	reg.Register(rwKindS, func(w util.BufWriter, source []byte, n ast.Node, entering bool) (ast.WalkStatus, error) {
		if entering {
			fmt.Fprintf(w, "void%d;", n.(*rwNode).id)
		}
		return ast.WalkSkipChildren, nil
	})
}

var rwLateSeq int

func runRwCase(cs rwCase) (ok bool, detail string) {
	defer func() {
		if r := recover(); r != nil {
			ok, detail = false, fmt.Sprintf("panic: %v", r)
		}
	}()
	r := renderer.NewRenderer(renderer.WithNodeRenderers(util.Prioritized(html.NewRenderer(), 1000), util.Prioritized(rwRenderer{}, 500)))
	// first use freezes the dispatch table
	var warm bytes.Buffer
	if err := r.Render(&warm, []byte{}, ast.NewDocument()); err != nil {
		return false, "warm-up render failed: " + err.Error()
	}
	var late ast.NodeKind
	haveLate := false
	nodes := make([]ast.Node, len(cs.Parent)+1)
	nodes[1] = ast.NewDocument()
	for i := 2; i <= len(cs.Parent); i++ {
		var k ast.NodeKind
		switch cs.Kind[i-1] {
		case "K":
			k = rwKindK
		case "S":
			k = rwKindS
		case "L":
			k = rwKindL
		case "U":
			k = rwKindU
		case "V":
			if !haveLate {
				rwLateSeq++
				late = ast.NewNodeKind(fmt.Sprintf("VerifLate%d", rwLateSeq))
				haveLate = true
			}
			k = late
		}
		nodes[i] = &rwNode{kind: k, id: i}
	}
	for i := 2; i <= len(cs.Parent); i++ {
		p := nodes[cs.Parent[i-1]]
		p.AppendChild(p, nodes[i])
	}
	var buf bytes.Buffer
	if err := r.Render(&buf, []byte{}, nodes[1]); err != nil {
		return false, "Render returned an error: " + err.Error()
	}
	var want strings.Builder
	for _, e := range cs.Expect {
		fmt.Fprintf(&want, "%s%d;", e.T, e.N)
	}
	if buf.String() != want.String() {
		return false, fmt.Sprintf("tree parent=%v kind=%v rendered %q, expected %q", cs.Parent, cs.Kind, buf.String(), want.String())
	}
	return true, ""
}

type c20Replay struct {
	Kind string  `json:"kind"`
	Cfg  *regCfg `json:"cfg,omitempty"`
	RW   *rwCase `json:"rw,omitempty"`
}

func replayC20(c *Ctx, raw json.RawMessage) (bool, string) {
	var r c20Replay
	if err := json.Unmarshal(raw, &r); err != nil {
		return false, err.Error()
	}
	if r.Kind == "missing-renderer" {
		ok, d := runRwCase(*r.RW)
		return !ok, d
	}
	ok, d := judgeReg(*r.Cfg)
	return !ok, regDesc(*r.Cfg) + ": " + d
}

func runC20(c *Ctx) {
	ev := c.Ev
	ev.Assumptions = []string{
		"TLC/SANY, Json module",
		"built-in priorities interleaved with the probes: emphasis parser 500 on '*', paragraph parser 1000 (trigger-less), link-reference paragraph transformer 100, HTML node renderer 1000",
		"ranks 1..5 (built-in at 3) are made concrete under three monotone scales: adjacent, wide, and math.MinInt/-5/+1/math.MaxInt",
	}
	ev.Set("rule", "case = one (class, priorities, accept script, trigger script, routes, registration order, scale) configuration instantiated with real probe components, or one (tree, kinds) render walk; distinct = distinct configuration tuples; non-trivial = every configuration with at least two probes on different sides of the built-in or a late-created / unregistered kind in the tree")
	ev.Set("exhaustive", true)
	var nEval int64

	RunTLC(TLCOpts{Module: "Registry", Cfg: "Registry_neg_nosort.cfg", Workers: 2}).MustViolate("neg NoSort", "ByPriorityAlone")
	RunTLC(TLCOpts{Module: "Registry", Cfg: "Registry_neg_asc.cfg", Workers: 2}).MustViolate("neg RendererAscending", "ByPriorityAlone")
	ev.Set("negative_controls", []string{"NoSort => ByPriorityAlone violated", "RendererAscending (largest priority value overwrites last) => ByPriorityAlone violated"})

	for _, class := range []string{"inline", "block", "para", "ast", "render"} {
		var cfgs []regCfg
		r := RunTLC(TLCOpts{Module: "Registry", Cfg: "Registry_gen_" + class + ".cfg", Workers: 8, Timeout: 20 * time.Minute, OnJSON: func(raw []byte) {
			var cf regCfg
			if err := json.Unmarshal(raw, &cf); err != nil {
				infra("bad registry cfg: %v: %s", err, raw)
			}
			cfgs = append(cfgs, cf)
		}})
		r.MustOK("Registry " + class)
		ev.TLC("Registry_gen_"+class+" (ByPriorityAlone + configuration dump)", r)
		if len(cfgs) == 0 {
			infra("no registry configurations for class %s", class)
		}
		// the block class is large: quick replays every configuration under one scale chosen by
		// position (all three scales occur for every (rank, accept, trig) combination across
		// routes/orders), thorough under all three
		for i, cf := range cfgs {
			scales := []int{0, 1, 2}
			if class == "block" && !c.Thorough() {
				scales = []int{(i + int(c.Seed)) % 3}
			}
			if len(cf.Order) >= 2 && (c.Thorough() || i%2 == 0) {
				scales = append(scales, 3)
			}
			if class == "block" && (c.Thorough() || i%3 == 0) {
				allTrig := true
				for _, n := range cf.Order {
					allTrig = allTrig && cf.Trig[n]
				}
				if allTrig {
					scales = append(scales, 4)
				}
				noTrig := true
				for _, n := range cf.Order {
					noTrig = noTrig && !cf.Trig[n]
				}
				if noTrig {
					scales = append(scales, 5)
				}
			}
			for _, sc := range scales {
				cf.Scale = sc
				nEval++
				ok, d := judgeReg(cf)
				key := fmt.Sprintf("%s|%v|%v|%v|%v|%v|%d", cf.Class, cf.Rank, cf.Accept, cf.Trig, cf.Route, cf.Order, sc)
				ev.Distinct(key)
				if !ok {
					if ok2, _ := judgeReg(cf); ok2 {
						infra("unreproducible registry mismatch")
					}
					cc := cf
					c.Report(Violation{Signature: fmt.Sprintf("C20/%s/scale-%d", cf.Class, sc), Detail: regDesc(cf) + ": " + d, Replay: c20Replay{Kind: "registry", Cfg: &cc}})
				} else if i%1777 == 3 {
					lg, w, _, _ := runRegCfg(cf)
					c.Sample("registry-"+class, 1, map[string]interface{}{"configuration": regDesc(cf), "probe_log": lg, "winner": w})
				}
			}
		}
	}

	// missing renderer functions
	rwCfg := "RenderWalk_gen4.cfg"
	if c.Thorough() {
		rwCfg = "RenderWalk_gen5.cfg"
	}
	var cases []rwCase
	r := RunTLC(TLCOpts{Module: "RenderWalk", Cfg: rwCfg, Workers: 4, Timeout: 20 * time.Minute, OnJSON: func(raw []byte) {
		var cs rwCase
		if err := json.Unmarshal(raw, &cs); err != nil {
			infra("bad render walk case: %v: %s", err, raw)
		}
		cases = append(cases, cs)
	}})
	r.MustOK("RenderWalk")
	ev.TLC(rwCfg+" (Covered + case dump)", r)
	for i, cs := range cases {
		nEval++
		special := false
		for _, k := range cs.Kind {
			if k == "U" || k == "V" {
				special = true
			}
		}
		if special {
			ev.Distinct(fmt.Sprintf("rw|%v|%v", cs.Parent, cs.Kind))
		}
		if ok, d := runRwCase(cs); !ok {
			ks := append([]string{}, cs.Kind[1:]...)
			sort.Strings(ks)
			cc := cs
			c.Report(Violation{Signature: "C20/missing-renderer/" + strings.Join(ks, ""), Detail: d, Replay: c20Replay{Kind: "missing-renderer", RW: &cc}})
		} else if special && i%97 == 0 {
			c.Sample("render-walk", 2, cs)
		}
	}
	ev.Add("evaluations", nEval)
}
