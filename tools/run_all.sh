#!/bin/bash
# tools/run_all.sh quick|thorough [ids...] : runs the checks one after the other, one line per check.
# Under `vp run --with-repo` the checks run against the repository snapshot ($VP_RUN_REPO), so that
# seeded changes tried in /repo meanwhile do not disturb them.
T="${1:-quick}"; shift
cd "$(dirname "$0")/.."
[ -n "${VP_RUN_REPO:-}" ] && export VERIF_REPO="$VP_RUN_REPO"
IDS="$@"; [ -z "$IDS" ] && IDS=$(jq -r '.checks[].property_id' MANIFEST.json)
for id in $IDS; do
  s=$(date +%s)
  ./check $id $T > /tmp/runall.$id.log 2>&1; rc=$?
  e=$(date +%s)
  echo "$id $T rc=$rc wall=$((e-s))s $(grep -E '^(OK|VIOLATION|INFRA|KNOWN)' /tmp/runall.$id.log | head -3 | tr '\n' ' ' | cut -c1-300)"
done
