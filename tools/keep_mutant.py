#!/usr/bin/env python3
# keep_mutant.py <srcdir> <seeded-id> <property> <demo-target-dir> <detected: yes|no|partial> <detected_by text>
import sys, os, shutil, json, re
src, sid, prop, target, det, by = sys.argv[1:7]
d = '/verif/seeded/' + sid
os.makedirs(d, exist_ok=True)
shutil.copy(src + '/patch.diff', d + '/patch.diff')
shutil.copy(src + '/demo_test.go', d + '/demo_test.go')
readme = open(src + '/README.md').read() if os.path.exists(src + '/README.md') else ''
meta = {
 'property': prop,
 'origin': 'independent sub-agent given only the property text and a scratch worktree',
 'description_by_author': readme.strip(),
 'demo': {'place_in': target, 'file': 'demo_test.go'},
 'confirmed': 'tools/confirm_mutant.sh %s %s -> demo passes without the patch, fails with it; whole suite passes with the patch' % (d, target),
 'ran': 'tools/trymutant.sh %s/patch.diff %s quick' % (d, prop),
 'detected': det,
 'detected_by': by,
}
json.dump(meta, open(d + '/meta.json', 'w'), indent=1)
print('kept', d)
