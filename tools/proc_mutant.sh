#!/bin/bash
# tools/proc_mutant.sh <name e.g. C03-m4> <check id> <demo dir> [demo flags] : confirm + try
n=$1; id=$2; t=${3:-.}; f="${4:-}"
echo "== $n"
tools/confirm_mutant.sh /tmp/mut/$n-out $t "$f" 2>&1 | tail -1
tools/trymutant.sh /tmp/mut/$n-out/patch.diff $id quick 2>&1 | cut -c1-220 | tail -3
