#!/bin/bash
# tools/trymutant.sh <patch.diff> <check-id> [tier] : apply a seeded change to /repo, run one check, undo.
set -u
P="$(realpath "$1")"; ID="$2"; TIER="${3:-quick}"
cd /verif
git -C /repo diff --quiet || { echo "/repo is dirty"; exit 3; }
git -C /repo apply "$P" || { echo "patch does not apply"; exit 3; }
trap 'git -C /repo checkout -- . ; git -C /repo clean -fdq' EXIT
( cd /repo && go build ./... ) || { echo "does not build"; exit 3; }
cp evidence/$ID.json /tmp/ev.$ID.$$ 2>/dev/null
./check "$ID" "$TIER" > /tmp/trymut.$$.log 2>&1; rc=$?
cp /tmp/ev.$ID.$$ evidence/$ID.json 2>/dev/null; rm -f /tmp/ev.$ID.$$
grep -E "^(VIOLATION|KNOWN-FINDING|OK|INFRA)|signature=" /tmp/trymut.$$.log | head -12
rm -f /tmp/trymut.$$.log replay/$ID-*.json
echo "rc=$rc"
