#!/bin/bash
# tools/confirm_mutant.sh <dir with patch.diff demo_test.go> <demo target dir relative to repo, e.g. ast or .>
# Confirms in a scratch worktree: patch applies+builds, whole suite passes with it, demo fails with it and passes without.
set -u
D="$(cd "$1" && pwd)"; T="${2:-.}"; FLAGS="${3:-}"   # FLAGS: extra go test flags for the demo (e.g. "-race -run TestX")
export GOFLAGS=-mod=mod GOPROXY=off GOSUMDB=off GOTOOLCHAIN=local
W=/tmp/mut/confirm.$$
git -C /repo worktree add -q --detach $W HEAD || exit 3
trap 'git -C /repo worktree remove --force $W' EXIT
cd $W
cp "$D/demo_test.go" $T/zz_demo_test.go
go test -vet=off -count=1 $FLAGS ./$T/ > /tmp/cm.$$.a 2>&1; a=$?
git apply "$D/patch.diff" || { echo "APPLY-FAIL"; exit 3; }
go build ./... || { echo "BUILD-FAIL"; exit 3; }
go test -vet=off -count=1 $FLAGS ./$T/ > /tmp/cm.$$.b 2>&1; b=$?
rm $T/zz_demo_test.go
go test -vet=off -count=1 ./... > /tmp/cm.$$.c 2>&1; c=$?
echo "demo-without-patch rc=$a (want 0); demo-with-patch rc=$b (want !=0); suite-with-patch rc=$c (want 0)"
[ $a -ne 0 ] && tail -5 /tmp/cm.$$.a
[ $c -ne 0 ] && grep -v "^ok\|no test files" /tmp/cm.$$.c | tail -8
rm -f /tmp/cm.$$.*
[ $a -eq 0 ] && [ $b -ne 0 ] && [ $c -eq 0 ] && echo CONFIRMED
