#!/usr/bin/env python3
"""Regenerates /verif/MANIFEST.json from the table below (single source of truth)."""
import json, subprocess, os
ROOT = os.path.dirname(os.path.dirname(os.path.abspath(__file__)))

CHECKS = {
 # id: (level, technique, text, note, design_ref)
 "C13": ("model_checking",
   "TLA+ spec AstTree.tla/Walk.tla model-checked by TLC; every TLC-enumerated transition replayed on real ast.Node values; random call traces validated by TLC against TraceAstTree.tla",
   "TLC enumerates every forest over 4 (thorough: 5) nodes and every mutator call satisfying the proviso; each transition is executed on the real nodes from the shortest path and along random walks and the complete accessor projection compared; every (forest, root, walker script) of Walk.tla is executed with the real ast.Walk; 150+ random call sequences over 6 nodes are logged and validated by TLC. Exhaustive within the bounds, so the right level is model checking with conformance replay.",
   "TLC, the Json community module, the Go projection through public accessors; node pools of 4-6 nodes", "DESIGN.md 3.1, 5/C13"),
 "C18": ("model_checking",
   "TLA+ cursor model Reader.tla model-checked by TLC; every TLC-enumerated (source, segments, cursor, saved positions, call) transition replayed on real text.Reader/BlockReader values under every cache state (fill -> move -> query); random call traces validated by TLC against TraceReader.tla",
   "TLC enumerates all sources up to length 3 (thorough: 4) over tab/newline/letter and bracket alphabets, for the block reader all lists of padded line segments, and every call sequence as a graph over (cursor, saved positions); each transition is executed on the real readers from its shortest path after each subset of the cache-filling queries, followed by every query of the successor state, plus random walks; 400+ random call sequences on sources up to 27 bytes (CR, brackets, back-ticks, backslashes) are logged with their replies and validated by TLC. Exhaustive within the bounds: model checking with conformance replay.",
   "TLC, Json module; documented preconditions encoded as CallOk in Reader.tla (listed in the evidence assumptions)", "DESIGN.md 3.2, 5/C18"),
 "C19": ("model_checking",
   "TLA+ spec BytesFilter.tla model-checked by TLC and every enumerated New/Add/Extend transition replayed on real util.BytesFilter values; law predicates of UtilLaws.tla evaluated by TLC on (function, input, output) pairs recorded from the real util functions",
   "BytesFilter half: TLC enumerates all states of up to 3 filters over 5 (thorough: 6) keys that collide in one hash bucket and share 3-byte prefixes, every Add/Extend(0..1 keys) transition is executed on real filters through both constructor families and the whole Contains table compared; exhaustive within bounds. Laws half: TLC is a law evaluator over ~56k (thorough ~1M) recorded pairs: all byte strings up to length 3 (4) over a 20-byte alphabet for each function, every rune with a non-trivial simple-fold orbit as a label case variant, structured and random longer strings. The first half is model checking with conformance replay; the second is exploration judged by TLA+ predicates.",
   "TLC, Json/IOUtils; unicode.SimpleFold for case variants; keys picked with a re-implemented hash", "DESIGN.md 3.12, 5/C19"),
 "C20": ("model_checking",
   "TLA+ specs Registry.tla (registration list, sort, dispatch table) and RenderWalk.tla model-checked by TLC; every enumerated configuration instantiated as a real goldmark.New with probe parsers/transformers/renderers and the invocation log and output compared with the model",
   "TLC enumerates, per component class (inline parsers on a shared trigger, triggered and trigger-less block parsers, paragraph transformers, AST transformers, node renderers for one kind), every injective assignment of 3 probes to 5 priority ranks around the built-in, every accept and trigger script, every registration order and every route (option vs extension) and checks on the model that log and winner depend on priorities alone; each configuration (112k quick) is run on the real library under adjacent, wide and MinInt/MaxInt priority scales. RenderWalk.tla enumerates all trees of 4 (5) nodes with kinds that have a renderer, skip children, or have no renderer function (created before/after first use). Exhaustive within bounds.",
   "TLC, Json; built-in priorities as documented in parser.DefaultBlockParsers/DefaultInlineParsers/DefaultParagraphTransformers and the HTML renderer's 1000", "DESIGN.md 3.3, 5/C20"),
 "C15": ("model_checking",
   "TLA+ spec HeadingIDs.tla model-checked by TLC; every enumerated heading sequence concretised into documents and converted by the real library on fresh and long-used instances; observed id lists judged by the TLA+ acceptor TraceHeadingIDs.tla",
   "TLC enumerates every sequence of up to 5 (thorough: 6) headings over 7 slug classes closed under the suffix operation (a, a-1, a-1-1, a-2, heading, heading-1, empty) and checks NonEmpty, Distinct and HistoryIndependent on the model (with negative controls); each sequence becomes 3 (7) real documents (ATX/Setext, levels, closing sequences, block quote / list item / nested containers, several texts per slug class) converted under 4 configurations, each on a fresh instance and on an instance that has converted every earlier document; TLC judges the observed ids. 6000 (100000) mutated documents go through the same acceptor. Exhaustive over the model's sequences; model checking with conformance replay.",
   "TLC, Json/IOUtils; strict HTML tokenizer; AutoHeadingID without attribute syntax", "DESIGN.md 3.4, 5/C15"),
 "C14": ("model_checking",
   "TLA+ spec Writer.tla (bufio protocol, sticky error, final Flush) model-checked by TLC; every enumerated (write-size plan, fail offset, failure kind) executed on the real renderer; runs of real documents with the destination failing at every byte offset recorded and judged by the TLA+ acceptor TraceWriter.tla",
   "TLC explores every plan of up to 4 writes of 1,2,4,5,9 units (total <= 12, buffer 4 units) x every fail offset x short/zero failure and checks Prefix, ErrorSurfaces and termination (negative controls: dropped flush error, flush skipped when nothing is buffered); all ~6800 plans are executed on the real renderer with unit = 1024 bytes (exact comparison with the model is diagnostic) and at off-by-one offsets through four destination kinds; 60+ (600+) real documents including outputs of 20-30 KiB are converted with the destination failing at EVERY byte offset (stride + buffer-boundary neighbourhoods for the large ones), alternating Convert/Render, short/zero failures and plain, bufio(16/4096/65536) and custom BufWriter destinations; TLC judges each recorded run. Fault enumeration is exhaustive over offsets for the small documents.",
   "TLC, Json/IOUtils; the fault-injecting writer and the byte comparison with the fault-free output are harness code", "DESIGN.md 3.10, 5/C14"),
 "C07": ("model_checking",
   "TLA+ spec Once.tla (three sync.Once-guarded tables, one action per hook event plus the internal steps of sync.Once) model-checked by TLC; TLC-enumerated gate schedules replayed on real goroutines sharing one Markdown/Parser/Renderer under the Go race detector (gates spin in norace functions, adding no happens-before edge); per-goroutine event logs of scheduled and free-running runs validated by TLC against TraceOnce.tla; verdict = race report, panic or bytes differing from the same call run alone",
   "TLC checks ReadsBuilt, InitOnce, OwnerExclusive, ResultSequential, NoWriteAfterDone and termination for 2 and 3 goroutines (negative controls: once replaced by a flag test, flag set before the build). Every transition of the gate-level graph of 7 (thorough: 12) classes - 2 or 3 goroutines calling Convert/Parse/Render in every mix, work split in 2 (3) chunks, entity table idle or built - is covered by a schedule, plus 150 (1500) random schedules per class: ~1700 scheduled runs quick, each on a fresh shared instance of a rotating configuration of the 256-lattice with documents touching every extension and every lazily built table; first-use races of the process-wide entity table run in 48 (400+) fresh processes; 96 (1536) free-running 4-goroutine runs under GOMAXPROCS 1/2/16 with injected yields. Exhaustive over the model's gate-level transitions; the race detector observes the executed paths.",
   "TLC, Json; Go race detector (-race build of the harness, cgo); hooks ParseEnter/Init*/TablesRead/ParseReturn/RInit*/RTablesRead/EntInit*/Open/Continue/InlineTry/RenderNode (-tags verif)", "DESIGN.md 3.3, 5/C07"),
 "C01": ("exploration",
   "TLA+ generator Slots.tla (slot x payload x ending product) enumerated by TLC and every element, plus deep-nesting inputs, all short strings, repository examples and mutated documents, converted by the real library under all 256 configurations with a watchdog; abstract (configuration, api, outcome) events judged by the TLA+ acceptor TraceTotal.tla",
   "Every document of the TLC-enumerated product of 47 text-bearing slots x 200 (thorough: 1660) payloads of escaping/robustness atoms x 2 endings, ~280 (560) structured deep-nesting / unclosed-opener inputs up to 400 (12000) repetitions, every string of length <= 3 over a 22-symbol Markdown alphabet (incl. UTF-8 continuation and lead bytes), ~950 repository examples and 2500 (60000) mutated documents is run under all 256 built-in configurations, alternating Convert and Parse+Render: 8.7 million calls in the quick tier. Panics are recovered and attributed to the first goldmark frame; a call exceeding 20 s is re-run alone in a child process with 60 s. The space of all byte strings is only sampled beyond length 3, so the level is exploration; TLC contributes the structured enumeration and the acceptance of the call trace.",
   "TLC, Json; the watchdog's time limits; a never-failing bytes.Buffer destination", "DESIGN.md 5/C01"),
 "C03": ("model_checking",
   "TLA+ acceptor HtmlOut.tla (element stack, tag/attribute vocabulary, reference well-formedness, placeholder comment, XHTML well-formedness flag) evaluated by TLC on the token stream of every distinct safe-mode output; workload = the TLC-enumerated Slots.tla product under all 128 safe configurations plus repository and mutated documents",
   "TLC enumerates the slot x payload x ending product (48 slots x 200 payloads x 2; thorough 1660 payloads) and every element is converted under all 128 safe configurations (2.9 million conversions quick); outputs are cut by the harness's strict tokenizer, deduplicated by abstract token structure, and TLC evaluates the statement's clauses on each distinct one (stack discipline for nesting, fixed tag and per-tag attribute vocabulary incl. data-*, no bad '&', only the placeholder comment; XHTML outputs must pass encoding/xml in strict mode when representable). Exhaustive over the enumerated product; mutated and repository documents add breadth.",
   "TLC, Json/IOUtils; strict tokenizer; encoding/xml; vocabulary constants transcribed from the renderers", "DESIGN.md 3.10, 5/C03"),
 "C04": ("model_checking",
   "TLA+ generator UrlAttack.tla enumerated by TLC, every attack concretised and converted in safe mode; every emitted href/src decoded like a browser and classified by the WHATWG-front-end operator Class of HtmlOut.tla, evaluated by TLC",
   "TLC enumerates 6 schemes x 4 letter-case patterns x 24 obfuscations (none, backslash, named/decimal/hex/padded references, percent, leading and embedded whitespace/control characters raw and as references, double encoding) x 3 positions x 17 constructs (inline, <...>, reference definitions full/collapsed/shortcut, images, autolinks, linkify, nested image in link, footnote, table, definition list, containers) = 29376 documents, each converted under 12 (thorough: 128) safe configurations; TLC classifies every decoded href/src. URL-slot documents of Slots.tla, repository examples and 3000 (80000) mutated documents seeded with scheme fragments go through the same acceptor. Exhaustive over the attack grammar.",
   "TLC, Json/IOUtils; html.UnescapeString; browser modelled by the WHATWG scheme front end only", "DESIGN.md 3.10, 5/C04"),
 "C08": ("model_checking",
   "TLA+ law QuoteLaw of Meta.tla evaluated by TLC on line-token abstractions of (out(D), out('> '-prefixed D)) pairs recorded from the real library; workload = TLC-enumerated Slots.tla product, all short strings, spec examples with spec.json as expected side, repository and mutated documents",
   "Every tab/CR-free non-blank document of the Slots.tla product (19k), every string of length <= 3 over a 21-symbol alphabet, ~950 repository examples and 4000 (80000) mutated documents is converted plain and with '> ' in front of every line, 1 to 2 (3) levels deep, under {core, GFM} x {safe, unsafe, XHTML}; for the 652 spec examples the inner side is spec.json's HTML. 408k law instances quick; records are renamed injectively and deduplicated by shape, and TLC evaluates QuoteLaw on every distinct shape. The law is relational, so no expected output is needed.",
   "TLC, Json/IOUtils; line-level comparison (outputs of block rendering end in a newline; others are not judged)", "DESIGN.md 3.11, 5/C08"),
 "C09": ("model_checking",
   "TLA+ laws ConcatLaw / SameLaw of Meta.tla evaluated by TLC on line-token abstractions of outputs recorded from the real library; the side condition 'A does not end inside an open code/HTML block' is read from the real parse through the verif hook event EndOfInput; workload = exhaustive pairs of short block-structure strings + document pairs + definition blocks in every spelling and placement",
   "ALL ordered pairs of the 269 (thorough: ~600) strings of length <= 3 over {'- ', '-', newline, 'a', two spaces, fence} plus hand-picked list/fence/quote endings (72k pairs), 40000 (600000) random pairs of Slots.tla / repository / mutated documents, and 6000+ (80000+) definition-mobility instances (10 definition spellings incl. <...> destinations, multi-line titles, with and without a final newline x 10 reference spellings x base documents) under core/GFM, safe/unsafe/XHTML. The open-block stack at end of input comes from the instrumented parser, so no pair is judged outside the statement's side condition. TLC evaluates the law on each distinct shape of the canonically renamed records.",
   "TLC, Json/IOUtils; hook EndOfInput (-tags verif); '[' byte = link reference syntax", "DESIGN.md 3.11, 5/C09"),
 "C11": ("model_checking",
   "TLA+ law SameLaw of Meta.tla evaluated by TLC on line-token abstractions of (with extension, without extension) output pairs recorded from the real library for trigger-free documents; one known finding matched by signature",
   "Each of Strikethrough, Table, TaskList, Footnote, DefinitionList, Typographer, Linkify, CJK (simple, css3-draft, escaped-space only) is compared alone against core, on top of all the other extensions and on top of each single other extension (85 comparisons under rotating renderer/parser flags), plus extension.GFM against its four members; documents: the Slots.tla product, all strings of length <= 3 over a 22-symbol alphabet, repository examples, word x line-ending x wrapper combinations with wide and narrow characters, and 3000 (60000) mutated documents each also in a trigger-stripped variant; the statement's byte filters decide which documents count for which extension: 1.5 million law instances quick. TLC judges each distinct shape. The css3-draft behaviour next to ASCII punctuation is a recorded known finding, identified by a signature computed from the source and the difference.",
   "TLC, Json/IOUtils; 'www.' filtered case-insensitively", "DESIGN.md 3.11, 5/C11, 6"),
 "C10": ("model_checking",
   "TLA+ product-trace acceptor OptionRel.tla evaluated by TLC on per-node-event output segments of the same parsed tree rendered under option sets A and A+one option (segments cut with the verif hook RenderNode and a recording BufWriter)",
   "For every document (Slots.tla product, repository examples, 3000 (60000) mutated documents, URL-scheme documents) and 5 extension sets (table alignment pinned to the attribute method, East-Asian suppression off) the tree is parsed once and rendered under all 8 combinations of {XHTML, HardWraps, Unsafe}; for each of the 12 edges of the option cube every node event's two segments are tokenised and TLC checks the exact rewrite: XHTML - every void element and only those gain ' />'; HardWraps - a <br> exactly before the newline of each Text with its soft-break flag and nothing else; Unsafe - differences only inside RawHTML/HTMLBlock events (placeholder versus bytes) or in the href/src value of Link/Image/AutoLink events whose unsafe URL is dangerous for the WHATWG front end. 2.0 million steps quick, deduplicated to ~3700 shapes.",
   "TLC, Json/IOUtils; hook RenderNode (-tags verif); strict tokenizer", "DESIGN.md 3.10, 5/C10"),
 "C06": ("model_checking",
   "TLA+ spec Instance.tla model-checked by TLC (Pure; negative controls) and every enumerated call history replayed on real instances with concrete document assignments; per-document outputs and tree digests judged by the TLA+ law AllSame of Meta.tla",
   "TLC enumerates all histories of 3 (thorough: 4) calls over 4 abstract documents x {Convert, Parse+Render, ReRender} x {long-lived, fresh instance}; 40 (400) seeded assignments of concrete documents (a hand list exercising reference maps, heading ids, footnotes, typographer quotes, tables, fences, lists, attributes; repository and mutated documents) x 8 (32) configurations replay them; in addition ALL ordered pairs X-then-Y of a 240 (940) document set run as Convert(X); Parse+Render(Y); ReRender(Y) on one instance. Every output is compared with the fresh-instance output of the same document and the tree digest is compared around every Render. 514k API calls quick.",
   "TLC, Json/IOUtils; tree digest = kinds, child counts, attributes, segments, flags", "DESIGN.md 3.3, 5/C06"),
 "C12": ("exploration",
   "Frame condition FrameLaw of the TLA+ module Meta.tla evaluated by TLC on (source hash before, after, faulted) triples recorded from real conversions of read-only memory; workload from the TLC-enumerated Slots.tla product; the observer is memory protection (PROT_READ page + SetPanicOnFault)",
   "Every document of the Slots.tla product, ~950 repository examples and 2500 (60000) mutated documents is copied to the end of a read-only mapping followed by a guard page and converted under 32 rotating (thorough: all 256) configurations; any store, including an append into the spare capacity of a sub-slice of the source, faults and is recorded; 17 exported util functions are called on random and whole sub-slices of read-only inputs. 806k calls quick. The specification contributes the frame condition and the enumerated workload only, so the level is exploration.",
   "mmap/mprotect/SetPanicOnFault (self-tested at the start of every run); TLC, Json/IOUtils", "DESIGN.md 5/C12, 7"),
 "C17": ("model_checking",
   "TLA+ spec Table.tla (IsTable / Shape; negative control PadHeader) enumerated by TLC, every candidate concretised and converted; observed tables (HTML and AST) judged by the TLA+ acceptor TraceTable.tla together with the model's expectation",
   "TLC enumerates every candidate with 0..2 (thorough: 0..3) header cells x 1..2 (3) delimiter columns with all alignment assignments x up to 2 body rows of 0..3 (4) cells x 4 pipe-edge spellings x 8 cell kinds (escaped pipe, pipe in code span, empty cells, lone pipe, doubled trailing pipe, padding spaces, inline content) x {top level, block quote, list item} x with/without preceding paragraph text = 241920 documents, converted with Table / GFM / all extensions; TLC checks: exactly one header row, every body row as wide as the header, HTML and AST agree, filled cells carry their column's alignment, mismatched header => no table, matching header => one table of the predicted shape. 20000 (300000) pipe/dash/colon soup documents and the repository examples go through the clauses that need no expectation.",
   "TLC, Json/IOUtils; strict tokenizer; alignment rendering pinned to the align attribute", "DESIGN.md 3.6, 5/C17"),
 "C16": ("model_checking",
   "TLA+ spec Footnote.tla (generator + model of the bookkeeping in an intended and an as-coded mode) model-checked by TLC; every enumerated abstract document concretised and converted; observed ids / hrefs / numbers judged by the TLA+ acceptor TraceFootnote.tla; two known findings matched by cause",
   "TLC enumerates every document of up to 3 (thorough: 4) items over definitions (optionally referencing another footnote in their body) and references in 9 placements (plain, emphasis, link text, image alt, heading, table cell, list item, block quote, strikethrough) with 2 labels: 18278 (thorough ~400k) documents, checks the P-invariants on the intended model and exhibits the known classes on the as-coded model; each document is converted under 3 configurations and TLC checks on the OUTPUT: items numbered fn:1..n in order, every reference links to an existing item and shows its number, ids distinct, every item has a rendered reference, back-links and references correspond one to one and sit in the right item. 8000 (150000) footnote-soup documents go through the same acceptor. Known findings are recognised by cause using a parse without the footnote AST transformer.",
   "TLC, Json/IOUtils; strict tokenizer; default id forms; extension.NewFootnoteBlockParser/NewFootnoteParser used without the transformer for cause analysis", "DESIGN.md 3.5, 5/C16, 6"),
 "C05": ("model_checking",
   "TLA+ acceptor AstShape.tla (link consistency as derived from the child-sequence model of AstTree.tla, kind grammar, position clauses) evaluated by TLC on the projection of every distinct tree shape returned by the real Parse; workload from the TLC-enumerated Slots.tla product, short strings, repository and mutated documents under all parser configurations",
   "Each document (Slots.tla product, all strings of length <= 3 over 22 symbols, repository examples, 3000 (60000) mutated documents, footnote orderings, tab-indented fences, Setext fallbacks) is parsed under 8 rotating (thorough: all 32) parser configurations; the tree is read through public accessors only (children forward and backward, Parent, NextSibling, PreviousSibling, ChildCount, HasChildren, kinds, levels, block lines, text / info / closure / raw-HTML segments), positions are renamed order-preservingly, and TLC checks every node of every distinct shape: forward list = reverse of backward list, count, parent and sibling links, no node twice, no bookkeeping kinds, container grammar, inline only below blocks, no link in link, levels, 0 <= Start <= Stop <= len, block lines increasing, text segments in document order inside the block's lines. 278k parses quick.",
   "TLC, Json/IOUtils; projection code; kind-grammar constants", "DESIGN.md 3.13, 5/C05"),
}

NOT_YET = "check not built yet in this revision of /verif (see DESIGN.md section 5 for the planned TLA+ decision procedure)"

def main():
    props = [json.loads(l)["id"] for l in open(os.path.join(ROOT, "properties.jsonl"))]
    hooks_commits = []
    hc = os.path.join(ROOT, "hook_commits.txt")
    if os.path.exists(hc):
        hooks_commits = [l.strip() for l in open(hc) if l.strip()]
    m = {
      "version": 1,
      "setup_cmd": "./setup.sh",
      "hooks": {
        "guard": "verif",
        "enable": "go build -tags verif (the harness module replaces github.com/yuin/goldmark with /repo and is always built with -tags verif)",
        "baseline_off_cmd": "cd /repo && go test -mod=mod -json -vet=off -count=1 -timeout 25m ./...",
        "source_commits": hooks_commits,
        "add_only": True,
      },
      "engines": [
        {"name": "tlc", "path": "/opt/veriftools/tla/tla2tools.jar", "serves_properties": sorted(CHECKS), "kind_free_text": "TLC 1.8.0 explicit-state model checker: exhaustive model checking, generation of transitions/documents/schedules as JSON, and trace validation of ndjson logs recorded from the real code"},
        {"name": "harness", "path": "/verif/harness", "serves_properties": sorted(CHECKS), "kind_free_text": "Go conformance harness (replace goldmark => /repo, -tags verif): replays TLC output on the real code, records traces for TLC"},
      ],
      "checks": [],
      "notes": "One TLA+ specification tree under /verif/spec; ./check <id> <tier> rebuilds the harness from /repo's working tree, runs TLC (model check + generator + trace validation) and writes evidence/<id>.json. Exit 0 = held, 1 = VIOLATION (reproduced, with replay file), 2 = infrastructure problem (never a verdict).",
      "not_applicable": [],
    }
    for pid in props:
        if pid in CHECKS:
            level, tech, text, note, ref = CHECKS[pid]
            m["checks"].append({
              "property_id": pid,
              "quick_cmd": f"./check {pid} quick",
              "thorough_cmd": f"./check {pid} thorough",
              "evidence_file": f"/verif/evidence/{pid}.json",
              "replay_cmd_template": f"./check {pid} --replay {{path}}",
              "engine": "tlc+harness",
              "level_claimed": {"category": level, "text": text, "design_ref": ref},
              "level_note": note,
              "technique": tech,
            })
        else:
            m["not_applicable"].append({"property_id": pid, "reason": NOT_YET})
    json.dump(m, open(os.path.join(ROOT, "MANIFEST.json"), "w"), indent=1)
    print("MANIFEST.json:", len(m["checks"]), "checks,", len(m["not_applicable"]), "not applicable")

main()
