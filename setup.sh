#!/bin/bash
# Builds the harness once (warms the Go build cache) and parses every TLA+ module.
set -e
cd "$(dirname "$0")"
export GOFLAGS=-mod=mod GOPROXY=off GOSUMDB=off GOTOOLCHAIN=local
mkdir -p .bin .work evidence replay
( cd harness && cp -f /repo/go.sum . 2>/dev/null || true; go build -tags verif -o ../.bin/vh.setup . && rm -f ../.bin/vh.setup )
W=.work/setup.$$
mkdir -p $W && cp spec/*.tla $W/
rc=0
for f in $W/*.tla; do
  ( cd $W && timeout 120 java -cp /opt/veriftools/tla/tla2tools.jar:/opt/veriftools/tla/CommunityModules-deps.jar tla2sany.SANY "$(basename $f)" >sany.out 2>&1 ) || { echo "SANY failed: $f"; cat $W/sany.out; rc=1; }
  if grep -q -E "Parse Error|Semantic error|\*\*\* Errors" $W/sany.out; then echo "SANY errors in $f"; cat $W/sany.out; rc=1; fi
done
rm -rf $W
exit $rc
